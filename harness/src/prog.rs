//! Circuit programs over the gadget vocabulary (the concrete side of spec/Programs.tla).
//!
//! A program is a list of instructions `{op, args}` over a growing list of values; the first
//! `nin` values are the inputs.  Operand `k` denotes value `k mod len`; a boolean operand denotes
//! the first boolean-typed value at or after `k mod len` (cyclically), or constant false when
//! there is none, so every argument tuple is well formed.  `interp` is the direct evaluation over
//! F_p (any prime p, word size `nb` bits) written against the specification; `build` assembles the
//! same program through the public `CircuitBuilder` API.
use anyhow::{anyhow, Result};
use plonky2::field::extension::Extendable;
use plonky2::field::types::Field;
use plonky2::hash::hash_types::{HashOut, HashOutTarget, MerkleCapTarget, RichField};
use plonky2::hash::merkle_proofs::MerkleProofTarget;
use plonky2::hash::merkle_tree::MerkleTree;
use plonky2::hash::poseidon::PoseidonHash;
use plonky2::iop::ext_target::ExtensionTarget;
use plonky2::iop::target::{BoolTarget, Target};
use plonky2::iop::witness::{PartialWitness, WitnessWrite};
use plonky2::plonk::circuit_builder::CircuitBuilder;
use plonky2::plonk::circuit_data::CircuitConfig;
use plonky2::plonk::config::Hasher;
use plonky2::util::reducing::ReducingFactorTarget;
use serde::{Deserialize, Serialize};

use crate::refarith::{Fp, GOLDILOCKS};
use crate::util::F;

pub const D: usize = 2;

#[derive(Clone, Debug, Serialize, Deserialize)]
pub struct Instr {
    pub op: String,
    pub args: Vec<u64>,
}

#[derive(Clone, Debug, Serialize, Deserialize)]
pub struct Program {
    pub nin: usize,
    pub instrs: Vec<Instr>,
}

/// lookup tables available to every program: table t has inputs 0..2^bits-1
pub const LUT_BITS: [usize; 3] = [2, 4, 5];
pub fn lut_out(t: usize, i: u64) -> u64 {
    match t {
        0 => (i * i + 3) & 0xFFFF,
        1 => (0xFFFF - 7 * i) & 0xFFFF,
        _ => (i ^ 0x5A5A) & 0xFFFF,
    }
}

pub fn const_table(p: u64) -> Vec<u64> {
    [0u64, 1, 2, p - 1, p - 2, 1u64 << 32, (1u64 << 32) - 1, 3, 7, 0xFFFF_FFFF_FFFF_FFFF]
        .iter()
        .map(|c| c % p)
        .collect()
}
pub const EXP_TABLE: [u64; 10] = [0, 1, 2, 3, 5, 16, 64, 255, 65537, u64::MAX];
pub const POW2_TABLE: [usize; 6] = [0, 1, 2, 5, 31, 63];

pub fn range_table(nb: usize) -> Vec<usize> {
    if nb >= 64 {
        vec![1, 2, 8, 16, 32, 63, 64]
    } else {
        (1..=nb).collect()
    }
}
pub fn expbits_table(nb: usize) -> Vec<usize> {
    if nb >= 64 {
        vec![1, 4, 16, 64]
    } else {
        vec![1, 2, nb]
    }
}

#[derive(Clone, Debug)]
pub struct Unsat(pub String);

struct Ctx {
    ty: Vec<bool>,
}
impl Ctx {
    fn v(&self, k: u64) -> usize {
        (k as usize) % self.ty.len()
    }
    /// Some(index) of a boolean value, None = constant false
    fn b(&self, k: u64) -> Option<usize> {
        let n = self.ty.len();
        let s = (k as usize) % n;
        (0..n).map(|d| (s + d) % n).find(|&i| self.ty[i])
    }
}

fn arg(i: &Instr, k: usize) -> u64 {
    i.args.get(k).copied().unwrap_or(0)
}

/// ops that exist only over the real field (no small-field model)
pub fn needs_real_field(op: &str) -> bool {
    matches!(op, "hash" | "hash_or_noop" | "merkle")
}

pub const ALL_OPS: [&str; 41] = [
    "const", "add", "sub", "mul", "neg", "square", "cube", "inverse", "div", "mul_const", "add_const",
    "arith", "mul_add", "mul_sub", "add_many", "mul_many", "exp_u64", "exp_pow2", "exp", "split",
    "split_base4", "range", "low_bits", "is_equal", "select", "not", "and", "or", "assert_bool",
    "random_access", "reduce", "emul", "eadd", "esub", "ediv", "lookup", "assert_comm", "assert_eq",
    "assert_zero", "hash", "merkle",
];

// ---------------------------------------------------------------------------------------------
// direct evaluation
// ---------------------------------------------------------------------------------------------
pub struct Interp {
    pub f: Fp,
    pub nb: usize,
    /// native hash used for "hash"/"merkle" (real field only)
    pub vals: Vec<u64>,
    pub ty: Vec<bool>,
    pub uses_lookup: bool,
    pub uses_hash: bool,
}

fn bits_of(x: u64, nb: usize) -> Vec<u64> {
    (0..nb).map(|i| if i < 64 { (x >> i) & 1 } else { 0 }).collect()
}
fn fits(x: u64, n: usize) -> bool {
    n >= 64 || x < (1u64 << n)
}
fn low(x: u64, n: usize) -> u64 {
    if n >= 64 {
        x
    } else {
        x & ((1u64 << n) - 1)
    }
}

/// Evaluates `prog` on `inputs` over F_p.  Ok(all values) or the reason it is unsatisfiable.
pub fn interp(prog: &Program, inputs: &[u64], p: u64, nb: usize) -> std::result::Result<Interp, Unsat> {
    let f = Fp::new(p);
    let mut st = Interp { f, nb, vals: vec![], ty: vec![], uses_lookup: false, uses_hash: false };
    for i in 0..prog.nin {
        st.vals.push(f.red(inputs[i]));
        st.ty.push(false);
    }
    let consts = const_table(p);
    for ins in &prog.instrs {
        let cx = Ctx { ty: st.ty.clone() };
        let val = |k: usize| st.vals[cx.v(arg(ins, k))];
        let bval = |k: usize| cx.b(arg(ins, k)).map(|i| st.vals[i]).unwrap_or(0);
        let cst = |k: usize| consts[(arg(ins, k) as usize) % consts.len()];
        let mut out: Vec<(u64, bool)> = vec![];
        match ins.op.as_str() {
            "const" => out.push((cst(0), false)),
            "add" => out.push((f.add(val(0), val(1)), false)),
            "sub" => out.push((f.sub(val(0), val(1)), false)),
            "mul" => out.push((f.mul(val(0), val(1)), false)),
            "neg" => out.push((f.neg(val(0)), false)),
            "square" => out.push((f.mul(val(0), val(0)), false)),
            "cube" => out.push((f.mul(val(0), f.mul(val(0), val(0))), false)),
            "inverse" => out.push((f.inv(val(0)).ok_or(Unsat("inverse of zero".into()))?, false)),
            "div" => {
                let bi = f.inv(val(1)).ok_or(Unsat("division by zero".into()))?;
                out.push((f.mul(val(0), bi), false))
            }
            "mul_const" => out.push((f.mul(cst(0), val(1)), false)),
            "add_const" => out.push((f.add(cst(0), val(1)), false)),
            "arith" => out.push((f.add(f.mul(cst(0), f.mul(val(2), val(3))), f.mul(cst(1), val(4))), false)),
            "mul_add" => out.push((f.add(f.mul(val(0), val(1)), val(2)), false)),
            "mul_sub" => out.push((f.sub(f.mul(val(0), val(1)), val(2)), false)),
            "add_many" => out.push((f.add(f.add(val(0), val(1)), val(2)), false)),
            "mul_many" => out.push((f.mul(f.mul(val(0), val(1)), val(2)), false)),
            "exp_u64" => out.push((f.pow(val(0), EXP_TABLE[(arg(ins, 1) as usize) % EXP_TABLE.len()]), false)),
            "exp_pow2" => {
                let k = POW2_TABLE[(arg(ins, 1) as usize) % POW2_TABLE.len()];
                let mut x = val(0);
                for _ in 0..k {
                    x = f.mul(x, x);
                }
                out.push((x, false))
            }
            "exp" => {
                let t = expbits_table(nb);
                let n = t[(arg(ins, 2) as usize) % t.len()];
                let e = val(1);
                if !fits(e, n) {
                    return Err(Unsat(format!("exp: exponent {e} does not fit {n} bits")));
                }
                out.push((f.pow(val(0), e), false))
            }
            "split" => {
                let x = val(0);
                let k = (arg(ins, 1) as usize) % nb;
                let bits = bits_of(x, nb);
                out.push((f.red(x), false)); // le_sum of all bits
                out.push((bits[k], true));
                out.push((f.red(low(x, k)), false)); // le_sum of the k low bits
            }
            "split_base4" => {
                let x = val(0);
                let nl = (nb + 1) / 2;
                if !fits(x, 2 * nl) {
                    return Err(Unsat("split_base4: does not fit".into()));
                }
                out.push((x & 3, false));
                out.push(((x >> 2) & 3, false));
                out.push((f.red(x), false));
            }
            "range" => {
                let t = range_table(nb);
                let n = t[(arg(ins, 1) as usize) % t.len()];
                if !fits(val(0), n) {
                    return Err(Unsat(format!("range_check: {} is not below 2^{n}", val(0))));
                }
            }
            "low_bits" => {
                let k = (arg(ins, 1) as usize) % nb;
                out.push((f.red(low(val(0), k)), false));
            }
            "is_equal" => out.push(((val(0) == val(1)) as u64, true)),
            "select" => out.push((if bval(0) == 1 { val(1) } else { val(2) }, false)),
            "not" => out.push((1 - bval(0), true)),
            "and" => out.push((bval(0) & bval(1), true)),
            "or" => out.push((bval(0) | bval(1), true)),
            "assert_bool" => {}
            "random_access" => {
                let lens = [2usize, 3, 4, 8];
                let len = lens[(arg(ins, 5) as usize) % 4];
                let bits = len.next_power_of_two().trailing_zeros() as usize;
                let idx = low(val(0), bits) as usize;
                let v: Vec<u64> = (0..len).map(|j| st.vals[cx.v(arg(ins, 1 + j % 4) + (j / 4) as u64)]).collect();
                // the gadget pads the list with its last element
                let e = if idx < len { v[idx] } else { v[len - 1] };
                out.push((e, false))
            }
            "reduce" => {
                let alpha = [val(0), val(1)];
                let terms = [val(2), val(3), val(4)];
                let mut acc = [0u64, 0u64];
                for t in terms.iter().rev() {
                    acc = f.e_add(f.e_mul(acc, alpha), [*t, 0]);
                }
                out.push((acc[0], false));
                out.push((acc[1], false));
            }
            "emul" | "eadd" | "esub" | "ediv" => {
                let a = [val(0), val(1)];
                let b = [val(2), val(3)];
                let r = match ins.op.as_str() {
                    "emul" => f.e_mul(a, b),
                    "eadd" => f.e_add(a, b),
                    "esub" => f.e_sub(a, b),
                    _ => f.e_mul(a, f.e_inv(b).ok_or(Unsat("extension division by zero".into()))?),
                };
                out.push((r[0], false));
                out.push((r[1], false));
            }
            "lookup" => {
                let t = (arg(ins, 1) as usize) % LUT_BITS.len();
                let i = low(val(0), LUT_BITS[t].min(nb));
                st.uses_lookup = true;
                out.push((f.red(lut_out(t, i)), false))
            }
            "assert_comm" => {}
            "assert_eq" => {
                if val(0) != val(1) {
                    return Err(Unsat(format!("assert_equal({}, {})", val(0), val(1))));
                }
            }
            "assert_zero" => {
                if val(0) != 0 {
                    return Err(Unsat(format!("assert_zero({})", val(0))));
                }
            }
            "hash" | "hash_or_noop" => {
                if p != GOLDILOCKS {
                    return Err(Unsat("hash: real field only".into()));
                }
                st.uses_hash = true;
                let lens = [1usize, 4, 5, 8, 9, 13];
                let n = lens[(arg(ins, 3) as usize) % lens.len()];
                let inp: Vec<F> =
                    (0..n).map(|j| F::from_canonical_u64(st.vals[cx.v(arg(ins, j % 3) + (j / 3) as u64)])).collect();
                let h = if ins.op == "hash" { PoseidonHash::hash_no_pad(&inp) } else { PoseidonHash::hash_or_noop(&inp) };
                for e in h.elements {
                    out.push((e.0 % p, false));
                }
            }
            "merkle" => {
                if p != GOLDILOCKS {
                    return Err(Unsat("merkle: real field only".into()));
                }
                st.uses_hash = true;
                let (tree, _) = merkle_tree_for(val(0), arg(ins, 2));
                for e in tree.cap.0[0].elements {
                    out.push((e.0 % p, false));
                }
            }
            other => return Err(Unsat(format!("unknown op {other}"))),
        }
        for (v, b) in out {
            st.vals.push(v);
            st.ty.push(b);
        }
    }
    Ok(st)
}

/// the Merkle tree of op "merkle": height h in {1,2,3}, leaf j = [x, j, 7]
pub fn merkle_tree_for(x: u64, harg: u64) -> (MerkleTree<F, PoseidonHash>, usize) {
    let h = 1 + (harg as usize) % 3;
    let leaves: Vec<Vec<F>> = (0..(1u64 << h))
        .map(|j| vec![F::from_canonical_u64(x), F::from_canonical_u64(j), F::from_canonical_u64(7)])
        .collect();
    (MerkleTree::new(leaves, 0), h)
}

// ---------------------------------------------------------------------------------------------
// the same program through the CircuitBuilder API
// ---------------------------------------------------------------------------------------------
pub struct Built {
    pub inputs: Vec<Target>,
    /// every value of the program, in order
    pub vals: Vec<Target>,
    /// witness assignments that depend on the input values (Merkle roots and paths)
    pub merkle: Vec<MerkleAux>,
    pub lut_ids: Vec<Option<usize>>,
}
pub struct MerkleAux {
    pub x_index: usize, // value index of the leaf datum
    pub idx_index: usize,
    pub harg: u64,
    pub root: HashOutTarget,
    pub proof: MerkleProofTarget,
}

pub fn build<FF: RichField + Extendable<D>>(prog: &Program, b: &mut CircuitBuilder<FF, D>, nb: usize) -> Result<Built> {
    let mut vals: Vec<Target> = vec![];
    let mut ty: Vec<bool> = vec![];
    let mut inputs = vec![];
    for _ in 0..prog.nin {
        let t = b.add_virtual_target();
        inputs.push(t);
        vals.push(t);
        ty.push(false);
    }
    let consts = const_table(GOLDILOCKS);
    let mut merkle = vec![];
    let mut lut_ids: Vec<Option<usize>> = vec![None; LUT_BITS.len()];
    for ins in &prog.instrs {
        let cx = Ctx { ty: ty.clone() };
        let vs = vals.clone();
        let val = |k: usize| vs[cx.v(arg(ins, k))];
        let cst = |k: usize| FF::from_canonical_u64(consts[(arg(ins, k) as usize) % consts.len()]);
        let fls = b._false();
        let bval = |k: usize| cx.b(arg(ins, k)).map(|i| BoolTarget::new_unsafe(vs[i])).unwrap_or(fls);
        let mut out: Vec<(Target, bool)> = vec![];
        match ins.op.as_str() {
            "const" => out.push((b.constant(cst(0)), false)),
            "add" => out.push((b.add(val(0), val(1)), false)),
            "sub" => out.push((b.sub(val(0), val(1)), false)),
            "mul" => out.push((b.mul(val(0), val(1)), false)),
            "neg" => out.push((b.neg(val(0)), false)),
            "square" => out.push((b.square(val(0)), false)),
            "cube" => out.push((b.cube(val(0)), false)),
            "inverse" => out.push((b.inverse(val(0)), false)),
            "div" => out.push((b.div(val(0), val(1)), false)),
            "mul_const" => out.push((b.mul_const(cst(0), val(1)), false)),
            "add_const" => out.push((b.add_const(val(1), cst(0)), false)),
            "arith" => out.push((b.arithmetic(cst(0), cst(1), val(2), val(3), val(4)), false)),
            "mul_add" => out.push((b.mul_add(val(0), val(1), val(2)), false)),
            "mul_sub" => out.push((b.mul_sub(val(0), val(1), val(2)), false)),
            "add_many" => out.push((b.add_many([val(0), val(1), val(2)]), false)),
            "mul_many" => out.push((b.mul_many([val(0), val(1), val(2)]), false)),
            "exp_u64" => out.push((b.exp_u64(val(0), EXP_TABLE[(arg(ins, 1) as usize) % EXP_TABLE.len()]), false)),
            "exp_pow2" => out.push((b.exp_power_of_2(val(0), POW2_TABLE[(arg(ins, 1) as usize) % POW2_TABLE.len()]), false)),
            "exp" => {
                let t = expbits_table(nb);
                let n = t[(arg(ins, 2) as usize) % t.len()];
                out.push((b.exp(val(0), val(1), n), false))
            }
            "split" => {
                let k = (arg(ins, 1) as usize) % nb;
                let bits = b.split_le(val(0), nb);
                // le_sum of 64 bits is refused by contract ("64 bits may overflow the field")
                let lo = b.le_sum(bits[..nb - 1].iter());
                let top = FF::from_canonical_u64(1u64 << (nb - 1));
                out.push((b.mul_const_add(top, bits[nb - 1].target, lo), false));
                out.push((bits[k].target, true));
                out.push((b.le_sum(bits[..k].iter()), false));
            }
            "split_base4" => {
                let limbs = b.split_le_base::<4>(val(0), (nb + 1) / 2);
                out.push((limbs[0], false));
                out.push((limbs[1], false));
                let four = FF::from_canonical_u64(4);
                let mut acc = b.zero();
                for l in limbs.iter().rev() {
                    acc = b.mul_const_add(four, acc, *l);
                }
                out.push((acc, false));
            }
            "range" => {
                let t = range_table(nb);
                b.range_check(val(0), t[(arg(ins, 1) as usize) % t.len()]);
            }
            "low_bits" => {
                let k = (arg(ins, 1) as usize) % nb;
                let bits = b.low_bits(val(0), k, nb);
                out.push((b.le_sum(bits.iter()), false));
            }
            "is_equal" => out.push((b.is_equal(val(0), val(1)).target, true)),
            "select" => out.push((b.select(bval(0), val(1), val(2)), false)),
            "not" => out.push((b.not(bval(0)).target, true)),
            "and" => out.push((b.and(bval(0), bval(1)).target, true)),
            "or" => out.push((b.or(bval(0), bval(1)).target, true)),
            "assert_bool" => b.assert_bool(bval(0)),
            "random_access" => {
                let lens = [2usize, 3, 4, 8];
                let len = lens[(arg(ins, 5) as usize) % 4];
                let bits = len.next_power_of_two().trailing_zeros() as usize;
                let ib = b.low_bits(val(0), bits, nb);
                let idx = b.le_sum(ib.iter());
                let v: Vec<Target> = (0..len).map(|j| vs[cx.v(arg(ins, 1 + j % 4) + (j / 4) as u64)]).collect();
                out.push((b.random_access(idx, v), false))
            }
            "reduce" => {
                let alpha = ExtensionTarget([val(0), val(1)]);
                let mut rf = ReducingFactorTarget::new(alpha);
                let r = rf.reduce_base(&[val(2), val(3), val(4)], b);
                out.push((r.0[0], false));
                out.push((r.0[1], false));
            }
            "emul" | "eadd" | "esub" | "ediv" => {
                let x = ExtensionTarget([val(0), val(1)]);
                let y = ExtensionTarget([val(2), val(3)]);
                let r = match ins.op.as_str() {
                    "emul" => b.mul_extension(x, y),
                    "eadd" => b.add_extension(x, y),
                    "esub" => b.sub_extension(x, y),
                    _ => b.div_extension(x, y),
                };
                out.push((r.0[0], false));
                out.push((r.0[1], false));
            }
            "lookup" => {
                let t = (arg(ins, 1) as usize) % LUT_BITS.len();
                let id = match lut_ids[t] {
                    Some(id) => id,
                    None => {
                        let n = 1u16 << LUT_BITS[t];
                        let inps: Vec<u16> = (0..n).collect();
                        let outs: Vec<u16> = inps.iter().map(|&i| lut_out(t, i as u64) as u16).collect();
                        let id = b.add_lookup_table_from_table(&inps, &outs);
                        lut_ids[t] = Some(id);
                        id
                    }
                };
                let ib = b.low_bits(val(0), LUT_BITS[t], nb);
                let x = b.le_sum(ib.iter());
                out.push((b.add_lookup_from_index(x, id), false))
            }
            "assert_comm" => {
                let p1 = b.mul(val(0), val(1));
                let p2 = b.mul(val(1), val(0));
                b.connect(p1, p2);
            }
            "assert_eq" => b.connect(val(0), val(1)),
            "assert_zero" => b.assert_zero(val(0)),
            "hash" | "hash_or_noop" => {
                let lens = [1usize, 4, 5, 8, 9, 13];
                let n = lens[(arg(ins, 3) as usize) % lens.len()];
                let inp: Vec<Target> = (0..n).map(|j| vs[cx.v(arg(ins, j % 3) + (j / 3) as u64)]).collect();
                let h = if ins.op == "hash" {
                    b.hash_n_to_hash_no_pad::<PoseidonHash>(inp)
                } else {
                    b.hash_or_noop::<PoseidonHash>(inp)
                };
                for e in h.elements {
                    out.push((e, false));
                }
            }
            "merkle" => {
                let h = 1 + (arg(ins, 2) as usize) % 3;
                let ib = b.low_bits(val(1), h, nb);
                let idx = b.le_sum(ib.iter());
                let seven = b.constant(FF::from_canonical_u64(7));
                let root = b.add_virtual_hash();
                let proof = MerkleProofTarget { siblings: b.add_virtual_hashes(h) };
                b.verify_merkle_proof_to_cap::<PoseidonHash>(
                    vec![val(0), idx, seven],
                    &ib,
                    &MerkleCapTarget(vec![root]),
                    &proof,
                );
                merkle.push(MerkleAux {
                    x_index: cx.v(arg(ins, 0)),
                    idx_index: cx.v(arg(ins, 1)),
                    harg: arg(ins, 2),
                    root,
                    proof,
                });
                for e in root.elements {
                    out.push((e, false));
                }
            }
            other => return Err(anyhow!("unknown op {other}")),
        }
        for (t, isb) in out {
            vals.push(t);
            ty.push(isb);
        }
    }
    Ok(Built { inputs, vals, merkle, lut_ids })
}

/// partial witness for `inputs`; `vals` = the interpreter's values (needed for Merkle openings)
pub fn witness(built: &Built, inputs: &[u64], vals: &[u64]) -> Result<PartialWitness<F>> {
    let mut pw = PartialWitness::new();
    for (t, v) in built.inputs.iter().zip(inputs) {
        pw.set_target(*t, F::from_canonical_u64(*v % GOLDILOCKS))?;
    }
    for m in &built.merkle {
        let x = vals[m.x_index];
        let (tree, h) = merkle_tree_for(x, m.harg);
        let idx = (vals[m.idx_index] & ((1u64 << h) - 1)) as usize;
        let proof = tree.prove(idx);
        let root: HashOut<F> = tree.cap.0[0];
        pw.set_hash_target(m.root, root)?;
        for (s, t) in proof.siblings.iter().zip(&m.proof.siblings) {
            pw.set_hash_target(*t, *s)?;
        }
    }
    Ok(pw)
}

/// Does `config` admit `prog`?  (DESIGN Appendix B: gates must fit the row width.)
pub fn admissible(prog: &Program, config: &CircuitConfig, with_pis: bool) -> bool {
    let poseidon_ok = config.num_wires >= 135 && config.num_routed_wires >= 24 && config.max_quotient_degree_factor >= 7;
    let uses = |o: &str| prog.instrs.iter().any(|i| i.op == o);
    if (with_pis || uses("hash") || uses("hash_or_noop") || uses("merkle")) && !poseidon_ok {
        return false;
    }
    // Preconditions the library states as debug assertions (release builds mis-wire silently):
    // `le_sum` of n bits needs n + 1 routed wires ("Not enough routed wires"), and the
    // exponentiation gate takes at most num_power_bits = min(routed - 2, (wires - 2) / 2) exponent
    // bits (`wire_power_bit`).  The vocabulary uses 63-bit sums and 64-bit exponents.
    if config.num_routed_wires < 66
        && (uses("split") || uses("low_bits") || uses("exp") || uses("exp_u64") || uses("exp_pow2"))
    {
        return false;
    }
    // `split_le_base::<4>` of 32 limbs hands out limb wires 1..=32; using them (connect) needs them routable
    if config.num_routed_wires < 33 && uses("split_base4") {
        return false;
    }
    if config.num_wires < 66 && (uses("range") || uses("random_access") || uses("lookup") || uses("merkle") || uses("split_base4")) {
        return false;
    }
    true
}
