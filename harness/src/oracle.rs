//! Satisfaction oracle: does a complete assignment (one value per target) satisfy a built
//! circuit?  Used to classify corrupted witnesses (C02, C06, C08, C20).
//!
//! An assignment satisfies the circuit iff (1) on every row every gate's filtered constraints
//! vanish (the crate's own `evaluate_gate_constraints`, hook H7, on the constants recovered from
//! the constants/sigmas commitment and the public-input hash of the assignment's own public
//! inputs), (2) all routed wires of one copy class carry the same value, and (3) every lookup
//! slot holds a pair of its table, the table rows hold the table, and (not checked here) the
//! multiplicities are the true ones.  The oracle trusts the gates' `eval_unfiltered`; C07
//! confronts those with the generators and C01 with direct evaluation.
use plonky2::field::extension::{Extendable, FieldExtension};
use plonky2::field::types::Field;
use plonky2::gates::lookup::LookupGate;
use plonky2::gates::lookup_table::LookupTableGate;
use plonky2::hash::hash_types::RichField;
use plonky2::iop::target::Target;
use plonky2::iop::witness::{PartitionWitness, Witness};
use plonky2::plonk::circuit_data::{CommonCircuitData, ProverOnlyCircuitData};
use plonky2::plonk::config::{GenericConfig, Hasher};
use plonky2::plonk::vars::EvaluationVars;
use plonky2::verif_exports::evaluate_gate_constraints;

/// complete assignment: one value per target index (wires row-major, then virtual targets)
#[derive(Clone)]
pub struct Assignment<F: Field> {
    pub values: Vec<F>,
    pub num_wires: usize,
    pub degree: usize,
}

impl<F: Field> Assignment<F> {
    /// expand a partition witness (unset targets become zero)
    pub fn from_partition(pw: &PartitionWitness<F>) -> Self {
        let n = pw.representative_map.len();
        let values = (0..n).map(|t| pw.values[pw.representative_map[t]].unwrap_or(F::ZERO)).collect();
        Self { values, num_wires: pw.num_wires, degree: pw.degree }
    }
    pub fn idx(&self, t: Target) -> usize {
        t.index(self.num_wires, self.degree)
    }
    pub fn wire(&self, row: usize, col: usize) -> F {
        self.values[row * self.num_wires + col]
    }
    pub fn get(&self, t: Target) -> F {
        self.values[self.idx(t)]
    }
    /// the same assignment as a partition witness over the identity partition, so that every
    /// target (either member of a copy class, routed or advice) can be set independently
    pub fn to_partition<'a>(&self, identity: &'a [usize]) -> PartitionWitness<'a, F> {
        PartitionWitness {
            values: self.values.iter().map(|v| Some(*v)).collect(),
            representative_map: identity,
            num_wires: self.num_wires,
            degree: self.degree,
        }
    }
}

#[derive(Debug, Clone, Default)]
pub struct Verdict {
    /// (row, first non-zero constraint index)
    pub gate_violations: Vec<(usize, usize)>,
    /// (target index a, target index b) of one copy class with different values
    pub copy_violations: Vec<(usize, usize)>,
    /// (row, slot) of a lookup pair that is not an entry of the table / table cell mismatch
    pub lookup_violations: Vec<(usize, usize)>,
}
impl Verdict {
    pub fn satisfied(&self) -> bool {
        self.gate_violations.is_empty() && self.copy_violations.is_empty() && self.lookup_violations.is_empty()
    }
}

/// constants per row (natural row order), recovered from the preprocessed commitment
pub fn constants_by_row<F: RichField + Extendable<D>, C: GenericConfig<D, F = F>, const D: usize>(
    prover: &ProverOnlyCircuitData<F, C, D>,
    common: &CommonCircuitData<F, D>,
) -> Vec<Vec<F>> {
    let degree = common.degree();
    let cols: Vec<Vec<F>> = prover.constants_sigmas_commitment.polynomials[..common.num_constants]
        .iter()
        .map(|p| p.clone().fft().values)
        .collect();
    (0..degree).map(|r| cols.iter().map(|c| c[r]).collect()).collect()
}

pub fn check<F: RichField + Extendable<D>, C: GenericConfig<D, F = F>, const D: usize>(
    a: &Assignment<F>,
    prover: &ProverOnlyCircuitData<F, C, D>,
    common: &CommonCircuitData<F, D>,
    constants: &[Vec<F>],
) -> Verdict {
    let mut v = Verdict::default();
    let degree = common.degree();
    let nw = common.config.num_wires;
    // (1) gates, with the public-input hash of the assignment's own public inputs
    let pis: Vec<F> = prover.public_inputs.iter().map(|t| a.get(*t)).collect();
    let pih = C::InnerHasher::hash_no_pad(&pis);
    let pih = plonky2::hash::hash_types::HashOut::<F>::from_vec(
        plonky2::plonk::config::GenericHashOut::<F>::to_vec(&pih),
    );
    for row in 0..degree {
        let lc: Vec<F::Extension> = constants[row].iter().map(|c| F::Extension::from_basefield(*c)).collect();
        let lw: Vec<F::Extension> = (0..nw).map(|c| F::Extension::from_basefield(a.wire(row, c))).collect();
        let vars = EvaluationVars { local_constants: &lc, local_wires: &lw, public_inputs_hash: &pih };
        let cs = evaluate_gate_constraints::<F, D>(common, vars);
        if let Some(k) = cs.iter().position(|c| *c != F::Extension::ZERO) {
            v.gate_violations.push((row, k));
        }
    }
    // (2) copy classes over routed wires
    let rep = &prover.representative_map;
    let routed = common.config.num_routed_wires;
    let mut first: std::collections::HashMap<usize, usize> = std::collections::HashMap::new();
    for row in 0..degree {
        for col in 0..routed {
            let t = row * nw + col;
            let r = rep[t];
            match first.get(&r) {
                None => {
                    first.insert(r, t);
                }
                Some(&t0) => {
                    if a.values[t0] != a.values[t] && v.copy_violations.len() < 16 {
                        v.copy_violations.push((t0, t));
                    }
                }
            }
        }
    }
    // (3) lookups: every slot of a lookup row holds a pair of its table; table rows hold the table
    if !common.luts.is_empty() {
        // LookupGate: 2 routed wires per slot; LookupTableGate: 3 wires per slot (num_slots is crate-private)
        let num_lu_slots = common.config.num_routed_wires / 2;
        let num_lut_slots = common.config.num_routed_wires / 3;
        for (lut_index, lw) in prover.lookup_rows.iter().enumerate() {
            let lut = &common.luts[lut_index];
            // lookup rows: last_lu_gate .. last_lut_gate - 1 (unused slots are padded with entry 0)
            for row in lw.last_lu_gate..lw.last_lut_gate {
                for s in 0..num_lu_slots {
                    let inp = a.wire(row, LookupGate::wire_ith_looking_inp(s));
                    let out = a.wire(row, LookupGate::wire_ith_looking_out(s));
                    let ok = lut.iter().any(|(i, o)| F::from_canonical_u16(*i) == inp && F::from_canonical_u16(*o) == out);
                    if !ok {
                        v.lookup_violations.push((row, s));
                    }
                }
            }
            // table rows, upside down: entry e sits in row first_lut_gate - e / slots, slot e % slots
            for e in 0..lut.len() {
                let row = lw.first_lut_gate - e / num_lut_slots;
                let s = e % num_lut_slots;
                let inp = a.wire(row, LookupTableGate::wire_ith_looked_inp(s));
                let out = a.wire(row, LookupTableGate::wire_ith_looked_out(s));
                if F::from_canonical_u16(lut[e].0) != inp || F::from_canonical_u16(lut[e].1) != out {
                    v.lookup_violations.push((row, 1000 + s));
                }
            }
        }
    }
    v
}
