//! C08 — lookups are provable exactly for pairs contained in the designated table.
//!
//! `run --in scenarios.ndjson [--selftest]`: every scenario (tables, lookups per table, configuration,
//! predicted layout — all produced by TLC from spec/LookupLayout.tla) is built with
//! `add_lookup_table_from_pairs` / `add_lookup_from_index`, proved and verified honestly (outputs are
//! compared with the tables), its `lookup_rows`, padding slots and multiplicities are compared with
//! the predicted layout (differences are DRIFT), and then the honest assignment, expanded over the
//! identity partition, is corrupted per kind of the catalogue of spec/LookupLayout.tla, classified
//! by the satisfaction oracle and handed to the proving API under every strategy:
//!   plain / zero_lookup / zero_z / one_z / perturb_q0 / perturb_qlast  — `prove_with_partition_witness`
//!                            under the H8 knobs;
//!   ext_plain / ext_shift  — an EXTERNAL prover assembled from public API + H7 exports only
//!                            (commitments, transcript, Z and partial products, lookup polynomials,
//!                            quotient, openings, FRI).  `ext_plain` follows the honest algorithm
//!                            (and is not stopped by `set_lookup_wires` re-setting multiplicities);
//!                            `ext_shift` starts the Sum/LDC chain of every table at the value that
//!                            makes the final LDC term vanish (the adversary of spec/LookupArg.tla
//!                            against an InitSre term that does not constrain the polynomial the
//!                            first transition reads).
//! `probe`: which lookup polynomials the InitSre / LastLdc terms constrain and which polynomial of
//! the next row the first chunk's transition reads (binds the constants of spec/LookupArg.tla).
use std::io::BufRead;
use std::sync::Arc;

use plonky2::field::extension::{Extendable, FieldExtension};
use plonky2::field::polynomial::{PolynomialCoeffs, PolynomialValues};
use plonky2::field::types::{Field, PrimeField64};
use plonky2::fri::oracle::PolynomialBatch;
use plonky2::fri::structure::{FriOpeningBatch, FriOpenings};
use plonky2::gates::lookup::LookupGate;
use plonky2::gates::lookup_table::LookupTableGate;
use plonky2::hash::hash_types::HashOut;
use plonky2::iop::challenger::Challenger;
use plonky2::iop::generator::{generate_partial_witness, GeneratedValues};
use plonky2::iop::target::Target;
use plonky2::iop::witness::{PartialWitness, PartitionWitness, WitnessWrite};
use plonky2::plonk::circuit_builder::CircuitBuilder;
use plonky2::plonk::circuit_data::{CircuitData, CommonCircuitData, ProverOnlyCircuitData};
use plonky2::plonk::config::{GenericConfig, GenericHashOut, Hasher, KeccakGoldilocksConfig, PoseidonGoldilocksConfig};
use plonky2::plonk::proof::{OpeningSet, Proof, ProofWithPublicInputs};
use plonky2::plonk::prover::prove_with_partition_witness;
use plonky2::plonk::vars::EvaluationVars;
use plonky2::util::timing::TimingTree;
use plonky2::verif_exports;
use plonky2::verif_knobs::{self, Knobs};
use rand::Rng;
use rand::SeedableRng;
use serde::Deserialize;
use serde_json::{json, Value};
use vh::cfgs::CfgSpec;
use vh::oracle::{self, Assignment};
use vh::util::*;

const D: usize = 2;
type FE = <F as Extendable<D>>::Extension;

fn read_lines(path: &str) -> anyhow::Result<Vec<Value>> {
    let f = std::fs::File::open(path)?;
    let mut v = vec![];
    for l in std::io::BufReader::new(f).lines() {
        let l = l?;
        if !l.trim().is_empty() {
            v.push(serde_json::from_str(&l)?);
        }
    }
    Ok(v)
}

#[derive(Deserialize, Clone, Debug)]
struct TableSpec {
    pairs: Vec<(u16, u16)>,
    /// entry index looked up by the k-th lookup of this table
    lookups: Vec<usize>,
}

#[derive(Deserialize, Clone, Debug)]
struct Scenario {
    id: String,
    cfg: CfgSpec,
    tables: Vec<TableSpec>,
    #[serde(default)]
    interleave: bool,
    #[serde(default)]
    expect: Value,
    #[serde(default)]
    kinds: Vec<String>,
    #[serde(default)]
    strategies: Vec<String>,
    /// external-prover strategies on every n-th corruption (besides the control and half of the bad-pair ones)
    #[serde(default)]
    ext_every: Option<usize>,
    #[serde(default)]
    max_cor: Option<usize>,
    /// register the looked-up outputs as public inputs (default: yes, except on narrow rows)
    #[serde(default)]
    pis: Option<bool>,
}

fn knobs_for(strategy: &str, nch: usize) -> Option<Knobs> {
    let mut k = Knobs::default();
    k.lenient_trim = true;
    match strategy {
        "plain" => {}
        "zero_z" => k.z_override = Some(0),
        "one_z" => k.z_override = Some(1),
        "perturb_q0" => k.perturb_quotient = Some(0),
        "perturb_qlast" => k.perturb_quotient = Some(nch - 1),
        "zero_lookup" => k.lookup_override = Some(0),
        _ => return None,
    }
    Some(k)
}

// ------------------------------------------------------------------------------------------------
// external prover (public API + H7 exports)
// ------------------------------------------------------------------------------------------------

/// The lookup polynomials of one challenge, computed by the algorithm of `compute_lookup_polys`
/// from the wire values of `a`; with `shift` the Sum/LDC chain of every table starts at the value
/// that makes the last LDC value zero.
fn ext_lookup_polys<C: GenericConfig<D, F = F>>(
    a: &Assignment<F>,
    deltas: &[F],
    prover: &ProverOnlyCircuitData<F, C, D>,
    common: &CommonCircuitData<F, D>,
    shift: bool,
) -> Vec<PolynomialValues<F>> {
    let degree = common.degree();
    let num_lu_slots = common.config.num_routed_wires / 2;
    let num_lut_slots = common.config.num_routed_wires / 3;
    let max_lookup_degree = common.config.max_quotient_degree_factor - 1;
    let ns = num_lu_slots.div_ceil(max_lookup_degree);
    let max_lut_degree = num_lut_slots.div_ceil(ns);
    let (da, db, dalpha, ddelta) = (deltas[0], deltas[1], deltas[2], deltas[3]);
    let mut polys = vec![vec![F::ZERO; degree]; ns + 1];
    for lw in prover.lookup_rows.iter() {
        for row in (lw.last_lut_gate..lw.first_lut_gate + 1).rev() {
            let looked: Vec<F> = (0..num_lut_slots)
                .map(|s| a.wire(row, LookupTableGate::wire_ith_looked_inp(s)) + da * a.wire(row, LookupTableGate::wire_ith_looked_out(s)))
                .collect();
            let inv = F::batch_multiplicative_inverse(&looked.iter().map(|c| dalpha - *c).collect::<Vec<_>>());
            let mut re = polys[0][row + 1];
            for s in 0..num_lut_slots {
                let c = a.wire(row, LookupTableGate::wire_ith_looked_inp(s)) + db * a.wire(row, LookupTableGate::wire_ith_looked_out(s));
                re = re * ddelta + c;
            }
            polys[0][row] = re;
            for slot in 0..ns {
                let prev = if slot != 0 { polys[slot][row] } else { polys[ns][row + 1] };
                let sum = (slot * max_lut_degree..((slot + 1) * max_lut_degree).min(num_lut_slots))
                    .fold(prev, |acc, s| acc + a.wire(row, LookupTableGate::wire_ith_multiplicity(s)) * inv[s]);
                polys[slot + 1][row] = sum;
            }
        }
        for row in (lw.last_lu_gate..lw.last_lut_gate).rev() {
            let looking: Vec<F> = (0..num_lu_slots)
                .map(|s| a.wire(row, LookupGate::wire_ith_looking_inp(s)) + da * a.wire(row, LookupGate::wire_ith_looking_out(s)))
                .collect();
            let inv = F::batch_multiplicative_inverse(&looking.iter().map(|c| dalpha - *c).collect::<Vec<_>>());
            for slot in 0..ns {
                let prev = if slot == 0 { polys[ns][row + 1] } else { polys[slot][row] };
                let sum = (slot * max_lookup_degree..((slot + 1) * max_lookup_degree).min(num_lu_slots)).fold(F::ZERO, |acc, s| acc + inv[s]);
                polys[slot + 1][row] = prev - sum;
            }
        }
        if shift {
            // start the chain at -v where v = Sum(end) - LDC(end): only the polynomial that the first
            // transition reads on the row after the table is touched on that row
            let v = polys[ns][lw.last_lu_gate];
            for row in lw.last_lu_gate..lw.first_lut_gate + 1 {
                for k in 1..ns + 1 {
                    polys[k][row] -= v;
                }
            }
            polys[ns][lw.first_lut_gate + 1] -= v;
        }
    }
    polys.into_iter().map(PolynomialValues::new).collect()
}

fn ext_prove<C: GenericConfig<D, F = F>>(
    prover: &ProverOnlyCircuitData<F, C, D>,
    common: &CommonCircuitData<F, D>,
    a: &Assignment<F>,
    shift: bool,
) -> anyhow::Result<ProofWithPublicInputs<F, C, D>> {
    let config = &common.config;
    let nch = config.num_challenges;
    let degree = common.degree();
    let degree_bits = common.degree_bits();
    let rate_bits = config.fri_config.rate_bits;
    let cap_height = config.fri_config.cap_height;
    let zk = config.zero_knowledge;
    let mut timing = TimingTree::default();
    let has_lookup = !common.luts.is_empty();

    let public_inputs: Vec<F> = prover.public_inputs.iter().map(|t| a.get(*t)).collect();
    let pih = C::InnerHasher::hash_no_pad(&public_inputs);
    let wires_values: Vec<PolynomialValues<F>> = (0..config.num_wires)
        .map(|c| PolynomialValues::new((0..degree).map(|r| a.wire(r, c)).collect()))
        .collect();
    let wires_commitment = PolynomialBatch::<F, C, D>::from_values(wires_values, rate_bits, zk, cap_height, &mut timing, prover.fft_root_table.as_ref());
    let mut challenger = Challenger::<F, C::Hasher>::new();
    common.fri_params.observe(&mut challenger);
    challenger.observe_hash::<C::Hasher>(prover.circuit_digest);
    challenger.observe_hash::<C::InnerHasher>(pih);
    challenger.observe_cap::<C::Hasher>(&wires_commitment.merkle_tree.cap);
    let betas = challenger.get_n_challenges(nch);
    let gammas = challenger.get_n_challenges(nch);
    let deltas: Vec<F> = if has_lookup {
        let additional = challenger.get_n_challenges(2 * nch);
        [betas.clone(), gammas.clone(), additional].concat()
    } else {
        vec![]
    };
    // Z and partial products
    let routed = config.num_routed_wires;
    let num_prods = common.num_partial_products;
    let mut zs: Vec<PolynomialValues<F>> = vec![];
    let mut pps: Vec<PolynomialValues<F>> = vec![];
    for i in 0..nch {
        let mut z_x = F::ONE;
        let mut rows: Vec<Vec<F>> = Vec::with_capacity(degree);
        for r in 0..degree {
            let x = prover.subgroup[r];
            let nums: Vec<F> = (0..routed).map(|j| a.wire(r, j) + betas[i] * common.k_is[j] * x + gammas[i]).collect();
            let dens: Vec<F> = (0..routed).map(|j| a.wire(r, j) + betas[i] * prover.sigmas[r][j] + gammas[i]).collect();
            let inv = F::batch_multiplicative_inverse(&dens);
            let q: Vec<F> = nums.iter().zip(inv).map(|(n, d)| *n * d).collect();
            let chunks = verif_exports::quotient_chunk_products(&q, common.quotient_degree_factor);
            let mut pp = verif_exports::partial_products_and_z_gx(z_x, &chunks);
            std::mem::swap(&mut z_x, &mut pp[num_prods]);
            rows.push(pp);
        }
        for k in 0..num_prods {
            pps.push(PolynomialValues::new((0..degree).map(|r| rows[r][k]).collect()));
        }
        zs.push(PolynomialValues::new((0..degree).map(|r| rows[r][num_prods]).collect()));
    }
    let mut zpl = [zs, pps].concat();
    if has_lookup {
        for c in 0..nch {
            zpl.extend(ext_lookup_polys::<C>(a, &deltas[4 * c..4 * c + 4], prover, common, shift));
        }
    }
    let zpl_commitment = PolynomialBatch::<F, C, D>::from_values(zpl, rate_bits, zk, cap_height, &mut timing, prover.fft_root_table.as_ref());
    challenger.observe_cap::<C::Hasher>(&zpl_commitment.merkle_tree.cap);
    let alphas = challenger.get_n_challenges(nch);
    // quotient: vanishing polynomial on the coset of size 8n divided by Z_H
    let qbits = plonky2::util::log2_ceil(common.quotient_degree_factor);
    anyhow::ensure!(qbits <= rate_bits, "quotient degree above the rate");
    let step = 1usize << (rate_bits - qbits);
    let next_step = 1usize << qbits;
    let points = F::two_adic_subgroup(degree_bits + qbits);
    let lde_size = points.len();
    let pih_out = HashOut::<F>::from_vec(GenericHashOut::<F>::to_vec(&pih));
    let mut qvals: Vec<Vec<F>> = vec![Vec::with_capacity(lde_size); nch];
    let ext = |xs: &[F]| -> Vec<FE> { xs.iter().map(|x| <FE as FieldExtension<D>>::from_basefield(*x)).collect() };
    for i in 0..lde_size {
        let x = F::coset_shift() * points[i];
        let i_next = (i + next_step) % lde_size;
        let cs = prover.constants_sigmas_commitment.get_lde_values(i, step);
        let lc = ext(&cs[common.constants_range()]);
        let ss = ext(&cs[common.sigmas_range()]);
        let lw = ext(wires_commitment.get_lde_values(i, step));
        let loc = zpl_commitment.get_lde_values(i, step);
        let nxt = zpl_commitment.get_lde_values(i_next, step);
        let lookup_start = nch * (1 + num_prods);
        let (ll, nl) = if has_lookup { (ext(&loc[lookup_start..]), ext(&nxt[lookup_start..])) } else { (vec![], vec![]) };
        let vars = EvaluationVars { local_constants: &lc, local_wires: &lw, public_inputs_hash: &pih_out };
        let v = verif_exports::eval_vanishing_poly::<F, D>(
            common,
            <FE as FieldExtension<D>>::from_basefield(x),
            vars,
            &ext(&loc[common.zs_range()]),
            &ext(&nxt[common.zs_range()]),
            &ll,
            &nl,
            &ext(&loc[common.partial_products_range()]),
            &ss,
            &betas,
            &gammas,
            &alphas,
            &deltas,
        );
        let zh_inv = (x.exp_power_of_2(degree_bits) - F::ONE).inverse();
        for c in 0..nch {
            let comps: [F; D] = <FE as FieldExtension<D>>::to_basefield_array(&v[c]);
            anyhow::ensure!(comps[1] == F::ZERO, "vanishing polynomial left the base field");
            qvals[c].push(comps[0] * zh_inv);
        }
    }
    let mut chunks: Vec<PolynomialCoeffs<F>> = vec![];
    for c in 0..nch {
        let mut q = PolynomialValues::new(std::mem::take(&mut qvals[c])).coset_ifft(F::coset_shift());
        q.coeffs.truncate(common.quotient_degree());
        chunks.extend(q.chunks(degree));
    }
    let quotient_commitment = PolynomialBatch::<F, C, D>::from_coeffs(chunks, rate_bits, zk, cap_height, &mut timing, prover.fft_root_table.as_ref());
    challenger.observe_cap::<C::Hasher>(&quotient_commitment.merkle_tree.cap);
    let zeta = challenger.get_extension_challenge::<D>();
    let g = FE::primitive_root_of_unity(degree_bits);
    anyhow::ensure!(zeta.exp_power_of_2(degree_bits) != FE::ONE, "opening point in the subgroup");
    let openings = OpeningSet::new(zeta, g, &prover.constants_sigmas_commitment, &wires_commitment, &zpl_commitment, &quotient_commitment, common);
    let zeta_batch = FriOpeningBatch::<F, D> {
        values: [
            openings.constants.as_slice(),
            openings.plonk_sigmas.as_slice(),
            openings.wires.as_slice(),
            openings.plonk_zs.as_slice(),
            openings.partial_products.as_slice(),
            openings.quotient_polys.as_slice(),
            openings.lookup_zs.as_slice(),
        ]
        .concat(),
    };
    let next_batch = FriOpeningBatch::<F, D> { values: [openings.plonk_zs_next.clone(), openings.lookup_zs_next.clone()].concat() };
    challenger.observe_openings(&FriOpenings { batches: vec![zeta_batch, next_batch] });
    let instance = verif_exports::get_fri_instance(common, zeta);
    let opening_proof = PolynomialBatch::<F, C, D>::prove_openings(
        &instance,
        &[&prover.constants_sigmas_commitment, &wires_commitment, &zpl_commitment, &quotient_commitment],
        &mut challenger,
        &common.fri_params,
        None,
        None,
        &mut timing,
    );
    let proof = Proof::<F, C, D> {
        wires_cap: wires_commitment.merkle_tree.cap,
        plonk_zs_partial_products_cap: zpl_commitment.merkle_tree.cap,
        quotient_polys_cap: quotient_commitment.merkle_tree.cap,
        openings,
        opening_proof,
    };
    Ok(ProofWithPublicInputs { proof, public_inputs })
}

// ------------------------------------------------------------------------------------------------
// scenario runner
// ------------------------------------------------------------------------------------------------

struct Corruption {
    kind: String,
    /// cell edits of the honest assignment ...
    edits: Vec<(usize, F)>,
    /// ... or a complete assignment produced by forged witness generation
    assign: Option<Assignment<F>>,
    desc: Value,
    /// always kept by the sub-sampling and always met by the external prover
    must: bool,
    /// not a corruption of the assignment but a run of the ORDINARY API with this input for lookup (table, lookup)
    api: Option<(usize, usize, u64)>,
}

struct Built<C: GenericConfig<D, F = F>> {
    data: CircuitData<F, C, D>,
    ins: Vec<Vec<Target>>,
    outs: Vec<Vec<Target>>,
    /// index returned by add_lookup_table_from_pairs for every declared table (identical tables share one)
    tidx: Vec<usize>,
}

fn build<C: GenericConfig<D, F = F>>(s: &Scenario, config: plonky2::plonk::circuit_data::CircuitConfig) -> Result<Built<C>, String> {
    let mut b = CircuitBuilder::<F, D>::new(config);
    let nt = s.tables.len();
    let mut tidx = vec![];
    for t in &s.tables {
        tidx.push(b.add_lookup_table_from_pairs(Arc::new(t.pairs.clone())));
    }
    let mut ins = vec![vec![]; nt];
    let mut outs = vec![vec![]; nt];
    // order of the API calls: table-major, or round robin over the tables
    let mut order: Vec<usize> = vec![];
    if s.interleave {
        let m = s.tables.iter().map(|t| t.lookups.len()).max().unwrap_or(0);
        for k in 0..m {
            for t in 0..nt {
                if k < s.tables[t].lookups.len() {
                    order.push(t);
                }
            }
        }
    } else {
        for t in 0..nt {
            order.extend(std::iter::repeat(t).take(s.tables[t].lookups.len()));
        }
    }
    for t in order {
        let i = b.add_virtual_target();
        let o = b.add_lookup_from_index(i, tidx[t]);
        // the public-input hash needs Poseidon rows, which do not fit the narrow row
        if s.cfg.width != "narrow" && s.pis.unwrap_or(true) {
            b.register_public_input(o);
        }
        ins[t].push(i);
        outs[t].push(o);
    }
    let data = b.build::<C>();
    Ok(Built { data, ins, outs, tidx })
}

fn run_one<C: GenericConfig<D, F = F>>(s: &Scenario, selftest: bool, max_cor: usize, ext_every: usize) -> Vec<Value> {
    let max_cor = s.max_cor.unwrap_or(max_cor);
    let ext_every = s.ext_every.unwrap_or(ext_every).max(1);
    let id = json!(s.id);
    let mut out = vec![];
    let fail = |stage: &str, detail: String| vec![json!({"id": id, "complete": false, "stage": stage, "detail": detail.chars().take(300).collect::<String>()})];
    let skip = |why: &str| vec![json!({"id": id, "skipped": why})];
    let cfg = &s.cfg;
    // probe for the degree, then the FRI-side admissibility of the configuration
    let degree_bits = match guarded(|| build::<C>(s, cfg.probe_config()).map(|b| b.data.common.degree_bits())) {
        Ok(Ok(d)) => d,
        Ok(Err(e)) => return skip(&format!("not buildable: {e}")),
        Err(p) => return fail("build_panic", p),
    };
    if cfg.fri_admissible(degree_bits).is_err() {
        return skip("inadmissible");
    }
    if cfg.strat == "minsize" {
        let ar = cfg.strategy().reduction_arity_bits(degree_bits, cfg.rate, cfg.cap, cfg.q);
        if degree_bits + cfg.rate < ar.iter().sum::<usize>() + cfg.cap {
            return skip("inadmissible");
        }
    }
    let built = match guarded(|| build::<C>(s, cfg.config())) {
        Ok(Ok(b)) => b,
        Ok(Err(e)) => return skip(&format!("not buildable: {e}")),
        Err(p) => return fail("build_panic", p),
    };
    let data = &built.data;
    let common = &data.common;
    let prover = &data.prover_only;
    let nt = s.tables.len();
    let l_slots = common.config.num_routed_wires / 2;
    let s_slots = common.config.num_routed_wires / 3;
    // ---- honest run: prove, verify, outputs
    let mut pw = PartialWitness::<F>::new();
    for t in 0..nt {
        for (k, e) in s.tables[t].lookups.iter().enumerate() {
            pw.set_target(built.ins[t][k], F::from_canonical_u16(s.tables[t].pairs[*e].0)).unwrap();
        }
    }
    let proof = match guarded(|| data.prove(pw.clone())) {
        Ok(Ok(p)) => p,
        Ok(Err(e)) => return fail("prove_err", format!("{e:#}")),
        Err(p) => return fail("prove_panic", p),
    };
    match guarded(|| data.verify(proof.clone())) {
        Ok(Ok(())) => {}
        Ok(Err(e)) => return fail("verify_err", format!("{e:#}")),
        Err(p) => return fail("verify_panic", p),
    }
    // public inputs are the outputs in API-call order
    let mut honest = match guarded(|| generate_partial_witness(pw, prover, common)) {
        Ok(Ok(w)) => w,
        _ => return fail("witness", "witness generation failed after a successful proof".into()),
    };
    if plonky2::plonk::prover::set_lookup_wires(prover, common, &mut honest).is_err() {
        return fail("witness", "set_lookup_wires failed on the honest witness".into());
    }
    let a0 = Assignment::from_partition(&honest);
    let mut wrong_outputs = vec![];
    for t in 0..nt {
        for (k, e) in s.tables[t].lookups.iter().enumerate() {
            let want = s.tables[t].pairs[*e].1 as u64;
            let got = a0.get(built.outs[t][k]).to_canonical_u64();
            let got_pi = match prover.public_inputs.iter().position(|x| *x == built.outs[t][k]) {
                Some(pos) => proof.public_inputs[pos].to_canonical_u64(),
                None => got,
            };
            if got != want || got_pi != want {
                wrong_outputs.push(json!({"table": t, "lookup": k, "entry": e, "want": want, "witness": got, "public_input": got_pi}));
            }
        }
    }
    // ---- table identity: the builder stores every distinct table once; `tix[t]` is the stored index of declared table t
    let tix = &built.tidx;
    let nstored = prover.lookup_rows.len();
    let mut layout = vec![];
    let mut index_anomalies = vec![];
    for t in 0..nt {
        for t2 in 0..t {
            let same = s.tables[t].pairs == s.tables[t2].pairs;
            if same != (tix[t] == tix[t2]) {
                index_anomalies.push(json!({"tables": [t2, t], "identical": same, "indices": [tix[t2], tix[t]]}));
            }
        }
        if let Some(x) = s.expect["indices"][t].as_u64() {
            if x as usize != tix[t] {
                layout.push(json!({"table": t, "field": "table_index", "predicted": x, "observed": tix[t]}));
            }
        } else if tix[t] != t {
            layout.push(json!({"table": t, "field": "table_index", "predicted": t, "observed": tix[t]}));
        }
        if tix[t] >= nstored || tix[t] >= prover.lut_to_lookups.len() {
            return vec![json!({"id": id, "complete": true, "layout": layout, "wrong_outputs": wrong_outputs, "index_anomalies": index_anomalies,
                "note": "a table index beyond the stored tables"})];
        }
    }
    // first declared table of every stored one, and the (table, lookup) behind every stored lookup
    let decl_of: Vec<Option<usize>> = (0..nstored).map(|i| (0..nt).find(|t| tix[*t] == i)).collect();
    let mut who: std::collections::HashMap<Target, (usize, usize)> = Default::default();
    for t in 0..nt {
        for k in 0..s.tables[t].lookups.len() {
            who.insert(built.ins[t][k], (t, k));
        }
    }
    let members: Vec<Vec<(usize, usize)>> = (0..nstored).map(|i| prover.lut_to_lookups[i].iter().filter_map(|(inp, _)| who.get(inp).copied()).collect()).collect();
    let mut pos = vec![vec![usize::MAX; 0]; nt];
    for t in 0..nt {
        pos[t] = vec![usize::MAX; s.tables[t].lookups.len()];
    }
    for i in 0..nstored {
        for (p, (t, k)) in members[i].iter().enumerate() {
            pos[*t][*k] = p;
        }
    }
    // ---- layout against the prediction of spec/LookupLayout.tla / spec/LookupTables.tla (per STORED table)
    let base = prover.lookup_rows.first().map(|w| w.last_lu_gate).unwrap_or(0);
    let mut observed_rows = vec![];
    for (i, w) in prover.lookup_rows.iter().enumerate() {
        observed_rows.push(json!({"last_lu": w.last_lu_gate - base, "last_lut": w.last_lut_gate - base, "first_lut": w.first_lut_gate - base}));
        let ex = &s.expect["rows"][i];
        if !ex.is_null() {
            for (k, v) in [("last_lu", w.last_lu_gate - base), ("last_lut", w.last_lut_gate - base), ("first_lut", w.first_lut_gate - base)] {
                if ex[k].as_u64() != Some(v as u64) {
                    layout.push(json!({"table": i, "field": k, "predicted": ex[k], "observed": v}));
                }
            }
        }
    }
    let expected_stored = s.expect["rows"].as_array().map(|r| r.len()).unwrap_or(nt);
    if nstored != expected_stored {
        layout.push(json!({"field": "num_tables", "predicted": expected_stored, "observed": nstored}));
    }
    if let Some(n) = s.expect["num_lookup_polys"].as_u64() {
        if n as usize != common.num_lookup_polys {
            layout.push(json!({"field": "num_lookup_polys", "predicted": n, "observed": common.num_lookup_polys}));
        }
    }
    if let Some(n) = s.expect["num_lookup_selectors"].as_u64() {
        if n as usize != common.num_lookup_selectors {
            layout.push(json!({"field": "num_lookup_selectors", "predicted": n, "observed": common.num_lookup_selectors}));
        }
    }
    let rep = &prover.representative_map;
    let nw = a0.num_wires;
    let degree = a0.degree;
    // slot of lookup k of declared table t (its position among the lookups of the stored table) / of entry e
    let lu_cell = |t: usize, k: usize| -> (usize, usize) { (prover.lookup_rows[tix[t]].last_lu_gate + pos[t][k] / l_slots, pos[t][k] % l_slots) };
    let lut_cell = |t: usize, e: usize| -> (usize, usize) { (prover.lookup_rows[tix[t]].first_lut_gate - e / s_slots, e % s_slots) };
    let pad_of = |t: usize| -> usize { (l_slots - prover.lut_to_lookups[tix[t]].len() % l_slots) % l_slots };
    for i in 0..nstored {
        let w = &prover.lookup_rows[i];
        let Some(t0) = decl_of[i] else { continue };
        let pairs = &s.tables[t0].pairs;
        if members[i].len() != prover.lut_to_lookups[i].len() {
            layout.push(json!({"table": i, "field": "stored_lookups", "observed": prover.lut_to_lookups[i].len(), "mapped": members[i].len()}));
        }
        for (t, k) in members[i].iter() {
            if pos[*t][*k] == usize::MAX {
                continue;
            }
            let (row, slot) = lu_cell(*t, *k);
            let wi = row * nw + LookupGate::wire_ith_looking_inp(slot);
            let wo = row * nw + LookupGate::wire_ith_looking_out(slot);
            if row >= w.last_lut_gate || rep[wi] != rep[a0.idx(built.ins[*t][*k])] || rep[wo] != rep[a0.idx(built.outs[*t][*k])] {
                layout.push(json!({"table": i, "field": "lookup_slot", "lookup": [t, k], "predicted": [row - base, slot]}));
            }
        }
        // padding of the last lookup row and of the table rows; multiplicities
        let pad = (l_slots - members[i].len() % l_slots) % l_slots;
        let first = pairs[0];
        for slot in l_slots - pad..l_slots {
            let row = w.last_lut_gate - 1;
            let (x, o) = (a0.wire(row, 2 * slot).to_canonical_u64(), a0.wire(row, 2 * slot + 1).to_canonical_u64());
            if (x, o) != (first.0 as u64, first.1 as u64) {
                layout.push(json!({"table": i, "field": "lu_padding", "slot": slot, "observed": [x, o]}));
            }
        }
        let mut mult = vec![0u64; pairs.len()];
        for (t, k) in members[i].iter() {
            let e = s.tables[*t].lookups[*k];
            if e < mult.len() {
                mult[e] += 1;
            } else {
                layout.push(json!({"table": i, "field": "entry_beyond_stored_table", "lookup": [t, k], "entry": e}));
            }
        }
        mult[0] += pad as u64;
        for e in 0..pairs.len() {
            let (row, slot) = (w.first_lut_gate - e / s_slots, e % s_slots);
            let got = (a0.wire(row, 3 * slot).to_canonical_u64(), a0.wire(row, 3 * slot + 1).to_canonical_u64(), a0.wire(row, 3 * slot + 2).to_canonical_u64());
            if got != (pairs[e].0 as u64, pairs[e].1 as u64, mult[e]) {
                layout.push(json!({"table": i, "field": "table_entry", "entry": e, "observed": [got.0, got.1, got.2], "predicted_mult": mult[e]}));
            }
        }
        let tpad = (s_slots - pairs.len() % s_slots) % s_slots;
        for slot in s_slots - tpad..s_slots {
            let row = w.last_lut_gate;
            let got = (a0.wire(row, 3 * slot).to_canonical_u64(), a0.wire(row, 3 * slot + 1).to_canonical_u64(), a0.wire(row, 3 * slot + 2).to_canonical_u64());
            if got != (first.0 as u64, first.1 as u64, 0) {
                layout.push(json!({"table": i, "field": "table_padding", "slot": slot, "observed": [got.0, got.1, got.2]}));
            }
        }
        if let Some(m) = s.expect["mult"][i].as_array() {
            let pm: Vec<u64> = m.iter().map(|x| x.as_u64().unwrap_or(u64::MAX)).collect();
            if pm != mult {
                layout.push(json!({"table": i, "field": "mult_prediction", "predicted": pm, "harness": mult}));
            }
        }
    }
    let constants = oracle::constants_by_row(prover, common);
    let v0 = oracle::check(&a0, prover, common, &constants);
    out.push(json!({"id": id, "complete": true, "wrong_outputs": wrong_outputs, "layout": layout, "rows": observed_rows, "base": base,
        "degree_bits": common.degree_bits(), "num_lookup_polys": common.num_lookup_polys, "oracle_honest_ok": v0.satisfied(),
        "binding_bits": cfg.binding_bits(), "index_anomalies": index_anomalies, "indices": tix}));
    if !v0.satisfied() || pos.iter().any(|p| p.iter().any(|x| *x == usize::MAX)) {
        return out;
    }
    // without the predicted placement the cell-level corruptions would not hit what they name; the corruptions made by
    // forged witness generation only need the lookups' own targets and stay meaningful
    let robust_only = !layout.is_empty();
    // ---- corruptions
    let mut r = rand_chacha::ChaCha8Rng::seed_from_u64(seed() ^ s.id.bytes().fold(7u64, |a, b| a.wrapping_mul(131).wrapping_add(b as u64)));
    // Forged witness generation: lookup k of table t is pinned to (new_in, new_out), its LookupGenerator
    // is not run, every other generator is (so whatever depends on the looked-up output -- the
    // public-input hash rows -- is consistent with the forged value); padding slots and multiplicity
    // wires are taken from the honest assignment.  Only the lookup is violated.
    let forge_many = |pins: &[(usize, usize, u64, u64)]| -> Option<Assignment<F>> {
        let mut w = PartitionWitness::new(nw, degree, rep);
        for t2 in 0..nt {
            for (k2, e) in s.tables[t2].lookups.iter().enumerate() {
                let v = match pins.iter().find(|p| (p.0, p.1) == (t2, k2)) {
                    Some(p) => fc(p.2),
                    None => F::from_canonical_u16(s.tables[t2].pairs[*e].0),
                };
                w.set_target(built.ins[t2][k2], v).ok()?;
            }
        }
        let mut pinned: Vec<Target> = vec![];
        for p in pins {
            w.set_target(built.outs[p.0][p.1], fc(p.3)).ok()?;
            let (row, slot) = lu_cell(p.0, p.1);
            pinned.push(Target::wire(row, LookupGate::wire_ith_looking_inp(slot)));
        }
        let gens = &prover.generators;
        let mut expired: Vec<bool> = gens
            .iter()
            .map(|g| g.0.id() == "LookupGenerator" && { let wl = g.0.watch_list(); wl.len() == 1 && pinned.contains(&wl[0]) })
            .collect();
        if expired.iter().filter(|x| **x).count() != pins.len() {
            return None;
        }
        let mut buffer = GeneratedValues::empty();
        loop {
            let mut progress = false;
            for gi in 0..gens.len() {
                if expired[gi] {
                    continue;
                }
                if guarded(|| gens[gi].0.run(&w, &mut buffer)).ok()? {
                    expired[gi] = true;
                    progress = true;
                }
                for (tg, v) in buffer.target_values.drain(..) {
                    w.set_target(tg, v).ok()?;
                }
            }
            if !progress {
                break;
            }
        }
        if !expired.iter().all(|x| *x) {
            return None;
        }
        // padding slots and multiplicities: what the prover itself would set for these inputs (then the plain prover meets no
        // conflict and the honest algorithm is consistent); if it cannot (an input outside the stored table) the honest ones
        let mut w2 = w.clone();
        if let Ok(Ok(())) = guarded(|| plonky2::plonk::prover::set_lookup_wires(prover, common, &mut w2)) {
            return Some(Assignment::from_partition(&w2));
        }
        let mut a = Assignment::from_partition(&w);
        for t2 in 0..nstored {
            let lw = &prover.lookup_rows[t2];
            let pad = (l_slots - prover.lut_to_lookups[t2].len() % l_slots) % l_slots;
            for slot in l_slots - pad..l_slots {
                for col in [2 * slot, 2 * slot + 1] {
                    let x = (lw.last_lut_gate - 1) * nw + col;
                    a.values[x] = a0.values[x];
                }
            }
            for row in lw.last_lut_gate..lw.first_lut_gate + 1 {
                for slot in 0..s_slots {
                    let x = row * nw + 3 * slot + 2;
                    a.values[x] = a0.values[x];
                }
            }
        }
        Some(a)
    };
    let forge = |t: usize, k: usize, new_in: u64, new_out: u64| forge_many(&[(t, k, new_in, new_out)]);
    let in_table = |t: usize, i: u64, o: u64| s.tables[t].pairs.iter().any(|p| p.0 as u64 == i && p.1 as u64 == o);
    let mut cors: Vec<Corruption> = vec![];
    for kind in &s.kinds {
        if robust_only && !["none", "out_notin", "out_other_entry", "inp_notin", "pair_other_table", "api_other_input"].contains(&kind.as_str()) {
            continue;
        }
        match kind.as_str() {
            "none" => cors.push(Corruption { api: None, must: false, kind: kind.clone(), assign: None, edits: vec![], desc: json!({}) }),
            "out_notin" | "out_other_entry" | "inp_notin" | "pair_other_table" | "lu_slot_only" => {
                for t in 0..nt {
                    let tb = &s.tables[t];
                    let n = tb.lookups.len();
                    // first lookup, last lookup (remainder row) and a random one
                    let mut ks = vec![0, n - 1, r.gen_range(0..n)];
                    ks.sort_unstable();
                    ks.dedup();
                    for k in ks {
                        let e = tb.lookups[k];
                        let (inp, outv) = (tb.pairs[e].0 as u64, tb.pairs[e].1 as u64);
                        match kind.as_str() {
                            "out_notin" => {
                                let cands = [outv + 1, 65536 + r.gen_range(0..1u64 << 40), 0, 65535, P - 1];
                                if let Some(v) = cands.iter().find(|v| !in_table(t, inp, **v)) {
                                    cors.push(Corruption { api: None, must: k == 0, kind: kind.clone(), assign: forge(t, k, inp, *v), edits: vec![], desc: json!({"table": t, "lookup": k, "entry": e, "pair": [inp, v]}) });
                                }
                            }
                            "out_other_entry" => {
                                if let Some(p) = tb.pairs.iter().find(|p| !in_table(t, inp, p.1 as u64)) {
                                    cors.push(Corruption { api: None, must: k == 0, kind: kind.clone(), assign: forge(t, k, inp, p.1 as u64), edits: vec![], desc: json!({"table": t, "lookup": k, "entry": e, "pair": [inp, p.1]}) });
                                }
                            }
                            "inp_notin" => {
                                let cands = [inp + 1, 65536 + r.gen_range(0..1u64 << 40), 0, 65535];
                                if let Some(v) = cands.iter().find(|v| !in_table(t, **v, outv)) {
                                    cors.push(Corruption { api: None, must: false, kind: kind.clone(), assign: forge(t, k, *v, outv), edits: vec![], desc: json!({"table": t, "lookup": k, "entry": e, "pair": [v, outv]}) });
                                }
                            }
                            "pair_other_table" => {
                                // a pair of ANOTHER table that is not an entry of this one; prefer one whose input is an input of this table
                                // (and, for the first lookup, also the LAST such pair: the tail of a table that extends this one)
                                let mut best: Option<(usize, (u16, u16), bool)> = None;
                                let mut last: Option<(usize, (u16, u16), bool)> = None;
                                for t2 in (0..nt).filter(|x| *x != t) {
                                    for p in s.tables[t2].pairs.iter() {
                                        if !in_table(t, p.0 as u64, p.1 as u64) {
                                            let shared = tb.pairs.iter().any(|q| q.0 == p.0);
                                            if best.is_none() || (shared && !best.unwrap().2) {
                                                best = Some((t2, *p, shared));
                                            }
                                            last = Some((t2, *p, shared));
                                        }
                                    }
                                }
                                let mut picks = vec![];
                                if let Some(b) = best {
                                    picks.push(b);
                                    if let Some(l) = last {
                                        if k == 0 && l.1 != b.1 {
                                            picks.push(l);
                                        }
                                    }
                                }
                                for (t2, p, shared) in picks {
                                    cors.push(Corruption { api: None, must: k == 0, kind: kind.clone(), assign: forge(t, k, p.0 as u64, p.1 as u64), edits: vec![],
                                        desc: json!({"table": t, "lookup": k, "entry": e, "pair": [p.0, p.1], "from_table": t2, "input_shared": shared}) });
                                }
                            }
                            _ => {
                                // the gate wire only: copy class broken and the slot no longer holds a pair of the table
                                let (row, slot) = lu_cell(t, k);
                                let v = outv + 1 + r.gen_range(0..1000u64);
                                if !in_table(t, inp, v) {
                                    cors.push(Corruption { api: None, must: false, kind: kind.clone(), assign: None, edits: vec![(row * nw + 2 * slot + 1, fc(v))],
                                        desc: json!({"table": t, "lookup": k, "row": row, "slot": slot, "pair": [inp, v]}) });
                                }
                            }
                        }
                    }
                }
            }
            "table_cell" | "mult" => {
                for t in 0..nt {
                    let tb = &s.tables[t];
                    let n = tb.pairs.len();
                    let mut es = vec![0, n - 1, r.gen_range(0..n)];
                    es.sort_unstable();
                    es.dedup();
                    for e in es {
                        let (row, slot) = lut_cell(t, e);
                        if kind == "table_cell" {
                            let col = 3 * slot + r.gen_range(0..2usize);
                            let x = row * nw + col;
                            cors.push(Corruption { api: None, must: t == 0 && e == 0, kind: kind.clone(), assign: None, edits: vec![(x, a0.values[x] + F::ONE)],
                                desc: json!({"table": t, "entry": e, "row": row, "col": col}) });
                        } else {
                            let x = row * nw + 3 * slot + 2;
                            let nv = if a0.values[x] == F::ZERO || r.gen_bool(0.5) { a0.values[x] + F::ONE } else { a0.values[x] - F::ONE };
                            cors.push(Corruption { api: None, must: false, kind: kind.clone(), assign: None, edits: vec![(x, nv)], desc: json!({"table": t, "entry": e, "row": row, "col": 3 * slot + 2}) });
                        }
                    }
                }
            }
            "api_other_input" => {
                // the ordinary API, the input of a lookup into table t set to the input of a pair that only ANOTHER table has
                for t in 0..nt {
                    let tb = &s.tables[t];
                    let cands: Vec<(usize, (u16, u16))> = (0..nt)
                        .filter(|x| *x != t)
                        .flat_map(|t2| s.tables[t2].pairs.iter().map(move |p| (t2, *p)))
                        .filter(|(_, p)| !tb.pairs.iter().any(|q| q.0 == p.0))
                        .collect();
                    let mut picks = vec![];
                    if let Some(f) = cands.first() {
                        picks.push((0usize, *f));
                        if let Some(l) = cands.last() {
                            if l.1 != f.1 {
                                picks.push((tb.lookups.len() - 1, *l));
                            }
                        }
                    }
                    for (k, (t2, p)) in picks {
                        cors.push(Corruption { api: Some((t, k, p.0 as u64)), must: true, kind: kind.clone(), assign: None, edits: vec![],
                            desc: json!({"table": t, "lookup": k, "pair": [p.0, p.1], "from_table": t2}) });
                    }
                }
            }
            "table_cell_unused" => {
                // the output cell of an entry that no lookup uses (multiplicity 0): only the RE check stands against it
                for t in 0..nt {
                    let tb = &s.tables[t];
                    let used: std::collections::BTreeSet<usize> = tb.lookups.iter().copied().collect();
                    let pad = pad_of(t);
                    if let Some(e) = (0..tb.pairs.len()).rev().find(|e| !used.contains(e) && !(*e == 0 && pad > 0)) {
                        let (row, slot) = lut_cell(t, e);
                        let x = row * nw + 3 * slot + 1;
                        cors.push(Corruption { api: None, must: t == 0, kind: kind.clone(), assign: None, edits: vec![(x, a0.values[x] + F::ONE)],
                            desc: json!({"table": t, "entry": e, "row": row, "col": 3 * slot + 1, "mult": a0.values[x + 1].to_canonical_u64()}) });
                    }
                }
            }
            "table_and_lookup" => {
                // a used entry and every lookup of it carry the same wrong output: Sum = LDC still holds, only the RE check
                // (table rows = declared table) stands against it
                for t in 0..nt {
                    if t != 0 && t != nt - 1 {
                        continue;
                    }
                    let tb = &s.tables[t];
                    let pad = pad_of(t);
                    let mut by_entry: std::collections::BTreeMap<usize, Vec<usize>> = Default::default();
                    for (k, e) in tb.lookups.iter().enumerate() {
                        by_entry.entry(*e).or_default().push(k);
                    }
                    // the entry with the fewest lookups (entry 0 only if nothing else is used: its padding slots follow)
                    let Some((e, ks)) = by_entry.iter().min_by_key(|(e, ks)| (**e == 0 && pad > 0, ks.len())) else { continue };
                    if ks.len() > 130 {
                        continue;
                    }
                    let (inp, outv) = (tb.pairs[*e].0 as u64, tb.pairs[*e].1 as u64);
                    let Some(v) = [outv + 1, 65535, 0, 70000].into_iter().find(|v| !in_table(t, inp, *v)) else { continue };
                    let pins: Vec<(usize, usize, u64, u64)> = ks.iter().map(|k| (t, *k, inp, v)).collect();
                    let (row, slot) = lut_cell(t, *e);
                    let mut edits = vec![(row * nw + 3 * slot + 1, fc(v))];
                    if *e == 0 {
                        for sl in l_slots - pad..l_slots {
                            edits.push(((prover.lookup_rows[tix[t]].last_lut_gate - 1) * nw + 2 * sl + 1, fc(v)));
                        }
                    }
                    cors.push(Corruption { api: None, must: t == 0, kind: kind.clone(), assign: forge_many(&pins), edits,
                        desc: json!({"table": t, "entry": e, "lookups": ks.len(), "pair": [inp, v]}) });
                }
            }
            "table_pad" | "lu_pad" => {
                for t in 0..nt {
                    let tb = &s.tables[t];
                    let w = &prover.lookup_rows[tix[t]];
                    if kind == "table_pad" {
                        let tpad = (s_slots - tb.pairs.len() % s_slots) % s_slots;
                        if tpad > 0 {
                            let slot = s_slots - 1 - r.gen_range(0..tpad);
                            let col = 3 * slot + r.gen_range(0..2usize);
                            let x = w.last_lut_gate * nw + col;
                            cors.push(Corruption { api: None, must: false, kind: kind.clone(), assign: None, edits: vec![(x, a0.values[x] + F::ONE)],
                                desc: json!({"table": t, "row": w.last_lut_gate, "col": col}) });
                        }
                    } else {
                        let pad = pad_of(t);
                        if pad > 0 {
                            let slot = l_slots - 1 - r.gen_range(0..pad);
                            let row = w.last_lut_gate - 1;
                            let (i0, o0) = (tb.pairs[0].0 as u64, tb.pairs[0].1 as u64);
                            let cands = [o0 + 1, 65536 + r.gen_range(0..1u64 << 40)];
                            if let Some(v) = cands.iter().find(|v| !in_table(t, i0, **v)) {
                                cors.push(Corruption { api: None, must: false, kind: kind.clone(), assign: None, edits: vec![(row * nw + 2 * slot + 1, fc(*v))],
                                    desc: json!({"table": t, "row": row, "slot": slot, "pair": [i0, v]}) });
                            }
                        }
                    }
                }
            }
            "noop_cell" => {
                for t in 0..nt {
                    let row = prover.lookup_rows[tix[t]].first_lut_gate + 1;
                    for col in [0usize, r.gen_range(0..nw), nw - 1] {
                        cors.push(Corruption { api: None, must: false, kind: kind.clone(), assign: None, edits: vec![(row * nw + col, fc(r.gen_range(1..P)))], desc: json!({"table": t, "row": row, "col": col}) });
                    }
                }
            }
            _ => {}
        }
    }
    if cors.len() > max_cor {
        // a seeded subset that keeps the control and one of every kind
        let mut keep: Vec<Corruption> = vec![];
        let mut rest: Vec<Corruption> = vec![];
        let mut seen = std::collections::BTreeSet::new();
        for c in cors {
            if c.must || seen.insert(c.kind.clone()) {
                keep.push(c)
            } else {
                rest.push(c)
            }
        }
        while keep.len() < max_cor && !rest.is_empty() {
            let k = r.gen_range(0..rest.len());
            keep.push(rest.swap_remove(k));
        }
        cors = keep;
    }
    let identity: Vec<usize> = (0..a0.values.len()).collect();
    let nch = common.config.num_challenges;
    for (ci, c) in cors.iter().enumerate() {
        let mut a = c.assign.clone().unwrap_or_else(|| a0.clone());
        for (t, v) in &c.edits {
            a.values[*t] = *v;
        }
        let diff: Vec<Value> = (0..a.values.len()).filter(|&x| a.values[x] != a0.values[x]).take(8).map(|x| json!([x, a.values[x].to_canonical_u64()])).collect();
        let verdict = oracle::check(&a, prover, common, &constants);
        // the property-level fact: some looked-up pair (of a real lookup, through its targets) is not in its table
        let mut bad_pairs = 0;
        for t in 0..nt {
            for k in 0..s.tables[t].lookups.len() {
                let (i, o) = (a.get(built.ins[t][k]).to_canonical_u64(), a.get(built.outs[t][k]).to_canonical_u64());
                if !in_table(t, i, o) {
                    bad_pairs += 1;
                }
            }
        }
        // the designated table of a lookup is the DECLARED one: a pair outside it violates the property even if the
        // builder merged the table with another one (the oracle reads the builder's stored tables)
        let violated = !verdict.satisfied() || bad_pairs > 0;
        let knob_strats: Vec<&String> = s.strategies.iter().filter(|x| !x.starts_with("ext_") && x.as_str() != "plain" && x.as_str() != "api").collect();
        if let Some((t, k, v)) = c.api {
            if !s.strategies.iter().any(|x| x == "api") {
                continue;
            }
            let mut pw = PartialWitness::<F>::new();
            for t2 in 0..nt {
                for (k2, e) in s.tables[t2].lookups.iter().enumerate() {
                    let x = if (t2, k2) == (t, k) { fc(v) } else { F::from_canonical_u16(s.tables[t2].pairs[*e].0) };
                    pw.set_target(built.ins[t2][k2], x).unwrap();
                }
            }
            let (stage, accepted, detail) = match guarded(|| data.prove(pw)) {
                Err(p) => ("prove_panic", false, p),
                Ok(Err(e)) => ("prove_err", false, format!("{e:#}")),
                Ok(Ok(proof)) => match guarded(|| data.verify(proof)) {
                    Ok(Ok(())) => ("verify_ok", true, String::new()),
                    Ok(Err(e)) => ("verify_err", false, format!("{e:#}")),
                    Err(p) => ("verify_panic", false, p),
                },
            };
            // whatever output the generator found, the looked-up pair has an input that table t does not have
            out.push(json!({"id": id, "kind": c.kind, "strategy": "api", "violated": true, "bad_pairs": 1, "accepted": accepted,
                "stage": stage, "detail": detail.chars().take(160).collect::<String>(), "desc": c.desc, "nt": nt,
                "oracle": {"gate": 0, "copy": 0, "lookup": 0}, "edits": [[a0.idx(built.ins[t][k]), v]], "binding_bits": cfg.binding_bits()}));
            continue;
        }
        for st in &s.strategies {
            let is_ext = st.starts_with("ext_");
            if st == "api" {
                continue;
            }
            if c.kind == "none" && !(st == "plain" || st == "ext_plain") {
                continue;
            }
            if !is_ext && st != "plain" && !knob_strats.is_empty() && knob_strats[ci % knob_strats.len()] != st {
                continue;
            }
            // index-independent: the targeted cases and every padding-slot corruption (at most one per table) meet the external prover
            let must_ext = ext_every < 1000
                && (c.kind == "lu_pad" || (c.must && (c.kind.starts_with("table_") || c.desc["table"].as_u64() == Some(nt as u64 - 1))));
            if is_ext && !(c.kind == "none" || must_ext || ci % ext_every == 0 || ((bad_pairs > 0 || c.kind == "lu_pad") && ci % 2 == 0 && ext_every < 1000)) {
                continue;
            }
            let res = if is_ext {
                guarded(|| ext_prove::<C>(prover, common, &a, st == "ext_shift"))
            } else {
                let Some(k) = knobs_for(st, nch) else { continue };
                verif_knobs::set(k);
                let res = guarded(|| {
                    let mut timing = TimingTree::default();
                    prove_with_partition_witness(prover, common, a.to_partition(&identity), &mut timing)
                });
                verif_knobs::clear();
                res
            };
            let (stage, accepted, detail) = match res {
                Err(p) => ("prove_panic", false, p),
                Ok(Err(e)) => ("prove_err", false, format!("{e:#}")),
                Ok(Ok(proof)) => {
                    if selftest && violated {
                        // self-test: pretend the verifier accepted a proof for a violating assignment
                        out.push(json!({"id": id, "kind": c.kind, "strategy": st, "violated": true, "bad_pairs": bad_pairs, "accepted": true,
                            "stage": "selftest", "desc": c.desc, "nt": nt, "binding_bits": cfg.binding_bits()}));
                        return out;
                    }
                    match guarded(|| data.verify(proof)) {
                        Ok(Ok(())) => ("verify_ok", true, String::new()),
                        Ok(Err(e)) => ("verify_err", false, format!("{e:#}")),
                        Err(p) => ("verify_panic", false, p),
                    }
                }
            };
            out.push(json!({"id": id, "kind": c.kind, "strategy": st, "violated": violated, "bad_pairs": bad_pairs, "accepted": accepted,
                "stage": stage, "detail": detail.chars().take(160).collect::<String>(), "desc": c.desc, "nt": nt,
                "oracle": {"gate": verdict.gate_violations.len(), "copy": verdict.copy_violations.len(), "lookup": verdict.lookup_violations.len()},
                "edits": diff,
                "binding_bits": cfg.binding_bits()}));
        }
    }
    out
}

fn run(args: &[String]) -> anyhow::Result<()> {
    let inp = opt(args, "--in").ok_or_else(|| anyhow::anyhow!("--in"))?;
    let selftest = args.iter().any(|a| a == "--selftest");
    let max_cor = opt_usize(args, "--max-cor", 30);
    let ext_every = opt_usize(args, "--ext-every", 4).max(1);
    for v in read_lines(inp)? {
        let s: Scenario = serde_json::from_value(v)?;
        let rows = if s.cfg.keccak {
            run_one::<KeccakGoldilocksConfig>(&s, selftest, max_cor, ext_every)
        } else {
            run_one::<PoseidonGoldilocksConfig>(&s, selftest, max_cor, ext_every)
        };
        for row in rows {
            emit(&row);
        }
    }
    Ok(())
}

/// Which lookup polynomials do the InitSre / LastLdc terms constrain, and which polynomial of the
/// next row does the first chunk's Sum / LDC transition read?  Evaluates the crate's own
/// `check_lookup_constraints` on unit vectors.
fn probe(args: &[String]) -> anyhow::Result<()> {
    type C = PoseidonGoldilocksConfig;
    let width = opt(args, "--width").unwrap_or("std").to_string();
    let mut cfg = CfgSpec::standard();
    cfg.width = width.clone();
    let s = Scenario {
        id: "probe".into(),
        cfg: cfg.clone(),
        tables: vec![TableSpec { pairs: vec![(0, 5), (1, 7), (2, 5)], lookups: vec![0, 2] }, TableSpec { pairs: vec![(3, 1)], lookups: vec![0] }],
        interleave: false,
        expect: Value::Null,
        kinds: vec![],
        strategies: vec![],
        ext_every: None,
        max_cor: None,
        pis: None,
    };
    let built = build::<C>(&s, cfg.config()).map_err(|e| anyhow::anyhow!(e))?;
    let common = &built.data.common;
    let np = common.num_lookup_polys;
    let nsel = common.num_lookup_selectors;
    let nw = common.config.num_wires;
    let pih = HashOut::<F>::ZERO;
    let zero_w = vec![FE::ZERO; nw];
    let zero_c = vec![FE::ZERO; common.num_constants];
    let deltas = [fc(11), fc(13), fc(17), fc(19)];
    let eval = |sel_on: usize, local: &[FE], next: &[FE]| -> Vec<FE> {
        let mut sel = vec![FE::ZERO; nsel];
        sel[sel_on] = FE::ONE;
        let vars = EvaluationVars { local_constants: &zero_c, local_wires: &zero_w, public_inputs_hash: &pih };
        verif_exports::check_lookup_constraints::<F, D>(common, vars, local, next, &sel, &deltas)
    };
    let unit = |k: usize| -> Vec<FE> { (0..np).map(|i| if i == k { FE::ONE } else { FE::ZERO }).collect() };
    let zero = vec![FE::ZERO; np];
    let nonzero = |v: Vec<FE>| v.iter().any(|x| *x != FE::ZERO);
    // selectors: TransSre = 0, TransLdc = 1, InitSre = 2, LastLdc = 3, ends from 4
    let init: Vec<usize> = (0..np).filter(|&k| nonzero(eval(2, &unit(k), &zero))).collect();
    let last: Vec<usize> = (0..np).filter(|&k| nonzero(eval(3, &unit(k), &zero))).collect();
    // with all wires zero the transition terms are alpha^d * (z[poly] - prev) (+ constants for LDC):
    // a unit vector in the NEXT row changes the result iff that polynomial is read as `prev`
    let base_sre = eval(0, &zero, &zero);
    let base_ldc = eval(1, &zero, &zero);
    let next_sre: Vec<usize> = (0..np).filter(|&k| eval(0, &zero, &unit(k)) != base_sre).collect();
    let next_ldc: Vec<usize> = (0..np).filter(|&k| eval(1, &zero, &unit(k)) != base_ldc).collect();
    emit(&json!({"probe": true, "width": width, "num_lookup_polys": np, "num_sldc": np - 1, "num_lookup_selectors": nsel,
        "lu_slots": common.config.num_routed_wires / 2, "lut_slots": common.config.num_routed_wires / 3,
        "init_constrains": init, "last_constrains": last, "sum_reads_next": next_sre, "ldc_reads_next": next_ldc,
        "num_constraints": base_sre.len()}));
    Ok(())
}

fn main() -> std::process::ExitCode {
    run_main(|cmd, rest| match cmd {
        "run" => run(rest),
        "probe" => probe(rest),
        other => Err(anyhow::anyhow!("unknown command {other}")),
    })
}
