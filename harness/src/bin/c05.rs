//! C05 — FRI attests only true evaluations of low-degree polynomials.
//!
//! A *spec prover* drives the public building blocks of the real code (PolynomialBatch,
//! prove_openings, fri_proof, MerkleTree, Challenger, verify_fri_proof, the batch_fri variants)
//! through the honest strategy and through every deviation of spec/FriVerifier.tla.  The harness
//! does not know any expected verdict: it reports what the real verifier did, together with the
//! classification the specification's catalogue is keyed by (deviation kind, layer position,
//! which query rounds read the edited element); bin/lib/c05.py compares with the catalogue
//! printed by TLC.
//!
//!   c05-params  --in <REPLAY lines of MCFriParams> --out <ndjson of real outputs>
//!   c05-fri     --n <cases> --out <ndjson>          single-degree FRI (fri/*)
//!   c05-batch   --n <cases> --out <ndjson>          batched variant (batch_fri/*)
use anyhow::{anyhow, Result};
use plonky2::batch_fri::oracle::BatchFriOracle;
use plonky2::batch_fri::verifier::verify_batch_fri_proof;
use plonky2::field::extension::quadratic::QuadraticExtension;
use plonky2::field::extension::{flatten, unflatten, FieldExtension};
use plonky2::field::polynomial::{PolynomialCoeffs, PolynomialValues};
use plonky2::field::types::{Field, PrimeField64};
use plonky2::fri::oracle::PolynomialBatch;
use plonky2::fri::proof::{FriChallenges, FriInitialTreeProof, FriProof, FriQueryRound, FriQueryStep};
use plonky2::fri::prover::fri_proof;
use plonky2::fri::reduction_strategies::FriReductionStrategy;
use plonky2::fri::structure::{
    FriBatchInfo, FriInstanceInfo, FriOpeningBatch, FriOpenings, FriOracleInfo, FriPolynomialInfo,
};
use plonky2::fri::verifier::verify_fri_proof;
use plonky2::fri::{FriConfig, FriParams};
use plonky2::hash::merkle_tree::{MerkleCap, MerkleTree};
use plonky2::iop::challenger::Challenger;
use plonky2::plonk::config::{GenericConfig, PoseidonGoldilocksConfig};
use plonky2::plonk::plonk_common::reduce_with_powers;
use plonky2::util::reducing::ReducingFactor;
use plonky2::util::timing::TimingTree;
use plonky2::util::{log2_strict, reverse_index_bits_in_place};
use plonky2::verif_knobs::{self, Knobs};
use rand::Rng;
use rand_chacha::ChaCha8Rng;
use serde_json::{json, Value};

use vh::util::*;

const D: usize = 2;
type C = PoseidonGoldilocksConfig;
type H = <C as GenericConfig<D>>::Hasher;
type FE = QuadraticExtension<F>;
type Proof = FriProof<F, H, D>;
type Tree = MerkleTree<F, H>;
type Cap = MerkleCap<F, H>;

fn rev_bits(x: usize, bits: usize) -> usize {
    if bits == 0 {
        0
    } else {
        x.reverse_bits() >> (usize::BITS as usize - bits)
    }
}
fn rf(r: &mut ChaCha8Rng) -> F {
    F::from_canonical_u64(r.gen::<u64>() % P)
}
fn rf_nz(r: &mut ChaCha8Rng) -> F {
    loop {
        let x = rf(r);
        if x != F::ZERO {
            return x;
        }
    }
}
fn rfe(r: &mut ChaCha8Rng) -> FE {
    QuadraticExtension([rf(r), rf_nz(r)])
}
fn fb(x: F) -> FE {
    <FE as FieldExtension<D>>::from_basefield(x)
}
fn clone_chal(c: &FriChallenges<F, D>) -> FriChallenges<F, D> {
    FriChallenges { fri_alpha: c.fri_alpha, fri_betas: c.fri_betas.clone(), fri_pow_response: c.fri_pow_response, fri_query_indices: c.fri_query_indices.clone() }
}
#[allow(dead_code)]
fn fe_json(x: FE) -> Value {
    let a: [F; D] = x.to_basefield_array();
    json!([a[0].to_canonical_u64(), a[1].to_canonical_u64()])
}

// ------------------------------------------------------------------------------------------
// (e) reduction_arity_bits against the FriParams specification
// ------------------------------------------------------------------------------------------
fn strategy_of(s: &Value) -> Result<FriReductionStrategy> {
    let kind = s["kind"].as_str().ok_or_else(|| anyhow!("strategy kind"))?;
    Ok(match kind {
        "Fixed" => FriReductionStrategy::Fixed(
            s["bits"].as_array().map(|a| a.iter().map(|x| x.as_u64().unwrap() as usize).collect()).unwrap_or_default(),
        ),
        "Const" => FriReductionStrategy::ConstantArityBits(s["a"].as_u64().unwrap() as usize, s["f"].as_u64().unwrap() as usize),
        "MinSize" => {
            let m = s["max"].as_i64().unwrap();
            FriReductionStrategy::MinSize(if m < 0 { None } else { Some(m as usize) })
        }
        other => return Err(anyhow!("unknown strategy {other}")),
    })
}

/// the harness's copy of `Admissible(db, rb, cap, bits)` of spec/FriParams.tla; every logged
/// value of it is re-checked by TLC (FriParamsTrace)
fn admissible(db: usize, rb: usize, cap: usize, bits: &[usize]) -> bool {
    let sum: usize = bits.iter().sum();
    if bits.iter().any(|&b| b < 1) || sum > db || db + rb < cap {
        return false;
    }
    let mut cur = db + rb;
    for &b in bits {
        cur -= b;
        if cur < cap {
            return false;
        }
    }
    true
}

fn params_cmd(args: &[String]) -> Result<()> {
    let inp = opt(args, "--in").ok_or_else(|| anyhow!("--in"))?;
    let out = opt(args, "--out").ok_or_else(|| anyhow!("--out"))?;
    let text = std::fs::read_to_string(inp)?;
    let mut log = NdJson::create(out)?;
    let (mut n, mut same, mut panics) = (0usize, 0usize, 0usize);
    let mut mism: Vec<Value> = vec![];
    let mut distinct = std::collections::HashSet::new();
    let mut panic_samples: Vec<Value> = vec![];
    for line in text.lines() {
        let line = line.trim();
        if line.is_empty() {
            continue;
        }
        let v: Value = serde_json::from_str(line)?;
        let st = strategy_of(&v["s"])?;
        let g = |k: &str| v[k].as_u64().unwrap() as usize;
        let (db, rb, cap, q) = (g("db"), g("rb"), g("cap"), g("q"));
        let real = guarded(|| st.reduction_arity_bits(db, rb, cap, q));
        n += 1;
        let spec_ok = v["ok"].as_bool().unwrap();
        let spec_bits: Vec<usize> = v["bits"].as_array().map(|a| a.iter().map(|x| x.as_u64().unwrap() as usize).collect()).unwrap_or_default();
        match &real {
            Ok(bits) => {
                distinct.insert((format!("{:?}", st), db, rb, if matches!(st, FriReductionStrategy::MinSize(_)) { 0 } else { cap }, q, bits.clone()));
                let sched_ok = bits.iter().all(|&b| b >= 1) && bits.iter().sum::<usize>() <= db;
                // derived FriParams of the real code on this schedule
                let (fl, pfl, lb, tot) = if sched_ok {
                    let p = FriParams {
                        config: FriConfig { rate_bits: rb, cap_height: cap, proof_of_work_bits: 0, reduction_strategy: st.clone(), num_query_rounds: q },
                        hiding: false,
                        degree_bits: db,
                        reduction_arity_bits: bits.clone(),
                    };
                    (p.final_poly_len() as i64, plonky2::fri::prover::final_poly_coeff_len(db, bits) as i64, p.lde_bits() as i64, p.total_arities() as i64)
                } else {
                    (-1, -1, -1, -1)
                };
                log.put(&json!({"ev": "schedule", "kind": v["s"]["kind"], "db": db, "rb": rb, "cap": cap, "q": q, "bits": bits,
                                "sched_ok": sched_ok, "adm": admissible(db, rb, cap, bits),
                                "final_len": fl, "prover_final_len": pfl, "lde_bits": lb, "total": tot}));
                if spec_ok && *bits == spec_bits {
                    same += 1;
                } else if mism.len() < 40 {
                    mism.push(json!({"line": v, "real": bits}));
                }
            }
            Err(m) => {
                panics += 1;
                if panic_samples.len() < 3 {
                    panic_samples.push(json!({"s": v["s"], "db": db, "rb": rb, "cap": cap, "q": q, "panic": m}));
                }
                if !spec_ok {
                    same += 1;
                } else if mism.len() < 40 {
                    mism.push(json!({"line": v, "real_panic": m}));
                }
            }
        }
    }
    let events = log.finish();
    emit(&json!({"kind": "c05-params", "tuples": n, "same": same, "panics": panics, "mismatches": mism,
                 "distinct": distinct.len(), "events": events, "panic_samples": panic_samples}));
    Ok(())
}

// ------------------------------------------------------------------------------------------
// configurations
// ------------------------------------------------------------------------------------------
#[derive(Clone, Debug)]
struct Cfg {
    db: usize,
    rb: usize,
    cap: usize,
    pow: u32,
    q: usize,
    strat: FriReductionStrategy,
    hiding: bool,
    oracles: Vec<(usize, bool)>,
    batches: Vec<Vec<(usize, usize)>>,
}
impl Cfg {
    fn json(&self) -> Value {
        json!({"db": self.db, "rb": self.rb, "cap": self.cap, "pow": self.pow, "q": self.q,
               "strategy": format!("{:?}", self.strat), "hiding": self.hiding,
               "oracles": self.oracles.iter().map(|(n, b)| json!([n, b])).collect::<Vec<_>>(),
               "batches": self.batches.iter().map(|b| b.len()).collect::<Vec<_>>(),
               "binding_bits": self.q * self.rb + self.pow as usize})
    }
}

fn random_strategy(r: &mut ChaCha8Rng, db: usize, rb: usize, cap: usize, allow_bad: bool) -> FriReductionStrategy {
    match r.gen_range(0..3) {
        0 => {
            // Fixed: random arities; mostly admissible, now and then not
            let mut bits = vec![];
            let mut left = db;
            let mut cur = db + rb;
            loop {
                if r.gen_range(0..4) == 0 {
                    break;
                }
                let a = r.gen_range(1..=3usize);
                let bad = allow_bad && r.gen_range(0..40) == 0;
                if !bad && (a > left || cur < cap + a) {
                    break;
                }
                bits.push(a);
                if bad {
                    break;
                }
                left -= a;
                cur -= a;
            }
            FriReductionStrategy::Fixed(bits)
        }
        1 => FriReductionStrategy::ConstantArityBits(r.gen_range(1..=4), r.gen_range(0..=3)),
        _ => FriReductionStrategy::MinSize(if r.gen_bool(0.5) { None } else { Some(r.gen_range(1..=4)) }),
    }
}

fn random_cfg(r: &mut ChaCha8Rng, strong: bool, max_db: usize) -> Cfg {
    let db = if r.gen_bool(0.3) { r.gen_range(1..=max_db) } else { r.gen_range(3.min(max_db)..=max_db) };
    let (rb, pow, q) = if strong {
        let rb = r.gen_range(2..=4usize);
        let pow = r.gen_range(0..=8u32);
        let q = (50 - pow as usize + rb - 1) / rb;
        (rb, pow, q)
    } else {
        (r.gen_range(1..=4usize), [0u32, 0, 1, 3, 5, 8, 10][r.gen_range(0..7)], r.gen_range(1..=30usize))
    };
    let cap = r.gen_range(0..=4usize);
    // schedules without any reduction are legitimate but exercise no layer check: keep only some of them
    let mut strat = random_strategy(r, db, rb, cap, !strong);
    for _ in 0..4 {
        let empty = guarded(|| strat.reduction_arity_bits(db, rb, cap, q)).map(|b| b.is_empty()).unwrap_or(false);
        if !empty || r.gen_range(0..5) == 0 {
            break;
        }
        strat = random_strategy(r, db, rb, cap, !strong);
    }
    let hiding = r.gen_bool(0.4);
    let no = r.gen_range(1..=4usize);
    let oracles: Vec<(usize, bool)> = (0..no).map(|_| (r.gen_range(1..=6usize), r.gen_bool(0.5))).collect();
    let nb = r.gen_range(1..=3usize);
    let all: Vec<(usize, usize)> = oracles.iter().enumerate().flat_map(|(o, (n, _))| (0..*n).map(move |p| (o, p))).collect();
    let mut batches = vec![all.clone()];
    for _ in 1..nb {
        let mut b: Vec<(usize, usize)> = all.iter().copied().filter(|_| r.gen_bool(0.4)).collect();
        if b.is_empty() {
            b.push(all[r.gen_range(0..all.len())]);
        }
        batches.push(b);
    }
    Cfg { db, rb, cap, pow, q, strat, hiding, oracles, batches }
}

// ------------------------------------------------------------------------------------------
// the world of one case: honest artefacts
// ------------------------------------------------------------------------------------------
struct World {
    cfg: Cfg,
    params: FriParams,
    instance: FriInstanceInfo<F, D>,
    oracles: Vec<PolynomialBatch<F, C, D>>,
    openings: FriOpenings<F, D>,
    caps: Vec<Cap>,
    /// challenger state after caps and (honest) openings were observed
    ch0: Challenger<F, H>,
    /// challenger state before the openings were observed
    ch_pre: Challenger<F, H>,
}

fn clone_openings(o: &FriOpenings<F, D>) -> FriOpenings<F, D> {
    FriOpenings { batches: o.batches.iter().map(|b| FriOpeningBatch { values: b.values.clone() }).collect() }
}

fn commit_oracle(polys: Vec<PolynomialCoeffs<F>>, rb: usize, blinding: bool, cap: usize) -> PolynomialBatch<F, C, D> {
    PolynomialBatch::<F, C, D>::from_coeffs(polys, rb, blinding, cap, &mut TimingTree::default(), None)
}

fn build_world(cfg: &Cfg, params: FriParams, r: &mut ChaCha8Rng) -> World {
    let n = 1usize << cfg.db;
    let oracles: Vec<PolynomialBatch<F, C, D>> = cfg
        .oracles
        .iter()
        .map(|&(np, bl)| {
            let polys = (0..np).map(|_| PolynomialCoeffs::new((0..n).map(|_| rf(r)).collect())).collect();
            commit_oracle(polys, cfg.rb, bl && cfg.hiding, cfg.cap)
        })
        .collect();
    let points: Vec<FE> = cfg.batches.iter().map(|_| rfe(r)).collect();
    let instance = FriInstanceInfo {
        oracles: cfg.oracles.iter().map(|&(np, bl)| FriOracleInfo { num_polys: np, blinding: bl }).collect(),
        batches: cfg
            .batches
            .iter()
            .zip(&points)
            .map(|(b, &z)| FriBatchInfo {
                point: z,
                polynomials: b.iter().map(|&(o, p)| FriPolynomialInfo { oracle_index: o, polynomial_index: p }).collect(),
            })
            .collect(),
    };
    let openings = FriOpenings {
        batches: instance
            .batches
            .iter()
            .map(|b| FriOpeningBatch {
                values: b
                    .polynomials
                    .iter()
                    .map(|p| oracles[p.oracle_index].polynomials[p.polynomial_index].to_extension::<D>().eval(b.point))
                    .collect(),
            })
            .collect(),
    };
    let caps: Vec<Cap> = oracles.iter().map(|o| o.merkle_tree.cap.clone()).collect();
    let mut ch = Challenger::<F, H>::new();
    params.observe(&mut ch);
    for c in &caps {
        ch.observe_cap(c);
    }
    for z in &points {
        ch.observe_extension_element::<D>(z);
    }
    let ch_pre = ch.clone();
    ch.observe_openings(&openings);
    World { cfg: cfg.clone(), params, instance, oracles, openings, caps, ch0: ch, ch_pre }
}

fn challenges_for(ch: &Challenger<F, H>, proof: &Proof, w: &World) -> FriChallenges<F, D> {
    let mut c = ch.clone();
    c.fri_challenges::<C, D>(&proof.commit_phase_merkle_caps, &proof.final_poly, proof.pow_witness, w.cfg.db, &w.params.config, None, None)
}

fn prove_honest(w: &World) -> Proof {
    let mut ch = w.ch0.clone();
    let refs: Vec<&PolynomialBatch<F, C, D>> = w.oracles.iter().collect();
    PolynomialBatch::<F, C, D>::prove_openings(&w.instance, &refs, &mut ch, &w.params, None, None, &mut TimingTree::default())
}

#[derive(Clone, Debug, PartialEq)]
enum Verdict {
    Accept,
    Reject(String),
    Panic(String),
}
impl Verdict {
    fn json(&self) -> Value {
        match self {
            Verdict::Accept => json!({"v": "accept"}),
            Verdict::Reject(m) => json!({"v": "reject", "err": m, "check": classify(m)}),
            Verdict::Panic(m) => json!({"v": "panic", "err": m}),
        }
    }
}
/// which named check of the specification produced this error message
fn classify(m: &str) -> &'static str {
    if m.contains("proof of work") {
        "Pow"
    } else if m.contains("Number of query rounds") {
        "NumRounds"
    } else if m.contains("Invalid Merkle proof") {
        "Merkle"
    } else if m.contains("old_eval") {
        "Consistency"
    } else if m.contains("Final polynomial") {
        "Final"
    } else if m.contains("Condition failed") {
        // the only other message-less ensure!s are those of validate_fri_proof_shape
        "Shape"
    } else {
        "Other"
    }
}

fn verify(w: &World, openings: &FriOpenings<F, D>, ch: &FriChallenges<F, D>, caps: &[Cap], proof: &Proof) -> Verdict {
    match guarded(|| verify_fri_proof::<F, C, D>(&w.instance, openings, ch, caps, proof, &w.params)) {
        Ok(Ok(())) => Verdict::Accept,
        Ok(Err(e)) => Verdict::Reject(format!("{e}")),
        Err(p) => Verdict::Panic(p),
    }
}

// ------------------------------------------------------------------------------------------
// the spec prover: prove_openings / fri_committed_trees re-assembled from public parts with the
// challenges given explicitly, so that every intermediate table can be replaced
// ------------------------------------------------------------------------------------------
/// the polynomial that goes into FRI (prove_openings), coefficients padded to the LDE size
fn combined_coeffs(polys_of: &dyn Fn(usize, usize) -> PolynomialCoeffs<F>, inst: &FriInstanceInfo<F, D>, alpha: FE, rb: usize) -> PolynomialCoeffs<FE> {
    let mut alpha = ReducingFactor::new(alpha);
    let mut final_poly = PolynomialCoeffs::<FE>::empty();
    for FriBatchInfo { point, polynomials } in &inst.batches {
        let ps: Vec<PolynomialCoeffs<F>> = polynomials.iter().map(|p| polys_of(p.oracle_index, p.polynomial_index)).collect();
        let comp = alpha.reduce_polys_base::<F, D>(ps.iter());
        let mut quotient = comp.divide_by_linear(*point);
        quotient.coeffs.push(FE::ZERO);
        alpha.shift_poly(&mut final_poly);
        final_poly += quotient;
    }
    final_poly.lde(rb)
}

struct Layers {
    /// commit-phase layer tables in tree order (after reverse_index_bits)
    tables: Vec<Vec<FE>>,
    final_poly: PolynomialCoeffs<FE>,
}

fn commit_phase(mut coeffs: PolynomialCoeffs<FE>, values: PolynomialValues<FE>, betas: &[FE], params: &FriParams) -> Layers {
    let mut tables = vec![];
    let mut values = values.values;
    let mut shift = F::MULTIPLICATIVE_GROUP_GENERATOR;
    for (i, &ab) in params.reduction_arity_bits.iter().enumerate() {
        let arity = 1usize << ab;
        reverse_index_bits_in_place(&mut values);
        tables.push(values.clone());
        coeffs = PolynomialCoeffs::new(coeffs.coeffs.chunks_exact(arity).map(|ch| reduce_with_powers(ch, betas[i])).collect());
        shift = shift.exp_u64(arity as u64);
        values = coeffs.coset_fft(shift.into()).values;
    }
    let keep = coeffs.len() >> params.config.rate_bits;
    coeffs.coeffs.truncate(keep);
    Layers { tables, final_poly: coeffs }
}

fn layer_tree(table: &[FE], arity_bits: usize, cap: usize) -> Tree {
    let leaves: Vec<Vec<F>> = table.chunks(1 << arity_bits).map(|c| flatten::<F, D>(c)).collect();
    Tree::new(leaves, cap)
}

fn assemble(init: &[&Tree], trees: &[Tree], params: &FriParams, final_poly: &PolynomialCoeffs<FE>, pow_witness: F, indices: &[usize]) -> Proof {
    let rounds = indices
        .iter()
        .map(|&x0| {
            let mut x = x0;
            let initial = init.iter().map(|t| (t.get(x).to_vec(), t.prove(x))).collect();
            let mut steps = vec![];
            for (i, t) in trees.iter().enumerate() {
                let ab = params.reduction_arity_bits[i];
                steps.push(FriQueryStep { evals: unflatten::<F, D>(t.get(x >> ab)), merkle_proof: t.prove(x >> ab) });
                x >>= ab;
            }
            FriQueryRound { initial_trees_proof: FriInitialTreeProof { evals_proofs: initial }, steps }
        })
        .collect();
    FriProof {
        commit_phase_merkle_caps: trees.iter().map(|t| t.cap.clone()).collect(),
        query_round_proofs: rounds,
        final_poly: final_poly.clone(),
        pow_witness,
    }
}

// ------------------------------------------------------------------------------------------
// one deviation = one result record
// ------------------------------------------------------------------------------------------
struct Rec {
    devs: Vec<Value>,
}
impl Rec {
    fn push(&mut self, kind: &str, mode: &str, extra: Value, classes: Vec<&'static str>, v: Verdict) {
        let mut o = json!({"kind": kind, "mode": mode, "classes": classes});
        if let (Some(a), Some(b)) = (o.as_object_mut(), extra.as_object()) {
            for (k, x) in b {
                a.insert(k.clone(), x.clone());
            }
        }
        o["verdict"] = v.json();
        self.devs.push(o);
    }
}

fn nullspace(rows: &[Vec<F>], ncols: usize) -> Option<Vec<F>> {
    // Gaussian elimination over F; returns a non-zero kernel vector if one exists
    let mut m: Vec<Vec<F>> = rows.to_vec();
    let mut pivot_col_of_row = vec![];
    let mut row = 0;
    for col in 0..ncols {
        if row >= m.len() {
            break;
        }
        if let Some(p) = (row..m.len()).find(|&i| m[i][col] != F::ZERO) {
            m.swap(row, p);
            let inv = m[row][col].inverse();
            for c in 0..ncols {
                m[row][c] *= inv;
            }
            for i in 0..m.len() {
                if i != row && m[i][col] != F::ZERO {
                    let f = m[i][col];
                    for c in 0..ncols {
                        let t = m[row][c] * f;
                        m[i][c] -= t;
                    }
                }
            }
            pivot_col_of_row.push(col);
            row += 1;
        }
    }
    let free = (0..ncols).find(|c| !pivot_col_of_row.contains(c))?;
    let mut v = vec![F::ZERO; ncols];
    v[free] = F::ONE;
    for (r, &pc) in pivot_col_of_row.iter().enumerate() {
        v[pc] = -m[r][free];
    }
    Some(v)
}

fn salt_len(w: &World, o: usize) -> usize {
    if w.cfg.oracles[o].1 && w.cfg.hiding {
        4
    } else {
        0
    }
}

fn run_case(id: usize, cfg: &Cfg, r: &mut ChaCha8Rng) -> Value {
    let mut out = json!({"case": id, "cfg": cfg.json()});
    // ---- parameters
    let params = match guarded(|| FriConfig {
        rate_bits: cfg.rb,
        cap_height: cfg.cap,
        proof_of_work_bits: cfg.pow,
        reduction_strategy: cfg.strat.clone(),
        num_query_rounds: cfg.q,
    }
    .fri_params(cfg.db, cfg.hiding))
    {
        Ok(p) => p,
        Err(m) => {
            out["params_panic"] = json!(m);
            out["adm"] = json!(false);
            return out;
        }
    };
    let bits = params.reduction_arity_bits.clone();
    out["bits"] = json!(bits);
    let adm = admissible(cfg.db, cfg.rb, cfg.cap, &bits);
    out["adm"] = json!(adm);
    if !adm {
        // not promised to work: record what the honest path does (a panic is data)
        let res = guarded(|| {
            let mut r2 = r.clone();
            let w = build_world(cfg, params.clone(), &mut r2);
            let proof = prove_honest(&w);
            let ch = challenges_for(&w.ch0, &proof, &w);
            verify(&w, &w.openings, &ch, &w.caps, &proof)
        });
        out["inadmissible_outcome"] = match res {
            Ok(v) => v.json(),
            Err(m) => json!({"v": "panic", "err": m}),
        };
        return out;
    }
    let w = build_world(cfg, params.clone(), r);
    let nl = bits.len();
    let lde_bits = cfg.db + cfg.rb;
    let n = 1usize << lde_bits;
    // ---- (a) completeness
    let proof = match guarded(|| prove_honest(&w)) {
        Ok(p) => p,
        Err(m) => {
            out["honest"] = json!({"v": "panic", "err": m, "where": "prover"});
            return out;
        }
    };
    let ch = challenges_for(&w.ch0, &proof, &w);
    let honest = verify(&w, &w.openings, &ch, &w.caps, &proof);
    out["honest"] = honest.json();
    out["final_len"] = json!(proof.final_poly.len());
    out["final_len_params"] = json!(params.final_poly_len());
    out["num_layers"] = json!(nl);
    if honest != Verdict::Accept {
        return out;
    }
    let mut rec = Rec { devs: vec![] };
    let q = cfg.q;
    let idx = ch.fri_query_indices.clone();
    let all_hit = |_: usize| -> Vec<&'static str> { (0..q).map(|_| "hit").collect() };
    let only = |rr: usize| -> Vec<&'static str> { (0..q).map(|i| if i == rr { "hit" } else { "miss" }).collect() };
    let sums: Vec<usize> = (0..=nl).map(|l| bits[..l].iter().sum()).collect();
    let delta = |r: &mut ChaCha8Rng| -> F { rf_nz(r) };

    // ================= (b) fixed-challenge edits that need no re-commitment =================
    // claimed opening
    {
        let b = r.gen_range(0..w.openings.batches.len());
        let j = r.gen_range(0..w.openings.batches[b].values.len());
        let mut o = clone_openings(&w.openings);
        o.batches[b].values[j] += if r.gen_bool(0.5) { fb(delta(r)) } else { rfe(r) };
        rec.push("claim_edit", "fixed", json!({"batch": b, "j": j, "last": nl == 0}), all_hit(0), verify(&w, &o, &ch, &w.caps, &proof));
    }
    // opened leaf value / salt of oracle o in round rr
    for _ in 0..2 {
        let rr = r.gen_range(0..q);
        let o = r.gen_range(0..cfg.oracles.len());
        let k = r.gen_range(0..cfg.oracles[o].0);
        let mut p = proof.clone();
        p.query_round_proofs[rr].initial_trees_proof.evals_proofs[o].0[k] += delta(r);
        rec.push("leaf_edit", "fixed", json!({"oracle": o, "k": k, "round": rr, "last": nl == 0, "path_len": lde_bits - cfg.cap}), only(rr), verify(&w, &w.openings, &ch, &w.caps, &p));
    }
    if let Some(o) = (0..cfg.oracles.len()).find(|&o| salt_len(&w, o) > 0) {
        let rr = r.gen_range(0..q);
        let k = cfg.oracles[o].0 + r.gen_range(0..4);
        let mut p = proof.clone();
        p.query_round_proofs[rr].initial_trees_proof.evals_proofs[o].0[k] += delta(r);
        rec.push("salt_edit", "fixed", json!({"oracle": o, "k": k, "round": rr}), only(rr), verify(&w, &w.openings, &ch, &w.caps, &p));
    }
    // a sibling on the path of oracle o
    if lde_bits > cfg.cap {
        let rr = r.gen_range(0..q);
        let o = r.gen_range(0..cfg.oracles.len());
        let mut p = proof.clone();
        let sib = &mut p.query_round_proofs[rr].initial_trees_proof.evals_proofs[o].1.siblings;
        let s = r.gen_range(0..sib.len());
        sib[s].elements[r.gen_range(0..4)] += delta(r);
        rec.push("init_path", "fixed", json!({"oracle": o, "sibling": s, "round": rr}), only(rr), verify(&w, &w.openings, &ch, &w.caps, &p));
    }
    for l in 0..nl {
        let last = l + 1 == nl;
        let ab = bits[l];
        // a sibling on the path of layer l
        let rr = r.gen_range(0..q);
        if !proof.query_round_proofs[rr].steps[l].merkle_proof.siblings.is_empty() {
            let mut p = proof.clone();
            let sib = &mut p.query_round_proofs[rr].steps[l].merkle_proof.siblings;
            let s = r.gen_range(0..sib.len());
            sib[s].elements[r.gen_range(0..4)] += delta(r);
            rec.push("layer_path", "fixed", json!({"layer": l, "last": last, "round": rr}), only(rr), verify(&w, &w.openings, &ch, &w.caps, &p));
        }
        // a coset value: the queried slot and another slot
        for slot_q in [true, false] {
            let rr = r.gen_range(0..q);
            let within = (idx[rr] >> sums[l]) & ((1 << ab) - 1);
            let m = if slot_q { within } else { (within + r.gen_range(1..(1usize << ab))) & ((1 << ab) - 1) };
            let mut p = proof.clone();
            p.query_round_proofs[rr].steps[l].evals[m] += if r.gen_bool(0.5) { fb(delta(r)) } else { rfe(r) };
            let cls: Vec<&'static str> = (0..q).map(|i| if i != rr { "miss" } else if slot_q { "hitq" } else { "hits" }).collect();
            rec.push("coset_edit", "fixed", json!({"layer": l, "last": last, "round": rr, "slot": m, "path_len": proof.query_round_proofs[rr].steps[l].merkle_proof.siblings.len()}), cls, verify(&w, &w.openings, &ch, &w.caps, &p));
        }
    }
    // an entry of the cap of an initial oracle that a query reads (only InitMerkle reads it); with
    // lde_bits == cap_height the path is empty and the cap entry is compared with the leaf hash itself
    {
        let rr = r.gen_range(0..q);
        let o = r.gen_range(0..cfg.oracles.len());
        let pl = lde_bits - cfg.cap;
        let ci = idx[rr] >> pl;
        let mut caps = w.caps.clone();
        caps[o].0[ci].elements[r.gen_range(0..4)] += delta(r);
        let cls: Vec<&'static str> = idx.iter().map(|&x| if x >> pl == ci { "hit" } else { "miss" }).collect();
        rec.push("init_cap", "fixed", json!({"oracle": o, "cap_index": ci, "path_len": pl}), cls, verify(&w, &w.openings, &ch, &caps, &proof));
    }
    for l in 0..nl {
        // an entry of the cap of layer l that a query reads (only LayerMerkle(l) reads it)
        let rr = r.gen_range(0..q);
        let pl = proof.query_round_proofs[rr].steps[l].merkle_proof.siblings.len();
        let ci = (idx[rr] >> sums[l + 1]) >> pl;
        let mut p = proof.clone();
        p.commit_phase_merkle_caps[l].0[ci].elements[r.gen_range(0..4)] += delta(r);
        let cls: Vec<&'static str> = idx.iter().map(|&x| if (x >> sums[l + 1]) >> pl == ci { "hit" } else { "miss" }).collect();
        rec.push("layer_cap", "fixed", json!({"layer": l, "last": l + 1 == nl, "cap_index": ci, "path_len": pl}), cls, verify(&w, &w.openings, &ch, &w.caps, &p));
    }
    // single query: a sibling value of the last layer's coset changed (nothing re-committed) and the final
    // polynomial forged so that Final passes: only LayerMerkle(last) reads the difference
    if nl > 0 && q == 1 {
        let l = nl - 1;
        let ab = bits[l];
        let cur = idx[0] >> sums[l];
        let within = cur & ((1 << ab) - 1);
        let m = (within + r.gen_range(1..(1usize << ab))) & ((1 << ab) - 1);
        let mut p = proof.clone();
        let x0 = F::MULTIPLICATIVE_GROUP_GENERATOR * F::primitive_root_of_unity(lde_bits).exp_u64(rev_bits(idx[0], lde_bits) as u64);
        let x = x0.exp_power_of_2(sums[l]);
        let old = plonky2::verif_exports::compute_evaluation::<F, D>(x, within, ab, &p.query_round_proofs[0].steps[l].evals, ch.fri_betas[l]);
        p.query_round_proofs[0].steps[l].evals[m] += rfe(r);
        let new = plonky2::verif_exports::compute_evaluation::<F, D>(x, within, ab, &p.query_round_proofs[0].steps[l].evals, ch.fri_betas[l]);
        p.final_poly.coeffs[0] += new - old;
        let pl = p.query_round_proofs[0].steps[l].merkle_proof.siblings.len();
        rec.push("coset_forge", "fixed", json!({"layer": l, "last": true, "slot": m, "path_len": pl}), vec!["hits"], verify(&w, &w.openings, &ch, &w.caps, &p));
    }
    // final polynomial coefficient
    {
        let t = r.gen_range(0..proof.final_poly.len());
        let mut p = proof.clone();
        p.final_poly.coeffs[t] += rfe(r);
        rec.push("final_edit", "fixed", json!({"index": t}), all_hit(0), verify(&w, &w.openings, &ch, &w.caps, &p));
    }
    // shape of the final polynomial: one zero coefficient appended / the last coefficient dropped
    {
        let mut p = proof.clone();
        p.final_poly.coeffs.push(FE::ZERO);
        rec.push("final_extend", "fixed", json!({"len": p.final_poly.len()}), all_hit(0), verify(&w, &w.openings, &ch, &w.caps, &p));
        let mut p = proof.clone();
        p.final_poly.coeffs.pop();
        rec.push("final_truncate", "fixed", json!({"len": p.final_poly.len()}), all_hit(0), verify(&w, &w.openings, &ch, &w.caps, &p));
    }
    // proof of work response
    if cfg.pow > 0 {
        let mut c2 = clone_chal(&ch);
        // exactly one leading zero too few / exactly enough
        c2.fri_pow_response = F::from_canonical_u64((1u64 << (64 - cfg.pow)) % P);
        rec.push("pow_bad", "fixed", json!({"zeros": cfg.pow - 1}), all_hit(0), verify(&w, &w.openings, &c2, &w.caps, &proof));
        c2.fri_pow_response = F::from_canonical_u64((1u64 << (63 - cfg.pow)) | 1);
        rec.push("pow_edge_ok", "fixed", json!({"zeros": cfg.pow}), all_hit(0), verify(&w, &w.openings, &c2, &w.caps, &proof));
        c2.fri_pow_response = F::from_canonical_u64(P - 1);
        rec.push("pow_bad", "fixed", json!({"zeros": 0}), all_hit(0), verify(&w, &w.openings, &c2, &w.caps, &proof));
    }
    // a query round is missing
    {
        let mut p = proof.clone();
        p.query_round_proofs.pop();
        rec.push("drop_round", "fixed", json!({}), all_hit(0), verify(&w, &w.openings, &ch, &w.caps, &p));
    }

    // ================= spec prover: rebuild every table with the challenges held fixed ==========
    let init_trees: Vec<&Tree> = w.oracles.iter().map(|o| &o.merkle_tree).collect();
    let polys_of = |o: usize, p: usize| w.oracles[o].polynomials[p].clone();
    let coeffs0 = combined_coeffs(&polys_of, &w.instance, ch.fri_alpha, cfg.rb);
    let values0 = coeffs0.coset_fft(F::coset_shift().into());
    let layers = commit_phase(coeffs0.clone(), values0.clone(), &ch.fri_betas, &params);
    let trees: Vec<Tree> = layers.tables.iter().enumerate().map(|(l, t)| layer_tree(t, bits[l], cfg.cap)).collect();
    let rebuilt = assemble(&init_trees, &trees, &params, &layers.final_poly, proof.pow_witness, &idx);
    out["spec_prover_reproduces_proof"] = json!(rebuilt == proof);
    if rebuilt == proof {
        // ---- an initial oracle re-committed with one leaf value changed
        for hit in [true, false] {
            let o = r.gen_range(0..cfg.oracles.len());
            let k = r.gen_range(0..cfg.oracles[o].0);
            let pos = if hit { Some(idx[r.gen_range(0..q)]) } else { (0..20).map(|_| r.gen_range(0..n)).find(|p| !idx.contains(p)) };
            if let Some(pos) = pos {
                let mut leaves = w.oracles[o].merkle_tree.leaves.clone();
                leaves[pos][k] += delta(r);
                let t2 = Tree::new(leaves, cfg.cap);
                let mut it = init_trees.clone();
                it[o] = &t2;
                let mut caps = w.caps.clone();
                caps[o] = t2.cap.clone();
                let p = assemble(&it, &trees, &params, &layers.final_poly, proof.pow_witness, &idx);
                let cls: Vec<&'static str> = idx.iter().map(|&x| if x == pos { "hit" } else { "miss" }).collect();
                rec.push("leaf_recommit", "fixed", json!({"oracle": o, "k": k, "pos": pos, "last": nl == 0}), cls, verify(&w, &w.openings, &ch, &caps, &p));
            }
        }
        // ---- leaf values changed inside the kernel of the alpha-combination (all batches at once)
        {
            // unknowns: the polynomials of batch 0 (= all polynomials); equations: both coordinates of
            // sum_j alpha^j delta_{poly(b,j)} for every batch b
            let all = &cfg.batches[0];
            let m = all.len().min(2 * cfg.batches.len() + 1);
            let chosen: Vec<(usize, usize)> = all[..m].to_vec();
            let mut rows: Vec<Vec<F>> = vec![];
            for b in &cfg.batches {
                let mut re = vec![F::ZERO; m];
                let mut im = vec![F::ZERO; m];
                let mut pw = FE::ONE;
                for &(o, p) in b {
                    if let Some(c) = chosen.iter().position(|&x| x == (o, p)) {
                        let a: [F; D] = pw.to_basefield_array();
                        re[c] += a[0];
                        im[c] += a[1];
                    }
                    pw *= ch.fri_alpha;
                }
                rows.push(re);
                rows.push(im);
            }
            if let Some(kv) = nullspace(&rows, m) {
                let scale = delta(r);
                let rr = r.gen_range(0..q);
                let pos = idx[rr];
                // (i) only the opened values change
                let mut p = proof.clone();
                for (c, &(o, pi)) in chosen.iter().enumerate() {
                    p.query_round_proofs[rr].initial_trees_proof.evals_proofs[o].0[pi] += kv[c] * scale;
                }
                rec.push("leaf_kernel", "fixed", json!({"polys": m, "round": rr, "path_len": lde_bits - cfg.cap}), only(rr), verify(&w, &w.openings, &ch, &w.caps, &p));
                // (ii) the oracles are re-committed as well: invisible to every check
                let mut new_trees: Vec<Tree> = vec![];
                for o in 0..cfg.oracles.len() {
                    let mut leaves = w.oracles[o].merkle_tree.leaves.clone();
                    for (c, &(oo, pi)) in chosen.iter().enumerate() {
                        if oo == o {
                            leaves[pos][pi] += kv[c] * scale;
                        }
                    }
                    new_trees.push(Tree::new(leaves, cfg.cap));
                }
                let it: Vec<&Tree> = new_trees.iter().collect();
                let caps: Vec<Cap> = new_trees.iter().map(|t| t.cap.clone()).collect();
                let p = assemble(&it, &trees, &params, &layers.final_poly, proof.pow_witness, &idx);
                let cls: Vec<&'static str> = idx.iter().map(|&x| if x == pos { "hit" } else { "miss" }).collect();
                rec.push("leaf_kernel_recommit", "fixed", json!({"polys": m, "pos": pos}), cls, verify(&w, &w.openings, &ch, &caps, &p));
            }
        }
        for l in 0..nl {
            let last = l + 1 == nl;
            let ab = bits[l];
            // ---- layer l re-committed with one value changed: queried slot, sibling slot, unread coset
            for which in 0..3 {
                let t = match which {
                    0 => Some(idx[r.gen_range(0..q)] >> sums[l]),
                    1 => {
                        let cur = idx[r.gen_range(0..q)] >> sums[l];
                        Some((cur & !((1usize << ab) - 1)) | ((cur + r.gen_range(1..(1usize << ab))) & ((1 << ab) - 1)))
                    }
                    _ => (0..20).map(|_| r.gen_range(0..layers.tables[l].len())).find(|t| !idx.iter().any(|&x| (x >> sums[l]) >> ab == t >> ab)),
                };
                if let Some(t) = t {
                    let mut tab = layers.tables[l].clone();
                    tab[t] += rfe(r);
                    let mut tr = trees.clone();
                    tr[l] = layer_tree(&tab, ab, cfg.cap);
                    let p = assemble(&init_trees, &tr, &params, &layers.final_poly, proof.pow_witness, &idx);
                    let cls: Vec<&'static str> = idx
                        .iter()
                        .map(|&x| {
                            let cur = x >> sums[l];
                            if cur == t {
                                "hitq"
                            } else if cur >> ab == t >> ab {
                                "hits"
                            } else {
                                "miss"
                            }
                        })
                        .collect();
                    rec.push("coset_recommit", "fixed", json!({"layer": l, "last": last, "t": t}), cls, verify(&w, &w.openings, &ch, &w.caps, &p));
                }
            }
            // ---- layer l and everything after it derived from a shifted function
            {
                let d = rfe(r);
                let mut tr = trees.clone();
                for m in l..nl {
                    let tab: Vec<FE> = layers.tables[m].iter().map(|&v| v + d).collect();
                    tr[m] = layer_tree(&tab, bits[m], cfg.cap);
                }
                let mut fp = layers.final_poly.clone();
                fp.coeffs[0] += d;
                let p = assemble(&init_trees, &tr, &params, &fp, proof.pow_witness, &idx);
                rec.push("layer_replace", "fixed", json!({"layer": l, "last": last}), all_hit(0), verify(&w, &w.openings, &ch, &w.caps, &p));
            }
        }
    }

    // ================= (c) Fiat-Shamir consistent deviations =================
    let refs: Vec<&PolynomialBatch<F, C, D>> = w.oracles.iter().collect();
    let fs_run = |knobs: Knobs, chp: &Challenger<F, H>| -> std::result::Result<Proof, String> {
        verif_knobs::set(knobs);
        let res = guarded(|| {
            let mut c = chp.clone();
            PolynomialBatch::<F, C, D>::prove_openings(&w.instance, &refs, &mut c, &w.params, None, None, &mut TimingTree::default())
        });
        verif_knobs::clear();
        res
    };
    let fs_verdict = |p: std::result::Result<Proof, String>, chv: &Challenger<F, H>, op: &FriOpenings<F, D>, caps: &[Cap]| -> (Verdict, Option<FriChallenges<F, D>>) {
        match p {
            Ok(p) => {
                let c = challenges_for(chv, &p, &w);
                (verify(&w, op, &c, caps, &p), Some(c))
            }
            Err(m) => (Verdict::Panic(format!("prover: {m}")), None),
        }
    };
    for l in 0..nl {
        let d = rf_nz(r).to_canonical_u64();
        let (v, _) = fs_verdict(fs_run(Knobs { fri_layer_delta: Some((l, d)), ..Default::default() }, &w.ch0), &w.ch0, &w.openings, &w.caps);
        rec.push("layer_delta", "fs", json!({"layer": l, "last": l + 1 == nl}), all_hit(0), v);
    }
    {
        let t = r.gen_range(0..proof.final_poly.len());
        let d = rf_nz(r).to_canonical_u64();
        let (v, _) = fs_verdict(fs_run(Knobs { fri_final_poly_delta: Some((t, d)), ..Default::default() }, &w.ch0), &w.ch0, &w.openings, &w.caps);
        rec.push("final_delta", "fs", json!({"index": t}), all_hit(0), v);
    }
    if cfg.pow > 0 {
        // a witness chosen without grinding: the verdict must follow the response's leading zeros
        for wit in 0..3u64 {
            let pr = fs_run(Knobs { pow_witness: Some(wit + 7 * id as u64), ..Default::default() }, &w.ch0);
            let (v, c) = fs_verdict(pr, &w.ch0, &w.openings, &w.caps);
            if let Some(c) = c {
                let zeros = c.fri_pow_response.to_canonical_u64().leading_zeros();
                let kind = if zeros >= cfg.pow { "pow_lucky" } else { "pow_bad" };
                rec.push(kind, "fs", json!({"zeros": zeros}), all_hit(0), v);
            }
        }
    }
    // wrong claimed opening, three provers of increasing strength
    {
        let b = r.gen_range(0..w.openings.batches.len());
        let j = r.gen_range(0..w.openings.batches[b].values.len());
        let mut wrong = clone_openings(&w.openings);
        wrong.batches[b].values[j] += rfe(r);
        let mut chw = w.ch_pre.clone();
        chw.observe_openings(&wrong);
        // (1) honest proof, the verifier is told the wrong value (its transcript differs)
        let c1 = challenges_for(&chw, &proof, &w);
        rec.push("claim_wrong_static", "fs", json!({"batch": b, "j": j}), all_hit(0), verify(&w, &wrong, &c1, &w.caps, &proof));
        // (2) both transcripts contain the wrong value, the prover proves the true quotient
        let (v, _) = fs_verdict(fs_run(Knobs::default(), &chw), &chw, &wrong, &w.caps);
        rec.push("claim_wrong_consistent", "fs", json!({"batch": b, "j": j, "last": nl == 0}), all_hit(0), v);
        // (3) the prover commits to the verifier's own combination (not low degree), folds it honestly
        //     with the real fri_proof and lets the final polynomial be truncated
        let pr = guarded(|| {
            let mut c = chw.clone();
            let alpha = c.get_extension_challenge::<D>();
            let vals = verifier_combination_table(&w, &wrong, alpha);
            let values = PolynomialValues::new(vals);
            let coeffs = values.clone().coset_ifft(F::coset_shift().into());
            fri_proof::<F, C, D>(&init_trees, coeffs, values, &mut c, &w.params, None, None, &mut TimingTree::default())
        });
        let (v, _) = fs_verdict(pr, &chw, &wrong, &w.caps);
        rec.push("claim_adaptive", "fs", json!({"batch": b, "j": j}), all_hit(0), v);
    }
    // an oracle polynomial of too high a degree (true values claimed), folded honestly
    for (kind, extra) in [("degree_n", 0usize), ("high_degree", 1 + r.gen_range(0..((n - (1 << cfg.db)).max(1))))] {
        let deg = (1usize << cfg.db) + extra; // degree = n (+ extra): n + 1 + extra coefficients
        if deg >= n {
            continue;
        }
        let o = r.gen_range(0..cfg.oracles.len());
        let pi = r.gen_range(0..cfg.oracles[o].0);
        let mut long = w.oracles[o].polynomials[pi].coeffs.clone();
        long.resize(deg + 1, F::ZERO);
        for c in long.iter_mut().skip(1 << cfg.db) {
            *c = rf_nz(r);
        }
        let long = PolynomialCoeffs::new(long);
        // commit to its values on the LDE coset (the other polynomials of the oracle unchanged)
        let mut leaves = w.oracles[o].merkle_tree.leaves.clone();
        let mut v = long.padded(n).coset_fft(F::coset_shift()).values;
        reverse_index_bits_in_place(&mut v);
        for (leaf, x) in leaves.iter_mut().zip(&v) {
            leaf[pi] = *x;
        }
        let t2 = Tree::new(leaves, cfg.cap);
        let mut it = init_trees.clone();
        it[o] = &t2;
        let mut caps = w.caps.clone();
        caps[o] = t2.cap.clone();
        let mut op = clone_openings(&w.openings);
        for (bi, b) in w.instance.batches.iter().enumerate() {
            for (j, p) in b.polynomials.iter().enumerate() {
                if p.oracle_index == o && p.polynomial_index == pi {
                    op.batches[bi].values[j] = long.to_extension::<D>().eval(b.point);
                }
            }
        }
        let mut chh = Challenger::<F, H>::new();
        w.params.observe(&mut chh);
        for c in &caps {
            chh.observe_cap(c);
        }
        for b in &w.instance.batches {
            chh.observe_extension_element::<D>(&b.point);
        }
        chh.observe_openings(&op);
        let pr = guarded(|| {
            let mut c = chh.clone();
            let alpha = c.get_extension_challenge::<D>();
            let polys_of = |oo: usize, pp: usize| if oo == o && pp == pi { long.clone() } else { w.oracles[oo].polynomials[pp].clone() };
            // prove_openings on the long polynomial: the quotient keeps its high coefficients
            let mut co = combined_coeffs(&polys_of, &w.instance, alpha, 0);
            co.coeffs.resize(n, FE::ZERO);
            let values = co.coset_fft(F::coset_shift().into());
            fri_proof::<F, C, D>(&it, co, values, &mut c, &w.params, None, None, &mut TimingTree::default())
        });
        let (v, _) = fs_verdict(pr, &chh, &op, &caps);
        rec.push(kind, "fs", json!({"oracle": o, "poly": pi, "degree": deg, "n": 1usize << cfg.db}), all_hit(0), v);
    }
    // polynomials of 2^e times the allowed degree: the real prover run with (degree_bits + e, rate_bits - e)
    // -- same LDE domain, same trees, same schedule -- on the verifier's transcript; the verifier keeps the
    // original parameters.  The final polynomial is the true fold and has 2^e times too many coefficients.
    for e in 1..=2usize {
        if cfg.rb < e {
            continue;
        }
        let res = guarded(|| {
            let n2 = 1usize << (cfg.db + e);
            let oracles2: Vec<PolynomialBatch<F, C, D>> = cfg
                .oracles
                .iter()
                .map(|&(np, bl)| {
                    let polys = (0..np).map(|_| PolynomialCoeffs::new((0..n2).map(|_| rf(r)).collect())).collect();
                    commit_oracle(polys, cfg.rb - e, bl && cfg.hiding, cfg.cap)
                })
                .collect();
            let op2 = FriOpenings {
                batches: w
                    .instance
                    .batches
                    .iter()
                    .map(|b| FriOpeningBatch {
                        values: b.polynomials.iter().map(|p| oracles2[p.oracle_index].polynomials[p.polynomial_index].to_extension::<D>().eval(b.point)).collect(),
                    })
                    .collect(),
            };
            let caps2: Vec<Cap> = oracles2.iter().map(|o| o.merkle_tree.cap.clone()).collect();
            let mut c = Challenger::<F, H>::new();
            w.params.observe(&mut c); // the verifier's parameters
            for cp in &caps2 {
                c.observe_cap(cp);
            }
            for b in &w.instance.batches {
                c.observe_extension_element::<D>(&b.point);
            }
            c.observe_openings(&op2);
            let cv = c.clone();
            let mut cfg2 = w.params.config.clone();
            cfg2.rate_bits = cfg.rb - e;
            let params2 = FriParams { config: cfg2, hiding: cfg.hiding, degree_bits: cfg.db + e, reduction_arity_bits: bits.clone() };
            let refs2: Vec<&PolynomialBatch<F, C, D>> = oracles2.iter().collect();
            let p = PolynomialBatch::<F, C, D>::prove_openings(&w.instance, &refs2, &mut c, &params2, None, None, &mut TimingTree::default());
            let chal = challenges_for(&cv, &p, &w);
            (p.final_poly.len(), verify(&w, &op2, &chal, &caps2, &p))
        });
        match res {
            Ok((len, v)) => rec.push("degree_scaled", "fs", json!({"e": e, "final_len": len, "final_len_params": params.final_poly_len()}), all_hit(0), v),
            Err(m) => rec.push("degree_scaled", "fs", json!({"e": e}), all_hit(0), Verdict::Panic(format!("prover: {m}"))),
        }
    }
    out["devs"] = Value::Array(rec.devs);
    out
}

/// what fri_combine_initial computes, for every point of the LDE coset (natural order)
fn verifier_combination_table(w: &World, op: &FriOpenings<F, D>, alpha: FE) -> Vec<FE> {
    let lde_bits = w.cfg.db + w.cfg.rb;
    let n = 1usize << lde_bits;
    let g = F::primitive_root_of_unity(lde_bits);
    let red_open: Vec<FE> = op.batches.iter().map(|b| ReducingFactor::new(alpha).reduce(b.values.iter())).collect();
    let mut x = F::coset_shift();
    let mut out = Vec::with_capacity(n);
    for i in 0..n {
        let leaf_idx = rev_bits(i, lde_bits);
        let mut al = ReducingFactor::new(alpha);
        let mut sum = FE::ZERO;
        for (b, ro) in w.instance.batches.iter().zip(&red_open) {
            let evals = b.polynomials.iter().map(|p| fb(w.oracles[p.oracle_index].merkle_tree.leaves[leaf_idx][p.polynomial_index]));
            let red = al.reduce(evals);
            sum = al.shift(sum);
            sum += (red - *ro) / (fb(x) - b.point);
        }
        out.push(sum);
        x *= g;
    }
    out
}

/// configurations in which a Merkle path is EMPTY (tree height == cap height): the last commit-phase
/// layer (in an admissible schedule no other layer can be that low: the following tree would be lower than
/// the cap) or, without any reduction, the initial oracles.  Always part of the sweep (first case ids).
fn special_cfgs() -> Vec<Cfg> {
    let mk = |db: usize, rb: usize, cap: usize, pow: u32, q: usize, strat: FriReductionStrategy, hiding: bool| Cfg {
        db, rb, cap, pow, q, strat, hiding,
        oracles: vec![(2, true), (3, false)],
        batches: vec![vec![(0, 0), (0, 1), (1, 0), (1, 1), (1, 2)], vec![(0, 1), (1, 2)]],
    };
    let mut v = vec![];
    for &q in &[1usize, 1, 7] {
        // last layer: 2^(8-3) = 2^5 cosets = 2^cap_height leaves
        v.push(mk(6, 2, 5, 0, q, FriReductionStrategy::Fixed(vec![2, 1]), false));
        v.push(mk(4, 1, 4, 2, q, FriReductionStrategy::Fixed(vec![1]), true));
        // ConstantArityBits stops exactly when the next tree would be lower than the cap
        v.push(mk(5, 1, 3, 0, q, FriReductionStrategy::ConstantArityBits(1, 0), false));
        v.push(mk(7, 3, 4, 1, q, FriReductionStrategy::ConstantArityBits(2, 0), true));
        // the same shapes one cap level lower (non-empty path) as controls
        v.push(mk(6, 2, 4, 0, q, FriReductionStrategy::Fixed(vec![2, 1]), false));
        // initial trees: lde_bits == cap_height, no reduction
        v.push(mk(3, 1, 4, 0, q, FriReductionStrategy::Fixed(vec![]), false));
        v.push(mk(2, 2, 4, 3, q, FriReductionStrategy::MinSize(Some(0)), true));
    }
    v
}

fn fri_cmd(args: &[String]) -> Result<()> {
    let ncases = opt_usize(args, "--n", 200);
    let max_db = opt_usize(args, "--max-db", 8);
    let out = opt(args, "--out").ok_or_else(|| anyhow!("--out"))?;
    let mut log = NdJson::create(out)?;
    let mut r = rng(5);
    let mut done = 0usize;
    let only = opt(args, "--only").and_then(|s| s.parse::<usize>().ok());
    let special = special_cfgs();
    for id in 0..ncases {
        let strong = id % 3 == 0;
        let cfg = if id < special.len() { special[id].clone() } else { random_cfg(&mut r, strong, max_db) };
        if only.map_or(false, |o| o != id) {
            continue;
        }
        let mut rc = r.clone();
        rc.set_stream(1000 + id as u64);
        let v = match guarded(|| run_case(id, &cfg, &mut rc)) {
            Ok(v) => v,
            Err(m) => json!({"case": id, "cfg": cfg.json(), "harness_panic": m}),
        };
        verif_knobs::clear();
        log.put(&v);
        done += 1;
    }
    log.finish();
    emit(&json!({"kind": "c05-fri", "cases": done, "out": out}));
    Ok(())
}

// ------------------------------------------------------------------------------------------
// (d) batched variant
// ------------------------------------------------------------------------------------------
/// (rb, degs, bits, cap, pow, q): shapes with an empty Merkle path (see special_cfgs)
fn special_batch() -> Vec<(usize, Vec<usize>, Vec<usize>, usize, u32, usize)> {
    let mut v = vec![];
    for &q in &[1usize, 6] {
        v.push((1, vec![5, 4], vec![1, 1], 4, 0, q)); // last layer: 2^(6-2) leaves = 2^cap
        v.push((2, vec![6, 3], vec![2, 1], 5, 2, q));
        v.push((1, vec![4], vec![1], 4, 0, q));
        v.push((1, vec![5, 4], vec![1, 1], 3, 0, q)); // control
        v.push((1, vec![3], vec![], 4, 0, q)); // initial tree: lde_bits == cap, no reduction
        v.push((2, vec![2], vec![], 4, 1, q));
    }
    v
}

fn batch_case(id: usize, r: &mut ChaCha8Rng) -> Value {
    // degree classes, strictly decreasing, each reachable by the arity schedule
    let rb = r.gen_range(1..=3usize);
    let k0 = r.gen_range(3..=7usize);
    let mut bits = vec![];
    let mut degs = vec![k0];
    let mut cur = k0;
    while cur > 1 && bits.len() < 4 && r.gen_range(0..5) != 0 {
        let a = r.gen_range(1..=2usize.min(cur - 1).max(1));
        bits.push(a);
        cur -= a;
        if r.gen_bool(0.6) {
            degs.push(cur);
        }
    }
    let cap = r.gen_range(0..=(cur + rb).min(3));
    let pow = [0u32, 0, 2, 6][r.gen_range(0..4)];
    let strong = id % 3 == 0;
    let q = if strong { (50 - pow as usize + rb - 1) / rb } else { r.gen_range(1..=20usize) };
    let q = q.min(30);
    let sp = special_batch();
    let (rb, degs, bits, cap, pow, q, k0) = if id < sp.len() {
        let t = sp[id].clone();
        let k0 = t.1[0];
        (t.0, t.1, t.2, t.3, t.4, t.5, k0)
    } else {
        (rb, degs, bits, cap, pow, q, k0)
    };
    let params = FriParams {
        config: FriConfig { rate_bits: rb, cap_height: cap, proof_of_work_bits: pow, reduction_strategy: FriReductionStrategy::Fixed(bits.clone()), num_query_rounds: q },
        hiding: false,
        degree_bits: k0,
        reduction_arity_bits: bits.clone(),
    };
    // polynomials per degree class
    let counts: Vec<usize> = degs.iter().map(|_| r.gen_range(1..=3usize)).collect();
    let mut out = json!({"case": id, "cfg": {"rb": rb, "degs": degs, "bits": bits, "cap": cap, "pow": pow, "q": q, "counts": counts,
                                               "binding_bits": q * rb + pow as usize}});
    let mut values = vec![];
    for (d, &c) in degs.iter().zip(&counts) {
        for _ in 0..c {
            values.push(PolynomialValues::new((0..(1usize << d)).map(|_| rf(r)).collect()));
        }
    }
    let npolys = values.len();
    let oracle = BatchFriOracle::<F, C, D>::from_values(values, rb, false, cap, &mut TimingTree::default(), &vec![None; npolys]);
    let nb = r.gen_range(1..=2usize);
    let points: Vec<FE> = (0..nb).map(|_| rfe(r)).collect();
    let mut instances = vec![];
    let mut openings = vec![];
    let mut start = 0usize;
    for &c in &counts {
        let polys: Vec<usize> = (start..start + c).collect();
        let mut batches = vec![FriBatchInfo { point: points[0], polynomials: polys.iter().map(|&p| FriPolynomialInfo { oracle_index: 0, polynomial_index: p }).collect() }];
        if nb > 1 {
            let sub: Vec<usize> = polys.iter().copied().filter(|_| r.gen_bool(0.5)).collect();
            let sub = if sub.is_empty() { vec![polys[0]] } else { sub };
            batches.push(FriBatchInfo { point: points[1], polynomials: sub.iter().map(|&p| FriPolynomialInfo { oracle_index: 0, polynomial_index: p }).collect() });
        }
        let inst = FriInstanceInfo { oracles: vec![FriOracleInfo { num_polys: c, blinding: false }], batches };
        openings.push(FriOpenings {
            batches: inst
                .batches
                .iter()
                .map(|b| FriOpeningBatch { values: b.polynomials.iter().map(|p| oracle.polynomials[p.polynomial_index].to_extension::<D>().eval(b.point)).collect() })
                .collect(),
        });
        instances.push(inst);
        start += c;
    }
    let cap0 = oracle.batch_merkle_tree.cap.clone();
    let mut ch = Challenger::<F, H>::new();
    ch.observe_cap(&cap0);
    for z in &points {
        ch.observe_extension_element::<D>(z);
    }
    for o in &openings {
        ch.observe_openings(o);
    }
    let chv = ch.clone();
    let proof = match guarded(|| {
        let mut c = ch.clone();
        BatchFriOracle::<F, C, D>::prove_openings(&degs, &instances, &[&oracle], &mut c, &params, &mut TimingTree::default())
    }) {
        Ok(p) => p,
        Err(m) => {
            out["honest"] = json!({"v": "panic", "err": m, "where": "prover"});
            return out;
        }
    };
    let chal = {
        let mut c = chv.clone();
        c.fri_challenges::<C, D>(&proof.commit_phase_merkle_caps, &proof.final_poly, proof.pow_witness, k0, &params.config, None, None)
    };
    let clone_all = |ops: &Vec<FriOpenings<F, D>>| -> Vec<FriOpenings<F, D>> { ops.iter().map(clone_openings).collect() };
    let ver = |ops: &[FriOpenings<F, D>], c: &FriChallenges<F, D>, p: &Proof| -> Verdict {
        match guarded(|| verify_batch_fri_proof::<F, C, D>(&degs, &instances, ops, c, &[cap0.clone()], p, &params)) {
            Ok(Ok(())) => Verdict::Accept,
            Ok(Err(e)) => Verdict::Reject(format!("{e}")),
            Err(m) => Verdict::Panic(m),
        }
    };
    let honest = ver(&openings, &chal, &proof);
    out["honest"] = honest.json();
    out["final_len"] = json!(proof.final_poly.len());
    out["final_len_params"] = json!(params.final_poly_len());
    if honest != Verdict::Accept {
        return out;
    }
    let nl = bits.len();
    let sums: Vec<usize> = (0..=nl).map(|l| bits[..l].iter().sum()).collect();
    let idx = chal.fri_query_indices.clone();
    let mut rec = Rec { devs: vec![] };
    let all_hit = || -> Vec<&'static str> { (0..q).map(|_| "hit").collect() };
    let only = |rr: usize| -> Vec<&'static str> { (0..q).map(|i| if i == rr { "hit" } else { "miss" }).collect() };
    // the layer at which instance i joins (0 = before the first reduction)
    let join_layer = |i: usize| -> usize { (0..=nl).find(|&l| k0 - sums[l] == degs[i]).unwrap() };
    // claimed opening of instance i
    for i in 0..instances.len() {
        let mut ops = clone_all(&openings);
        let b = r.gen_range(0..ops[i].batches.len());
        let j = r.gen_range(0..ops[i].batches[b].values.len());
        ops[i].batches[b].values[j] += rfe(r);
        let jl = join_layer(i);
        rec.push(if i == 0 { "claim_edit" } else { "claim_edit2" }, "fixed", json!({"instance": i, "join": jl, "last": jl == nl}), all_hit(), ver(&ops, &chal, &proof));
    }
    // a leaf value of the polynomial pi (instance of its degree class)
    {
        let rr = r.gen_range(0..q);
        let pi = r.gen_range(0..npolys);
        let mut p = proof.clone();
        p.query_round_proofs[rr].initial_trees_proof.evals_proofs[0].0[pi] += rf_nz(r);
        let inst = {
            let mut acc = 0;
            counts.iter().position(|&c| {
                acc += c;
                pi < acc
            }).unwrap()
        };
        rec.push(if inst == 0 { "leaf_edit" } else { "leaf_edit2" }, "fixed", json!({"poly": pi, "instance": inst, "round": rr, "path_len": k0 + rb - cap}), only(rr), ver(&openings, &chal, &p));
    }
    {
        let rr = r.gen_range(0..q);
        let mut p = proof.clone();
        let sib = &mut p.query_round_proofs[rr].initial_trees_proof.evals_proofs[0].1.siblings;
        if !sib.is_empty() {
            let s = r.gen_range(0..sib.len());
            sib[s].elements[r.gen_range(0..4)] += rf_nz(r);
            rec.push("init_path", "fixed", json!({"round": rr, "sibling": s}), only(rr), ver(&openings, &chal, &p));
        }
    }
    for l in 0..nl {
        let last = l + 1 == nl;
        let ab = bits[l];
        let rr = r.gen_range(0..q);
        if !proof.query_round_proofs[rr].steps[l].merkle_proof.siblings.is_empty() {
            let mut p = proof.clone();
            let sib = &mut p.query_round_proofs[rr].steps[l].merkle_proof.siblings;
            let s = r.gen_range(0..sib.len());
            sib[s].elements[r.gen_range(0..4)] += rf_nz(r);
            rec.push("layer_path", "fixed", json!({"layer": l, "last": last, "round": rr}), only(rr), ver(&openings, &chal, &p));
        }
        for slot_q in [true, false] {
            let rr = r.gen_range(0..q);
            let within = (idx[rr] >> sums[l]) & ((1 << ab) - 1);
            let m = if slot_q { within } else { (within + r.gen_range(1..(1usize << ab))) & ((1 << ab) - 1) };
            let mut p = proof.clone();
            p.query_round_proofs[rr].steps[l].evals[m] += rfe(r);
            let cls: Vec<&'static str> = (0..q).map(|i| if i != rr { "miss" } else if slot_q { "hitq" } else { "hits" }).collect();
            rec.push("coset_edit", "fixed", json!({"layer": l, "last": last, "round": rr, "path_len": proof.query_round_proofs[rr].steps[l].merkle_proof.siblings.len()}), cls, ver(&openings, &chal, &p));
        }
        // an entry of the cap of layer l that a query reads
        {
            let rr = r.gen_range(0..q);
            let pl = proof.query_round_proofs[rr].steps[l].merkle_proof.siblings.len();
            let ci = (idx[rr] >> sums[l + 1]) >> pl;
            let mut p = proof.clone();
            p.commit_phase_merkle_caps[l].0[ci].elements[r.gen_range(0..4)] += rf_nz(r);
            let cls: Vec<&'static str> = idx.iter().map(|&x| if (x >> sums[l + 1]) >> pl == ci { "hit" } else { "miss" }).collect();
            rec.push("layer_cap", "fixed", json!({"layer": l, "last": last, "cap_index": ci, "path_len": pl}), cls, ver(&openings, &chal, &p));
        }
    }
    {
        let mut p = proof.clone();
        p.final_poly.coeffs.push(FE::ZERO);
        rec.push("final_extend", "fixed", json!({"len": p.final_poly.len()}), all_hit(), ver(&openings, &chal, &p));
        let mut p = proof.clone();
        p.final_poly.coeffs.pop();
        rec.push("final_truncate", "fixed", json!({"len": p.final_poly.len()}), all_hit(), ver(&openings, &chal, &p));
    }
    // single query: sibling value of the last layer changed, final polynomial forged (see run_case)
    if nl > 0 && q == 1 {
        let l = nl - 1;
        let ab = bits[l];
        let n0 = k0 + rb;
        let cur = idx[0] >> sums[l];
        let within = cur & ((1 << ab) - 1);
        let m = (within + r.gen_range(1..(1usize << ab))) & ((1 << ab) - 1);
        let mut p = proof.clone();
        let x0 = F::MULTIPLICATIVE_GROUP_GENERATOR * F::primitive_root_of_unity(n0).exp_u64(rev_bits(idx[0], n0) as u64);
        let x = x0.exp_power_of_2(sums[l]);
        let old = plonky2::verif_exports::compute_evaluation::<F, D>(x, within, ab, &p.query_round_proofs[0].steps[l].evals, chal.fri_betas[l]);
        p.query_round_proofs[0].steps[l].evals[m] += rfe(r);
        let new = plonky2::verif_exports::compute_evaluation::<F, D>(x, within, ab, &p.query_round_proofs[0].steps[l].evals, chal.fri_betas[l]);
        // an instance joining after the last reduction multiplies the folded value by beta
        let joins_last = (1..degs.len()).any(|i| k0 - sums[nl] == degs[i]);
        let dlt = if joins_last { (new - old) * chal.fri_betas[l] } else { new - old };
        p.final_poly.coeffs[0] += dlt;
        let pl = p.query_round_proofs[0].steps[l].merkle_proof.siblings.len();
        rec.push("coset_forge", "fixed", json!({"layer": l, "last": true, "slot": m, "path_len": pl}), vec!["hits"], ver(&openings, &chal, &p));
    }
    // an entry of the cap of the batch oracle that a query reads
    {
        let rr = r.gen_range(0..q);
        let pl = k0 + rb - cap;
        let ci = idx[rr] >> pl;
        let mut c2 = cap0.clone();
        c2.0[ci].elements[r.gen_range(0..4)] += rf_nz(r);
        let cls: Vec<&'static str> = idx.iter().map(|&x| if x >> pl == ci { "hit" } else { "miss" }).collect();
        let v = match guarded(|| verify_batch_fri_proof::<F, C, D>(&degs, &instances, &openings, &chal, &[c2.clone()], &proof, &params)) {
            Ok(Ok(())) => Verdict::Accept,
            Ok(Err(e)) => Verdict::Reject(format!("{e}")),
            Err(m) => Verdict::Panic(m),
        };
        rec.push("init_cap", "fixed", json!({"cap_index": ci, "path_len": pl}), cls, v);
    }
    {
        let t = r.gen_range(0..proof.final_poly.len());
        let mut p = proof.clone();
        p.final_poly.coeffs[t] += rfe(r);
        rec.push("final_edit", "fixed", json!({"index": t}), all_hit(), ver(&openings, &chal, &p));
    }
    if pow > 0 {
        let mut c2 = clone_chal(&chal);
        c2.fri_pow_response = F::from_canonical_u64((1u64 << (64 - pow)) % P);
        rec.push("pow_bad", "fixed", json!({"zeros": pow - 1}), all_hit(), ver(&openings, &c2, &proof));
    }
    {
        let mut p = proof.clone();
        p.query_round_proofs.pop();
        rec.push("drop_round", "fixed", json!({}), all_hit(), ver(&openings, &chal, &p));
    }
    // Fiat-Shamir consistent: the verifier is told a wrong value of instance i (both transcripts)
    {
        let i = r.gen_range(0..instances.len());
        let mut ops = clone_all(&openings);
        ops[i].batches[0].values[0] += rfe(r);
        let mut c = Challenger::<F, H>::new();
        c.observe_cap(&cap0);
        for z in &points {
            c.observe_extension_element::<D>(z);
        }
        for o in &ops {
            c.observe_openings(o);
        }
        let cv = c.clone();
        let pr = guarded(|| {
            let mut cc = c.clone();
            BatchFriOracle::<F, C, D>::prove_openings(&degs, &instances, &[&oracle], &mut cc, &params, &mut TimingTree::default())
        });
        let v = match pr {
            Ok(p) => {
                let mut cc = cv.clone();
                let ch2 = cc.fri_challenges::<C, D>(&p.commit_phase_merkle_caps, &p.final_poly, p.pow_witness, k0, &params.config, None, None);
                ver(&ops, &ch2, &p)
            }
            Err(m) => Verdict::Panic(format!("prover: {m}")),
        };
        let jl = join_layer(i);
        rec.push("claim_wrong_consistent", "fs", json!({"instance": i, "join": jl, "last": jl == nl}), all_hit(), v);
    }
    // polynomials of 2^e times the allowed degree in every class (see run_case)
    for e in 1..=2usize {
        if rb < e {
            continue;
        }
        let res = guarded(|| {
            let mut values2 = vec![];
            for (d, &c) in degs.iter().zip(&counts) {
                for _ in 0..c {
                    values2.push(PolynomialValues::new((0..(1usize << (d + e))).map(|_| rf(r)).collect()));
                }
            }
            let oracle2 = BatchFriOracle::<F, C, D>::from_values(values2, rb - e, false, cap, &mut TimingTree::default(), &vec![None; npolys]);
            let ops2: Vec<FriOpenings<F, D>> = instances
                .iter()
                .map(|inst| FriOpenings {
                    batches: inst
                        .batches
                        .iter()
                        .map(|b| FriOpeningBatch { values: b.polynomials.iter().map(|p| oracle2.polynomials[p.polynomial_index].to_extension::<D>().eval(b.point)).collect() })
                        .collect(),
                })
                .collect();
            let cap2 = oracle2.batch_merkle_tree.cap.clone();
            let mut c = Challenger::<F, H>::new();
            c.observe_cap(&cap2);
            for z in &points {
                c.observe_extension_element::<D>(z);
            }
            for o in &ops2 {
                c.observe_openings(o);
            }
            let mut cv = c.clone();
            let mut cfg2 = params.config.clone();
            cfg2.rate_bits = rb - e;
            let params2 = FriParams { config: cfg2, hiding: false, degree_bits: k0 + e, reduction_arity_bits: bits.clone() };
            let degs2: Vec<usize> = degs.iter().map(|d| d + e).collect();
            let p = BatchFriOracle::<F, C, D>::prove_openings(&degs2, &instances, &[&oracle2], &mut c, &params2, &mut TimingTree::default());
            let ch2 = cv.fri_challenges::<C, D>(&p.commit_phase_merkle_caps, &p.final_poly, p.pow_witness, k0, &params.config, None, None);
            let v = match guarded(|| verify_batch_fri_proof::<F, C, D>(&degs, &instances, &ops2, &ch2, &[cap2.clone()], &p, &params)) {
                Ok(Ok(())) => Verdict::Accept,
                Ok(Err(er)) => Verdict::Reject(format!("{er}")),
                Err(m) => Verdict::Panic(m),
            };
            (p.final_poly.len(), v)
        });
        match res {
            Ok((len, v)) => rec.push("degree_scaled", "fs", json!({"e": e, "final_len": len, "final_len_params": params.final_poly_len()}), all_hit(), v),
            Err(m) => rec.push("degree_scaled", "fs", json!({"e": e}), all_hit(), Verdict::Panic(format!("prover: {m}"))),
        }
    }
    out["devs"] = Value::Array(rec.devs);
    out
}

fn batch_cmd(args: &[String]) -> Result<()> {
    let ncases = opt_usize(args, "--n", 100);
    let out = opt(args, "--out").ok_or_else(|| anyhow!("--out"))?;
    let mut log = NdJson::create(out)?;
    let r = rng(6);
    let only = opt(args, "--only").and_then(|s| s.parse::<usize>().ok());
    for id in 0..ncases {
        if only.map_or(false, |o| o != id) {
            continue;
        }
        let mut rc = r.clone();
        rc.set_stream(5000 + id as u64);
        let v = match guarded(|| batch_case(id, &mut rc)) {
            Ok(v) => v,
            Err(m) => json!({"case": id, "harness_panic": m}),
        };
        log.put(&v);
    }
    log.finish();
    emit(&json!({"kind": "c05-batch", "cases": ncases, "out": out}));
    Ok(())
}

fn main() -> std::process::ExitCode {
    let _ = log2_strict(1);
    vh::util::run_main(|cmd, rest| match cmd {
        "c05-params" => params_cmd(rest),
        "c05-fri" => fri_cmd(rest),
        "c05-batch" => batch_cmd(rest),
        other => Err(anyhow!("unknown command {other}")),
    })
}
