//! C13 — the optimised Poseidon routines against the textbook permutation, and hashing /
//! compression / challenger against the overwrite-mode sponge.
//!
//! * `perm-record`: layer-by-layer chains of a textbook implementation (plain u128 arithmetic,
//!   constants parsed from the SPEC snapshot spec/PoseidonConstants.tla, not from the code under
//!   test) plus the outputs of the real routines; validated by TLC (spec/PoseidonTrace.tla).
//! * `perm-bulk`: the TLC-validated textbook implementation as bulk oracle.
//! * `sponge-replay`: TLC-generated scenarios (op sequences + interned expected terms) on the real
//!   `Challenger`, `hash_no_pad`, `two_to_one`, `hash_or_noop`, `hash_pad`.
//! * `sponge-bulk`: random op sequences against an independent duplex sponge, all chunkings.
use plonky2::field::extension::quadratic::QuadraticExtension;
use plonky2::field::extension::FieldExtension;
use plonky2::field::types::{Field, Field64, PrimeField64};
use plonky2::hash::hash_types::{BytesHash, HashOut};
use plonky2::hash::hashing::PlonkyPermutation;
use plonky2::hash::keccak::{KeccakHash, KeccakPermutation};
use plonky2::hash::merkle_tree::MerkleCap;
use plonky2::hash::poseidon::{
    Poseidon, PoseidonHash, PoseidonPermutation, HALF_N_FULL_ROUNDS, N_PARTIAL_ROUNDS,
};
use plonky2::iop::challenger::Challenger;
use plonky2::plonk::config::Hasher;
use rand::Rng;
use serde_json::{json, Value};

use vh::util::*;

type St = [u64; 12];

// ---------------------------------------------------------------------------------------------
// constants from the specification snapshot
// ---------------------------------------------------------------------------------------------
pub struct Consts {
    rc: Vec<u64>,
    circ: [u64; 12],
    diag: [u64; 12],
    kats: Vec<(St, St)>,
}

fn nums_of(s: &str) -> Vec<u64> {
    let mut out = vec![];
    let mut cur: Option<u64> = None;
    for ch in s.chars() {
        if let Some(d) = ch.to_digit(10) {
            cur = Some(cur.unwrap_or(0) * 10 + d as u64);
        } else if let Some(v) = cur.take() {
            out.push(v);
        }
    }
    if let Some(v) = cur {
        out.push(v);
    }
    out
}

fn words_of_limbs(xs: &[u64]) -> Vec<u64> {
    xs.chunks(8).map(|c| c.iter().enumerate().fold(0u64, |a, (i, b)| a | (b << (8 * i)))).collect()
}

fn load_consts() -> anyhow::Result<Consts> {
    let path = std::env::var("VERIF_SPEC_CONSTS").unwrap_or_else(|_| "spec/PoseidonConstants.tla".into());
    let text = std::fs::read_to_string(&path).map_err(|e| anyhow::anyhow!("{path}: {e}"))?;
    let section = |name: &str| -> anyhow::Result<String> {
        let i = text.find(&format!("\n{name} ==")).ok_or_else(|| anyhow::anyhow!("no {name}"))?;
        let rest = &text[i + name.len() + 4..];
        // a definition ends at the next line that starts a new definition / comment / module end
        let mut end = rest.len();
        for (k, _) in rest.match_indices('\n') {
            let tail = &rest[k + 1..];
            if tail.starts_with(|c: char| c.is_ascii_alphabetic()) || tail.starts_with("\\*") || tail.starts_with("===") {
                end = k;
                break;
            }
        }
        Ok(rest[..end].to_string())
    };
    let rc = words_of_limbs(&nums_of(&section("RoundConstants")?));
    anyhow::ensure!(rc.len() == 360, "round constants: {}", rc.len());
    let circ: Vec<u64> = nums_of(&section("MdsCirc")?);
    let diag: Vec<u64> = nums_of(&section("MdsDiag")?);
    anyhow::ensure!(circ.len() == 12 && diag.len() == 12);
    let kw = words_of_limbs(&nums_of(&section("KnownAnswers")?));
    anyhow::ensure!(kw.len() == 96, "kats: {}", kw.len());
    let kats = (0..4)
        .map(|i| {
            let a: St = kw[24 * i..24 * i + 12].try_into().unwrap();
            let b: St = kw[24 * i + 12..24 * i + 24].try_into().unwrap();
            (a, b)
        })
        .collect();
    Ok(Consts { rc, circ: circ.try_into().unwrap(), diag: diag.try_into().unwrap(), kats })
}

// ---------------------------------------------------------------------------------------------
// textbook permutation: plain u128 arithmetic and %
// ---------------------------------------------------------------------------------------------
const PP: u128 = P as u128;

fn t_mul(a: u64, b: u64) -> u64 {
    ((a as u128 % PP) * (b as u128 % PP) % PP) as u64
}
fn t_pow7(x: u64) -> u64 {
    let x = (x as u128 % PP) as u64;
    let x2 = t_mul(x, x);
    let x3 = t_mul(x2, x);
    let x4 = t_mul(x2, x2);
    t_mul(x3, x4)
}
fn t_const(k: &Consts, r: usize, s: &St) -> St {
    let mut o = [0u64; 12];
    for i in 0..12 {
        o[i] = ((s[i] as u128 % PP + k.rc[12 * r + i] as u128) % PP) as u64;
    }
    o
}
fn t_sbox(full: bool, s: &St) -> St {
    let mut o = [0u64; 12];
    for i in 0..12 {
        o[i] = if full || i == 0 { t_pow7(s[i]) } else { (s[i] as u128 % PP) as u64 };
    }
    o
}
fn t_mds(k: &Consts, s: &St) -> St {
    let mut o = [0u64; 12];
    for r in 0..12 {
        let mut acc: u128 = 0;
        for i in 0..12 {
            acc = (acc + (k.circ[i] as u128) * (s[(i + r) % 12] as u128 % PP)) % PP;
        }
        acc = (acc + (k.diag[r] as u128) * (s[r] as u128 % PP)) % PP;
        o[r] = acc as u64;
    }
    o
}
fn is_full(r: usize) -> bool {
    r < 4 || r >= 26
}
/// all 90 intermediate states
fn t_layers(k: &Consts, input: &St) -> (Vec<St>, Vec<St>, Vec<St>) {
    let (mut cs, mut bs, mut ms) = (vec![], vec![], vec![]);
    let mut s = *input;
    for r in 0..30 {
        let c = t_const(k, r, &s);
        let b = t_sbox(is_full(r), &c);
        let m = t_mds(k, &b);
        cs.push(c);
        bs.push(b);
        ms.push(m);
        s = m;
    }
    (cs, bs, ms)
}
fn t_perm(k: &Consts, input: &St) -> St {
    let mut s = *input;
    for r in 0..30 {
        s = t_mds(k, &t_sbox(is_full(r), &t_const(k, r, &s)));
    }
    s
}

// ---------------------------------------------------------------------------------------------
// the real routines
// ---------------------------------------------------------------------------------------------
fn to_f(s: &St) -> [F; 12] {
    let mut o = [F::ZERO; 12];
    for i in 0..12 {
        o[i] = f(s[i]);
    }
    o
}
fn raw(s: &[F; 12]) -> St {
    let mut o = [0u64; 12];
    for i in 0..12 {
        o[i] = s[i].to_noncanonical_u64();
    }
    o
}
fn can(s: &St) -> St {
    let mut o = [0u64; 12];
    for i in 0..12 {
        o[i] = s[i] % P;
    }
    o
}
fn sv(s: &St) -> Value {
    Value::Array(s.iter().map(|x| limbs(*x)).collect())
}
fn svs(v: &[St]) -> Value {
    Value::Array(v.iter().map(sv).collect())
}

fn real_poseidon(s: &St) -> St {
    raw(&F::poseidon(to_f(s)))
}
fn real_naive(s: &St) -> St {
    raw(&F::poseidon_naive(to_f(s)))
}
fn real_permute(s: &St) -> St {
    let mut p = <PoseidonPermutation<F> as PlonkyPermutation<F>>::new(to_f(s));
    p.permute();
    let mut o = [0u64; 12];
    for (i, x) in p.as_ref().iter().enumerate() {
        o[i] = x.to_noncanonical_u64();
    }
    o
}
/// the permutation assembled from the `_field` variants exactly as the Poseidon gate evaluates it
fn real_field_variant(s: &St) -> St {
    let mut st = to_f(s);
    let mut ctr = 0;
    for _ in 0..HALF_N_FULL_ROUNDS {
        <F as Poseidon>::constant_layer_field::<F, 1>(&mut st, ctr);
        <F as Poseidon>::sbox_layer_field::<F, 1>(&mut st);
        st = <F as Poseidon>::mds_layer_field::<F, 1>(&st);
        ctr += 1;
    }
    <F as Poseidon>::partial_first_constant_layer::<F, 1>(&mut st);
    st = <F as Poseidon>::mds_partial_layer_init::<F, 1>(&st);
    for r in 0..N_PARTIAL_ROUNDS {
        st[0] = <F as Poseidon>::sbox_monomial::<F, 1>(st[0]);
        st[0] += F::from_canonical_u64(<F as Poseidon>::FAST_PARTIAL_ROUND_CONSTANTS[r]);
        st = <F as Poseidon>::mds_partial_layer_fast_field::<F, 1>(&st, r);
    }
    ctr += N_PARTIAL_ROUNDS;
    for _ in 0..HALF_N_FULL_ROUNDS {
        <F as Poseidon>::constant_layer_field::<F, 1>(&mut st, ctr);
        <F as Poseidon>::sbox_layer_field::<F, 1>(&mut st);
        st = <F as Poseidon>::mds_layer_field::<F, 1>(&st);
        ctr += 1;
    }
    raw(&st)
}

// ---------------------------------------------------------------------------------------------
// input patterns
// ---------------------------------------------------------------------------------------------
const M64: u64 = u64::MAX;
const EPS: u64 = 0xFFFF_FFFF;
const HI: u64 = 0xFFFF_FFFF_0000_0000;

/// boundary lane patterns: all-equal extremes, single-lane extremes, patterns that maximise the
/// u128/u160 accumulators and the signed frequency-domain blocks (lanes grouped mod 3 and mod 4,
/// low / high 32-bit halves saturated independently).
fn boundary_states() -> Vec<St> {
    let mut v: Vec<St> = vec![];
    let ext = [0u64, 1, P - 1, P, P + 1, M64, M64 - 1, EPS, EPS + 1, HI, HI - 1, 1 << 63, (1 << 63) - 1, P / 2, 0xFFFF_FFFE_FFFF_FFFF];
    for &e in &ext {
        v.push([e; 12]);
    }
    for &e in &[M64, P - 1, P, EPS, HI, 1] {
        for lane in 0..12 {
            let mut s = [0u64; 12];
            s[lane] = e;
            v.push(s);
            let mut s = [M64; 12];
            s[lane] = if e == M64 { 0 } else { e };
            v.push(s);
        }
    }
    // residue classes of the 3 x 4 split FFT: saturate one class, zero the rest (and inverse)
    for modulus in [2usize, 3, 4, 6] {
        for class in 0..modulus {
            for &(a, b) in &[(M64, 0u64), (EPS, 0), (HI, 0), (0, M64), (P - 1, 0), (HI, EPS), (EPS, HI), (M64, P)] {
                let mut s = [0u64; 12];
                for i in 0..12 {
                    s[i] = if i % modulus == class { a } else { b };
                }
                v.push(s);
            }
        }
    }
    // alternating signs in the real FFT butterflies: x0 - x2, x1 - x3 extremes
    for shift in 0..12 {
        let mut s = [0u64; 12];
        for i in 0..12 {
            s[(i + shift) % 12] = match i % 4 {
                0 => M64,
                1 => 0,
                2 => 0,
                _ => M64,
            };
        }
        v.push(s);
        let mut s = [0u64; 12];
        for i in 0..12 {
            s[(i + shift) % 12] = if (i / 3) % 2 == 0 { HI | EPS } else { 0 };
        }
        v.push(s);
    }
    v
}

fn random_state(r: &mut rand_chacha::ChaCha8Rng, t: usize) -> St {
    let bw = boundary_words();
    let mut s = [0u64; 12];
    for i in 0..12 {
        s[i] = match t % 5 {
            0 | 1 => r.gen(),
            2 => M64 - (r.gen::<u64>() >> 34),
            3 => bw[r.gen_range(0..bw.len())],
            _ => {
                if r.gen_bool(0.5) {
                    r.gen()
                } else {
                    bw[r.gen_range(0..bw.len())]
                }
            }
        };
    }
    s
}

// ---------------------------------------------------------------------------------------------
// perm-record
// ---------------------------------------------------------------------------------------------
fn record_one(log: &mut NdJson, k: &Consts, input: &St, kat: Option<usize>, deep: bool) {
    let (cs, bs, ms) = t_layers(k, input);
    log.put(&json!({"op": "ref", "in": sv(input), "c": svs(&cs), "b": svs(&bs), "m": svs(&ms)}));
    let idx = log.n; // 1-based line number of the chain
    if let Some(kk) = kat {
        log.put(&json!({"op": "kat", "ref": idx, "k": kk + 1}));
    }
    let mut real = |what: &str, layer: &str, at: usize, r: Result<St, String>| match r {
        Ok(o) => log.put(&json!({"op": "real", "what": what, "ref": idx, "layer": layer, "at": at, "out": sv(&o)})),
        Err(m) => log.put(&json!({"op": "panic", "what": what, "ref": idx, "msg": m})),
    };
    real("poseidon", "m", 30, guarded(|| real_poseidon(input)));
    real("poseidon_naive", "m", 30, guarded(|| real_naive(input)));
    real("PoseidonPermutation::permute", "m", 30, guarded(|| real_permute(input)));
    real("poseidon(field variants)", "m", 30, guarded(|| real_field_variant(input)));
    // sub-steps fed with the recorded (textbook) states
    real("full_rounds#1", "m", 4, guarded(|| {
        let mut st = to_f(input);
        let mut ctr = 0;
        F::full_rounds(&mut st, &mut ctr);
        raw(&st)
    }));
    real("partial_rounds", "m", 26, guarded(|| {
        let mut st = to_f(&ms[3]);
        let mut ctr = 4;
        F::partial_rounds(&mut st, &mut ctr);
        raw(&st)
    }));
    real("partial_rounds_naive", "m", 26, guarded(|| {
        let mut st = to_f(&ms[3]);
        let mut ctr = 4;
        F::partial_rounds_naive(&mut st, &mut ctr);
        raw(&st)
    }));
    real("full_rounds#2", "m", 30, guarded(|| {
        let mut st = to_f(&ms[25]);
        let mut ctr = 26;
        F::full_rounds(&mut st, &mut ctr);
        raw(&st)
    }));
    if deep {
        for r in [0usize, 3, 4, 15, 25, 26, 29] {
            let prev = if r == 0 { *input } else { ms[r - 1] };
            real("constant_layer", "c", r + 1, guarded(|| {
                let mut st = to_f(&prev);
                F::constant_layer(&mut st, r);
                raw(&st)
            }));
            if is_full(r) {
                real("sbox_layer", "b", r + 1, guarded(|| {
                    let mut st = to_f(&cs[r]);
                    F::sbox_layer(&mut st);
                    raw(&st)
                }));
            }
            real("mds_layer", "m", r + 1, guarded(|| raw(&F::mds_layer(&to_f(&bs[r])))));
        }
    }
}

fn record(args: &[String]) -> anyhow::Result<()> {
    let out = opt(args, "--out").ok_or_else(|| anyhow::anyhow!("--out"))?;
    let n = opt_usize(args, "--n", 40);
    let n_layers = opt_usize(args, "--layers", 150);
    let k = load_consts()?;
    let mut log = NdJson::create(out)?;
    let mut r = rng(13);
    let mut inputs: Vec<(St, Option<usize>)> = k.kats.iter().enumerate().map(|(i, kv)| (kv.0, Some(i))).collect();
    let bs = boundary_states();
    // the all-equal extremes first, then a seeded spread over the rest, then random
    for s in bs.iter().take(8) {
        inputs.push((*s, None));
    }
    let want_boundary = (n.saturating_sub(inputs.len())) * 2 / 3;
    let step = ((bs.len() - 8) / want_boundary.max(1)).max(1);
    let off = (seed() as usize) % step;
    for s in bs.iter().skip(8 + off).step_by(step) {
        if inputs.len() < 4 + 8 + want_boundary {
            inputs.push((*s, None));
        }
    }
    let mut t = 0;
    while inputs.len() < n {
        inputs.push((random_state(&mut r, t), None));
        t += 1;
    }
    let perms = inputs.len();
    for (i, (s, kat)) in inputs.iter().enumerate() {
        record_one(&mut log, &k, s, *kat, i % 4 == 0);
    }
    // single real layers on arbitrary (non-canonical) states, checked against the definition
    let mut lay = 0usize;
    let mut states: Vec<St> = bs.clone();
    for t in 0..n_layers {
        states.push(random_state(&mut r, t));
    }
    let stepl = (states.len() / n_layers.max(1)).max(1);
    for (j, s) in states.iter().enumerate() {
        if j % stepl != 0 && j >= 8 {
            continue;
        }
        match guarded(|| raw(&F::mds_layer(&to_f(s)))) {
            Ok(o) => log.put(&json!({"op": "mds", "in": sv(s), "out": sv(&o)})),
            Err(m) => log.put(&json!({"op": "panic", "what": "mds_layer", "in": sv(s), "msg": m})),
        }
        match guarded(|| raw(&<F as Poseidon>::mds_layer_field::<F, 1>(&to_f(s)))) {
            Ok(o) => log.put(&json!({"op": "mds", "what": "mds_layer_field", "in": sv(s), "out": sv(&o)})),
            Err(m) => log.put(&json!({"op": "panic", "what": "mds_layer_field", "in": sv(s), "msg": m})),
        }
        lay += 2;
        if j % 3 == 0 {
            match guarded(|| {
                let mut st = to_f(s);
                F::sbox_layer(&mut st);
                raw(&st)
            }) {
                Ok(o) => log.put(&json!({"op": "sbox", "in": sv(s), "out": sv(&o)})),
                Err(m) => log.put(&json!({"op": "panic", "what": "sbox_layer", "in": sv(s), "msg": m})),
            }
            let rr = (j * 7) % 30;
            match guarded(|| {
                let mut st = to_f(s);
                F::constant_layer(&mut st, rr);
                raw(&st)
            }) {
                Ok(o) => log.put(&json!({"op": "const", "r": rr, "in": sv(s), "out": sv(&o)})),
                Err(m) => log.put(&json!({"op": "panic", "what": "constant_layer", "in": sv(s), "msg": m})),
            }
            lay += 2;
        }
    }
    let (nfast, nchains) = carry_events(&mut log, &k, opt_usize(args, "--carry-layers", 48), opt_usize(args, "--carry-chains", 8));
    let events = log.finish();
    emit(&json!({"kind": "c13-perm-record", "events": events, "perms": perms + nchains, "layers": lay + nfast,
                 "carry_boundary_layers": nfast, "carry_boundary_chains": nchains, "out": out}));
    Ok(())
}

// ---------------------------------------------------------------------------------------------
// perm-bulk
// ---------------------------------------------------------------------------------------------
fn bulk(args: &[String]) -> anyhow::Result<()> {
    let n = opt_usize(args, "--n", 200_000);
    let threads = opt_usize(args, "--threads", 8);
    let k = load_consts()?;
    let bs = boundary_states();
    let bw = boundary_words();
    // deterministic input list: boundary states, pairs of boundary words over lanes, random
    let mut inputs: Vec<St> = bs.clone();
    for (i, &a) in bw.iter().enumerate() {
        for (j, &b) in bw.iter().enumerate() {
            if (i * 31 + j) % 7 == 0 {
                let mut s = [a; 12];
                for l in 0..12 {
                    if (l + i + j) % 3 == 0 {
                        s[l] = b;
                    }
                }
                inputs.push(s);
            }
        }
    }
    let fixed = inputs.len();
    let mut r = rng(131);
    for t in 0..n {
        inputs.push(random_state(&mut r, t));
    }
    let total = inputs.len();
    let chunk = (total + threads - 1) / threads;
    let kref = &k;
    let results: Vec<(u64, u64, Vec<Value>)> = std::thread::scope(|sc| {
        let hs: Vec<_> = inputs
            .chunks(chunk)
            .map(|part| {
                sc.spawn(move || {
                    let mut mism: Vec<Value> = vec![];
                    let mut cases = 0u64;
                    let mut noncanon = 0u64;
                    for (idx, s) in part.iter().enumerate() {
                        let want = t_perm(kref, s);
                        let got = guarded(|| {
                            let a = can(&real_poseidon(s));
                            let b = can(&real_permute(s));
                            let c = if idx % 8 == 0 { Some(can(&real_naive(s))) } else { None };
                            let d = if idx % 8 == 1 { Some(can(&real_field_variant(s))) } else { None };
                            (a, b, c, d)
                        });
                        cases += 1;
                        match got {
                            Ok((a, b, c, d)) => {
                                let mut bad = vec![];
                                if a != want {
                                    bad.push("poseidon");
                                }
                                if b != want {
                                    bad.push("PoseidonPermutation::permute");
                                }
                                if c.is_some() && c != Some(want) {
                                    bad.push("poseidon_naive");
                                }
                                if d.is_some() && d != Some(want) {
                                    bad.push("poseidon(field variants)");
                                }
                                if !bad.is_empty() && mism.len() < 10 {
                                    mism.push(json!({"routine": bad, "input": s.to_vec(), "got": a.to_vec(), "expected": want.to_vec()}));
                                }
                            }
                            Err(m) => {
                                if mism.len() < 10 {
                                    mism.push(json!({"routine": ["panic"], "input": s.to_vec(), "panic": m}));
                                }
                            }
                        }
                        // the same field elements in another representation give the same output
                        if idx % 4 == 0 {
                            let mut alt = *s;
                            let mut changed = false;
                            for i in 0..12 {
                                if alt[i] < EPS {
                                    alt[i] += P;
                                    changed = true;
                                } else if alt[i] >= P {
                                    alt[i] -= P;
                                    changed = true;
                                }
                            }
                            if changed {
                                noncanon += 1;
                                let g2 = guarded(|| can(&real_poseidon(&alt)));
                                if g2 != Ok(want) && mism.len() < 10 {
                                    mism.push(json!({"routine": ["poseidon/non-canonical representation"], "input": alt.to_vec(),
                                                     "canonical_input": can(s).to_vec(), "got": format!("{:?}", g2), "expected": want.to_vec()}));
                                }
                            }
                        }
                    }
                    (cases, noncanon, mism)
                })
            })
            .collect();
        hs.into_iter().map(|h| h.join().unwrap()).collect()
    });
    let mut mism = vec![];
    let (mut cases, mut noncanon) = (0u64, 0u64);
    for (c, nc, m) in results {
        cases += c;
        noncanon += nc;
        mism.extend(m);
    }
    mism.truncate(20);
    emit(&json!({"kind": "c13-perm-bulk", "cases": cases, "fixed_patterns": fixed, "noncanonical_pairs": noncanon, "mismatches": mism}));
    Ok(())
}

// ---------------------------------------------------------------------------------------------
// carry-boundary states of the 160-bit accumulator of `mds_partial_layer_fast`
// ---------------------------------------------------------------------------------------------
// Accumulation sites with delayed reduction in hash/poseidon.rs:
//   * mds_partial_layer_fast(state, r): d_sum: (u128, u32) += state[i] * W_HATS[r][i-1] (i = 1..11, in
//     this order), then += state[0] * (CIRC[0] + DIAG[0]); reduce_u160.  12 term positions per round,
//     22 rounds: the ONLY site whose low limb can wrap.
//   * mds_row_shf (u128 sum of 13 products with constants <= 41: < 2^73, cannot wrap), the
//     Goldilocks mds_layer (lo + hi << 32 in u128: < 2^73), mds_partial_layer_init (field
//     operations only): no wrap possible; they are covered by the lane patterns above.
// For random or saturated lanes the low limb is never *close* to 2^128 when a given term is added,
// so a carry that is lost only near the boundary is invisible to them.  The states below are
// constructed from the weights: partial sum before term j = k * 2^128 - rem with rem < 2^64, and
// term j just above / just below rem.
const TERMS: usize = 12;
fn term_lane(t: usize) -> usize {
    // term position t = 1..=12 -> lane
    if t <= 11 { t } else { 0 }
}
fn term_weights(r: usize) -> [u64; TERMS + 1] {
    let mut w = [0u64; TERMS + 1];
    for t in 1..=11 {
        w[t] = <F as Poseidon>::FAST_PARTIAL_ROUND_W_HATS[r][t - 1];
    }
    w[12] = <F as Poseidon>::MDS_MATRIX_CIRC[0] + <F as Poseidon>::MDS_MATRIX_DIAG[0];
    w
}
#[derive(Clone, Copy, Default)]
struct TermStep {
    carried: bool,
    near_carry: bool,    // carried, and the low limb was within 2^64 of wrapping before the term
    near_nocarry: bool,  // did not carry, and the low limb ended within 2^64 of wrapping
    tiny_carry: bool,    // carried, and the low limb ended below 2^64
}
/// the reference's own bookkeeping of the accumulator on RAW lane values
fn carry_profile(raw: &St, r: usize) -> [TermStep; TERMS + 1] {
    let w = term_weights(r);
    let mut out = [TermStep::default(); TERMS + 1];
    let mut lo: u128 = 0;
    let near: u128 = u128::MAX - (u64::MAX as u128);
    for t in 1..=TERMS {
        let y = raw[term_lane(t)] as u128 * w[t] as u128;
        let (res, over) = lo.overflowing_add(y);
        out[t] = TermStep {
            carried: over,
            near_carry: over && lo >= near,
            near_nocarry: !over && res >= near,
            tiny_carry: over && res <= u64::MAX as u128,
        };
        lo = res;
    }
    out
}
/// definition of the sparse layer on raw values (mod p)
fn t_fast_mds(s: &St, r: usize) -> St {
    let w = term_weights(r);
    let mut acc: u128 = 0;
    for t in 1..=TERMS {
        acc = (acc + (s[term_lane(t)] as u128 % PP) * (w[t] as u128 % PP)) % PP;
    }
    let mut o = [0u64; 12];
    o[0] = acc as u64;
    for i in 1..12 {
        let v = <F as Poseidon>::FAST_PARTIAL_ROUND_VS[r][i - 1] as u128 % PP;
        o[i] = ((s[i] as u128 % PP + (s[0] as u128 % PP) * v) % PP) as u64;
    }
    o
}
fn real_fast_mds(s: &St, r: usize) -> St {
    raw(&F::mds_partial_layer_fast(&to_f(s), r))
}

#[derive(Clone)]
struct Boundary {
    r: usize,
    j: usize,
    state: St,
    kind: &'static str,
    canonical: bool,
}

/// boundary states for term position j of round r.  `limit` = exclusive bound of lane values
/// (2^64 for raw calls, p for states that must be reachable inside a permutation).
fn gen_boundary(r: usize, j: usize, canonical: bool, rr: &mut rand_chacha::ChaCha8Rng, out: &mut Vec<Boundary>) {
    let w = term_weights(r);
    let limit: u128 = if canonical { PP } else { 1u128 << 64 };
    let lane_val = |rr: &mut rand_chacha::ChaCha8Rng, mode: usize| -> u64 {
        match mode {
            0 => 0,
            1 => (limit - 1) as u64,
            _ => (rr.gen::<u64>() as u128 % limit) as u64,
        }
    };
    let partial_lo = |st: &St, upto: usize| -> u128 {
        let mut lo: u128 = 0;
        for t in 1..upto {
            lo = lo.wrapping_add(st[term_lane(t)] as u128 * w[t] as u128);
        }
        lo
    };
    let mut push = |st: St, kind: &'static str, out: &mut Vec<Boundary>| out.push(Boundary { r, j, state: st, kind, canonical });
    let wj = w[j] as u128;
    let lj = term_lane(j);
    // mode A: two earlier terms a, b put the partial sum at k * 2^128 - rem, rem < w_b
    if j >= 3 {
        let mut found = 0;
        for attempt in 0..400 {
            if found >= 6 {
                break;
            }
            let a = 1 + (attempt % (j - 1));
            let mut b = 1 + ((attempt / (j - 1) + a) % (j - 1));
            if b == a {
                b = 1 + (b % (j - 1));
            }
            if b == a {
                continue;
            }
            let mut st = [0u64; 12];
            // other earlier and all later terms: zero / random
            let others = attempt % 3;
            for t in 1..=TERMS {
                if t != a && t != b && t != j {
                    st[term_lane(t)] = lane_val(rr, if others == 0 { 0 } else { 2 });
                }
            }
            st[term_lane(a)] = lane_val(rr, if attempt % 2 == 0 { 1 } else { 2 });
            st[term_lane(b)] = 0;
            st[lj] = 0;
            let x = partial_lo(&st, j);
            let num = x.wrapping_neg(); // (k * 2^128 - X) for the smallest k
            if num == 0 {
                continue;
            }
            let sb = num / w[b] as u128;
            if sb >= limit {
                continue;
            }
            let rem = num - sb * w[b] as u128;
            if rem == 0 {
                continue;
            }
            st[term_lane(b)] = sb as u64;
            let c = (rem + wj - 1) / wj;
            if c >= limit - 1 {
                continue;
            }
            found += 1;
            let mut v = st;
            v[lj] = c as u64;
            push(v, "A:just-carries", out);
            v[lj] = (c + 1) as u64;
            push(v, "A:carries+1", out);
            v[lj] = (limit - 1) as u64;
            push(v, "A:carries-max", out);
            v[lj] = lane_val(rr, 2).max(c as u64);
            push(v, "A:carries-random", out);
            v[lj] = (c - 1) as u64;
            push(v, "A:just-not", out);
        }
    }
    // mode B: term j itself lands the sum just above / just below a multiple of 2^128
    if j >= 2 && w[j] > (1 << 40) {
        let mut found = 0;
        for attempt in 0..400 {
            if found >= 3 {
                break;
            }
            let mut st = [0u64; 12];
            for t in 1..=TERMS {
                if t != j {
                    let before = t < j;
                    st[term_lane(t)] = lane_val(rr, if before { if attempt % 4 == 0 { 1 } else { 2 } } else { attempt % 3 });
                }
            }
            let x = partial_lo(&st, j);
            if x == 0 {
                continue;
            }
            let num = x.wrapping_neg();
            let c = (num + wj - 1) / wj;
            if c == 0 || c >= limit {
                continue;
            }
            found += 1;
            let mut v = st;
            v[lj] = c as u64;
            push(v, "B:just-carries", out);
            v[lj] = (c - 1) as u64;
            push(v, "B:just-not", out);
        }
    }
}

fn all_boundaries(canonical: bool, per_site_cap: usize) -> Vec<Boundary> {
    let mut rr = rng(1313 + canonical as u64);
    let mut v = vec![];
    for r in 0..N_PARTIAL_ROUNDS {
        for j in 2..=TERMS {
            let mut site = vec![];
            gen_boundary(r, j, canonical, &mut rr, &mut site);
            site.truncate(per_site_cap);
            v.extend(site);
        }
    }
    v
}

// ---- inversion (reference arithmetic) so that a boundary state occurs INSIDE a permutation ----
fn t_pow(a: u64, mut e: u64) -> u64 {
    let mut base = (a as u128 % PP) as u64;
    let mut acc = 1u64;
    while e > 0 {
        if e & 1 == 1 {
            acc = t_mul(acc, base);
        }
        base = t_mul(base, base);
        e >>= 1;
    }
    acc
}
fn t_inv(a: u64) -> u64 {
    t_pow(a, P - 2)
}
fn t_sub(a: u64, b: u64) -> u64 {
    ((a as u128 % PP + PP - b as u128 % PP) % PP) as u64
}
fn t_add(a: u64, b: u64) -> u64 {
    ((a as u128 % PP + b as u128 % PP) % PP) as u64
}
/// 7^-1 mod (p - 1)
fn inv7_exp() -> u64 {
    let m = (P - 1) as i128;
    let (mut old_r, mut rr) = (7i128, m);
    let (mut old_s, mut ss) = (1i128, 0i128);
    while rr != 0 {
        let q = old_r / rr;
        (old_r, rr) = (rr, old_r - q * rr);
        (old_s, ss) = (ss, old_s - q * ss);
    }
    assert_eq!(old_r, 1);
    (((old_s % m) + m) % m) as u64
}
fn mat_inv(m: &[Vec<u64>]) -> Vec<Vec<u64>> {
    let n = m.len();
    let mut a: Vec<Vec<u64>> = m.iter().map(|row| row.iter().map(|x| (*x as u128 % PP) as u64).collect()).collect();
    let mut inv: Vec<Vec<u64>> = (0..n).map(|i| (0..n).map(|j| (i == j) as u64).collect()).collect();
    for col in 0..n {
        let piv = (col..n).find(|&r| a[r][col] != 0).expect("singular matrix");
        a.swap(col, piv);
        inv.swap(col, piv);
        let d = t_inv(a[col][col]);
        for k in 0..n {
            a[col][k] = t_mul(a[col][k], d);
            inv[col][k] = t_mul(inv[col][k], d);
        }
        for r in 0..n {
            if r != col && a[r][col] != 0 {
                let f_ = a[r][col];
                for k in 0..n {
                    a[r][k] = t_sub(a[r][k], t_mul(f_, a[col][k]));
                    inv[r][k] = t_sub(inv[r][k], t_mul(f_, inv[col][k]));
                }
            }
        }
    }
    inv
}
struct Inverter {
    d7: u64,
    init_inv: Vec<Vec<u64>>, // inverse of the 11 x 11 initial matrix (row-vector convention)
    mds_inv: Vec<Vec<u64>>,  // inverse of the 12 x 12 MDS matrix (column-vector convention)
    fast_den_inv: Vec<u64>,  // (M00 - sum v_i w_i)^-1 per round
}
impl Inverter {
    fn new(k: &Consts) -> Self {
        let init: Vec<Vec<u64>> = (0..11).map(|r| (0..11).map(|c| <F as Poseidon>::FAST_PARTIAL_ROUND_INITIAL_MATRIX[r][c]).collect()).collect();
        let mds: Vec<Vec<u64>> = (0..12).map(|r| (0..12).map(|c| k.circ[(c + 12 - r) % 12] + if r == c { k.diag[r] } else { 0 }).collect()).collect();
        let fast_den_inv = (0..N_PARTIAL_ROUNDS)
            .map(|r| {
                let w = term_weights(r);
                let mut den = w[12] % P;
                for i in 1..12 {
                    den = t_sub(den, t_mul(<F as Poseidon>::FAST_PARTIAL_ROUND_VS[r][i - 1], w[i]));
                }
                t_inv(den)
            })
            .collect();
        Self { d7: inv7_exp(), init_inv: mat_inv(&init), mds_inv: mat_inv(&mds), fast_den_inv }
    }
    /// input of `partial_rounds` such that the state handed to mds_partial_layer_fast(_, r) is `target`
    fn partial_input(&self, target: &St, r: usize) -> St {
        let mut cur = can(target);
        for i in (0..=r).rev() {
            cur[0] = t_pow(t_sub(cur[0], <F as Poseidon>::FAST_PARTIAL_ROUND_CONSTANTS[i]), self.d7);
            if i > 0 {
                // invert mds_partial_layer_fast(_, i - 1)
                let w = term_weights(i - 1);
                let mut num = cur[0];
                for l in 1..12 {
                    num = t_sub(num, t_mul(cur[l], w[l]));
                }
                let s0 = t_mul(num, self.fast_den_inv[i - 1]);
                let mut prev = [0u64; 12];
                prev[0] = s0;
                for l in 1..12 {
                    prev[l] = t_sub(cur[l], t_mul(s0, <F as Poseidon>::FAST_PARTIAL_ROUND_VS[i - 1][l - 1]));
                }
                cur = prev;
            }
        }
        // invert mds_partial_layer_init: res[c] = sum_r in[r] * INIT[r-1][c-1]
        let mut prev = [0u64; 12];
        prev[0] = cur[0];
        for r_ in 1..12 {
            let mut acc = 0u64;
            for c in 1..12 {
                acc = t_add(acc, t_mul(cur[c], self.init_inv[c - 1][r_ - 1]));
            }
            prev[r_] = acc;
        }
        for i in 0..12 {
            prev[i] = t_sub(prev[i], <F as Poseidon>::FAST_PARTIAL_FIRST_ROUND_CONSTANT[i]);
        }
        prev
    }
    /// permutation input whose state after the first four (textbook) full rounds is `mid`
    fn perm_input(&self, k: &Consts, mid: &St) -> St {
        let mut cur = can(mid);
        for r in (0..4).rev() {
            let mut pre = [0u64; 12];
            for i in 0..12 {
                let mut acc = 0u64;
                for c in 0..12 {
                    acc = t_add(acc, t_mul(self.mds_inv[i][c], cur[c]));
                }
                pre[i] = t_sub(t_pow(acc, self.d7), k.rc[12 * r + i]);
            }
            cur = pre;
        }
        cur
    }
}
/// `partial_rounds` re-assembled from the real trait methods, returning the RAW state handed to
/// mds_partial_layer_fast in round r (what the accumulator really sees)
fn real_state_before_fast(mid: &St, r: usize) -> St {
    let mut st = to_f(mid);
    <F as Poseidon>::partial_first_constant_layer::<F, 1>(&mut st);
    st = <F as Poseidon>::mds_partial_layer_init::<F, 1>(&st);
    for i in 0..=r {
        st[0] = <F as Poseidon>::sbox_monomial::<F, 1>(st[0]);
        st[0] = unsafe { st[0].add_canonical_u64(<F as Poseidon>::FAST_PARTIAL_ROUND_CONSTANTS[i]) };
        if i == r {
            break;
        }
        st = F::mds_partial_layer_fast(&st, i);
    }
    raw(&st)
}

/// events for TLC: a handful of real sparse layers on boundary states, and textbook chains of
/// permutations that pass through a boundary state
fn carry_events(log: &mut NdJson, k: &Consts, n_fast: usize, n_chains: usize) -> (usize, usize) {
    let bs = all_boundaries(false, 12);
    let step = (bs.len() / n_fast.max(1)).max(1);
    let off = seed() as usize % step;
    let mut nf = 0;
    for b in bs.iter().skip(off).step_by(step).take(n_fast) {
        let w = term_weights(b.r);
        let mut wt = vec![limbs(w[12])];
        for t in 1..12 {
            wt.push(limbs(w[t]));
        }
        let v: Vec<Value> = (0..11).map(|i| limbs(<F as Poseidon>::FAST_PARTIAL_ROUND_VS[b.r][i])).collect();
        match guarded(|| real_fast_mds(&b.state, b.r)) {
            Ok(o) => log.put(&json!({"op": "fastmds", "what": "mds_partial_layer_fast", "r": b.r, "term": b.j, "kind": b.kind,
                                      "in": sv(&b.state), "out": sv(&o), "wt": wt, "v": v})),
            Err(m) => log.put(&json!({"op": "panic", "what": "mds_partial_layer_fast", "in": sv(&b.state), "msg": m})),
        }
        nf += 1;
    }
    let inv = Inverter::new(k);
    let cs = all_boundaries(true, 12);
    let cs: Vec<&Boundary> = cs.iter().filter(|b| b.kind == "A:just-carries" || b.kind == "B:just-carries").collect();
    let step = (cs.len() / n_chains.max(1)).max(1);
    let mut nc = 0;
    for b in cs.iter().skip(off % step).step_by(step).take(n_chains) {
        let mid = inv.partial_input(&b.state, b.r);
        let input = inv.perm_input(k, &mid);
        record_one(log, k, &input, None, false);
        nc += 1;
    }
    (nf, nc)
}

/// `carry-boundary`: all boundary states through the real routines against the reference, with the
/// vacuity guard (reference bookkeeping: which sites really carry near the boundary)
fn carry_boundary(_args: &[String]) -> anyhow::Result<()> {
    let k = load_consts()?;
    let inv = Inverter::new(&k);
    let mut mism: Vec<Value> = vec![];
    let mut cases = 0u64;
    // coverage[r][j] bit flags: 1 near-carry, 2 near-no-carry, 4 tiny carry (direct); 8 / 16 inside a permutation
    let mut cov = vec![[0u8; TERMS + 1]; N_PARTIAL_ROUNDS];
    // (a) direct calls, raw (possibly non-canonical) lanes
    let direct = all_boundaries(false, 64);
    let feas = |r: usize, j: usize| -> (bool, bool) {
        // in units of 2^64: the largest reachable sum of the first j-1 / j terms is about sum(w_t) * 2^64
        let w = term_weights(r);
        let prev: u128 = (1..j).map(|t| w[t] as u128).sum();
        let upto: u128 = prev + w[j] as u128;
        let need: u128 = (1u128 << 64) + (1u128 << 62);
        (prev >= need, upto >= need)
    };
    for b in &direct {
        let prof = carry_profile(&b.state, b.r);
        let ts = prof[b.j];
        cov[b.r][b.j] |= (ts.near_carry as u8) | ((ts.near_nocarry as u8) << 1) | ((ts.tiny_carry as u8) << 2);
        cases += 1;
        let want = t_fast_mds(&b.state, b.r);
        match guarded(|| can(&real_fast_mds(&b.state, b.r))) {
            Ok(got) if got == want => {}
            other => {
                if mism.len() < 20 {
                    mism.push(json!({"routine": "mds_partial_layer_fast", "round": b.r, "term": b.j, "kind": b.kind,
                                     "input": b.state.to_vec(), "got": format!("{:?}", other), "expected": want.to_vec()}));
                }
            }
        }
    }
    // (b) inside partial_rounds / poseidon: canonical boundary states, earlier rounds inverted
    let inside = all_boundaries(true, 64);
    let mut inside_hit = 0u64;
    for b in &inside {
        let mid = inv.partial_input(&b.state, b.r);
        let input = inv.perm_input(&k, &mid);
        // what the accumulator really sees in the real run
        let seen = real_state_before_fast(&mid, b.r);
        let ts = carry_profile(&seen, b.r)[b.j];
        if can(&seen) == can(&b.state) {
            inside_hit += 1;
        }
        cov[b.r][b.j] |= ((ts.near_carry as u8) << 3) | ((ts.near_nocarry as u8) << 4);
        cases += 1;
        let layers = t_layers(&k, &input);
        let want_mid = layers.2[3];
        let want_after = layers.2[25];
        let want_out = layers.2[29];
        let res = guarded(|| {
            let mut st = to_f(&mid);
            let mut ctr = 4;
            F::partial_rounds(&mut st, &mut ctr);
            let mut sn = to_f(&mid);
            let mut ctr2 = 4;
            F::partial_rounds_naive(&mut sn, &mut ctr2);
            (can(&raw(&st)), can(&raw(&sn)), can(&real_poseidon(&input)), can(&real_permute(&input)))
        });
        let mut bad = vec![];
        if want_mid != can(&mid) {
            bad.push("harness inversion (reference disagrees with itself)");
        }
        match &res {
            Ok((pr, prn, pos, perm)) => {
                if *pr != want_after {
                    bad.push("partial_rounds");
                }
                if *prn != want_after {
                    bad.push("partial_rounds_naive");
                }
                if *pos != want_out {
                    bad.push("poseidon");
                }
                if *perm != want_out {
                    bad.push("PoseidonPermutation::permute");
                }
            }
            Err(_) => bad.push("panic"),
        }
        if !bad.is_empty() && mism.len() < 20 {
            mism.push(json!({"routine": bad, "round": b.r, "term": b.j, "kind": b.kind, "input": input.to_vec(),
                             "state_before_partial_rounds": mid.to_vec(), "boundary_state": b.state.to_vec(),
                             "got": format!("{:?}", res), "expected": want_out.to_vec()}));
        }
    }
    // vacuity guard.  A site (round r, term j) can carry at all only if the first j terms can reach 2^128, and
    // its low limb can sit within 2^64 of wrapping BEFORE term j only if the first j-1 terms can; sites below
    // these thresholds are unreachable for any input (reported, not required).
    let mut uncovered = vec![];
    let (mut unreachable, mut first_carry_only, mut full) = (0, 0, 0);
    for r in 0..N_PARTIAL_ROUNDS {
        for j in 2..=TERMS {
            let c = cov[r][j];
            let (near_ok, carry_ok) = feas(r, j);
            let mut miss = vec![];
            if !carry_ok {
                unreachable += 1;
            } else {
                if c & 4 == 0 { miss.push("direct carry with tiny result"); }
                if near_ok {
                    full += 1;
                    if c & 1 == 0 { miss.push("direct near-carry"); }
                    if c & 2 == 0 { miss.push("direct near-no-carry"); }
                    if c & 8 == 0 { miss.push("in-permutation near-carry"); }
                } else {
                    first_carry_only += 1;
                }
            }
            if !miss.is_empty() {
                uncovered.push(json!({"round": r, "term": j, "missing": miss}));
            }
        }
    }
    // "does not carry although within 2^64 of wrapping" inside a permutation depends on the raw representation the
    // real code happens to hold (a small lane may be stored as x + p): required per term position, in some round
    for j in 2..=TERMS {
        if !(0..N_PARTIAL_ROUNDS).any(|r| cov[r][j] & 16 != 0) {
            uncovered.push(json!({"term": j, "missing": ["in-permutation near-no-carry in any round"]}));
        }
    }
    emit(&json!({"kind": "c13-carry-boundary", "cases": cases, "direct_states": direct.len(), "in_permutation_states": inside.len(),
                 "in_permutation_exact_hits": inside_hit, "sites": N_PARTIAL_ROUNDS * (TERMS - 1),
                 "sites_fully_covered_required": full, "sites_first_carry_only": first_carry_only, "sites_unreachable": unreachable,
                 "uncovered": uncovered, "mismatches": mism}));
    Ok(())
}

// ---------------------------------------------------------------------------------------------
// sponge part
// ---------------------------------------------------------------------------------------------
type E2 = QuadraticExtension<F>;
type PermFn<'a> = &'a dyn Fn(&St) -> St;

fn keccak_perm(s: &St) -> St {
    let mut p = <KeccakPermutation<F> as PlonkyPermutation<F>>::new(s.iter().map(|x| f(*x)));
    p.permute();
    let mut o = [0u64; 12];
    for (i, x) in p.as_ref().iter().enumerate() {
        o[i] = x.to_canonical_u64();
    }
    o
}

/// Independent overwrite-mode duplex sponge (absorb on demand), written against the property:
/// challenge = f(flat history).  Validated against the TLA+ terms on every TLC scenario.
struct RefSponge<'a> {
    st: St,
    pend: Vec<u64>,
    avail: Vec<u64>,
    perm: PermFn<'a>,
}
impl<'a> RefSponge<'a> {
    fn new(perm: PermFn<'a>) -> Self {
        Self { st: [0; 12], pend: vec![], avail: vec![], perm }
    }
    fn absorb(&mut self, x: u64) {
        self.pend.push(x % P);
        self.avail.clear();
    }
    fn flush(&mut self) {
        if self.pend.is_empty() {
            self.st = (self.perm)(&self.st);
        } else {
            let pend = std::mem::take(&mut self.pend);
            for ch in pend.chunks(8) {
                for (i, x) in ch.iter().enumerate() {
                    self.st[i] = *x;
                }
                self.st = (self.perm)(&self.st);
            }
        }
        // delivery order: last rate lane first
        self.avail = (0..8).map(|k| self.st[7 - k]).collect();
    }
    fn squeeze(&mut self) -> u64 {
        if !self.pend.is_empty() || self.avail.is_empty() {
            self.flush();
        }
        self.avail.remove(0)
    }
    fn compact(&mut self) -> St {
        if !self.pend.is_empty() {
            self.flush();
        }
        self.avail.clear();
        self.st
    }
}
fn ref_hash_n_to_m(perm: PermFn, xs: &[u64], m: usize) -> Vec<u64> {
    let mut st = [0u64; 12];
    for ch in xs.chunks(8) {
        for (i, x) in ch.iter().enumerate() {
            st[i] = *x % P;
        }
        st = perm(&st);
    }
    let mut out = vec![];
    loop {
        for i in 0..8 {
            out.push(st[i]);
            if out.len() == m {
                return out;
            }
        }
        st = perm(&st);
    }
}

/// evaluate an interned term table with concrete atom values
struct TermEval {
    vals: Vec<St>,
    atoms: Vec<u64>,
}
impl TermEval {
    fn term(&self, t: u64) -> u64 {
        if t == 0 {
            0
        } else if t == 99 {
            1
        } else if t < 99 {
            self.atoms[(t - 1) as usize] % P
        } else {
            let n = ((t - 100) / 12) as usize;
            let i = ((t - 100) % 12) as usize;
            self.vals[n][i]
        }
    }
    fn new(tbl: &[Vec<u64>], atoms: &[u64], perm: PermFn) -> Self {
        let mut ev = TermEval { vals: vec![], atoms: atoms.to_vec() };
        for row in tbl {
            let mut s = [0u64; 12];
            for i in 0..12 {
                s[i] = ev.term(row[i]);
            }
            ev.vals.push(perm(&s));
        }
        ev
    }
    /// the rate lanes of the call a term belongs to (for drift classification)
    fn rate_lanes_of(&self, t: u64) -> Vec<u64> {
        if t >= 100 {
            self.vals[((t - 100) / 12) as usize][..8].to_vec()
        } else {
            vec![]
        }
    }
}

fn u64s(v: &Value) -> Vec<u64> {
    v.as_array().map(|a| a.iter().map(|x| x.as_u64().unwrap_or(0)).collect()).unwrap_or_default()
}
fn i64s(v: &Value) -> Vec<i64> {
    v.as_array().map(|a| a.iter().map(|x| x.as_i64().unwrap_or(0)).collect()).unwrap_or_default()
}

/// Run a flat op sequence (atom index > 0 = observe, 0 = get_challenge, -1 = compact) on the real
/// challenger with chunking variant `variant`.
fn run_real<H: Hasher<F>>(ops: &[i64], atoms: &[u64], variant: usize, salt: u64) -> Result<(Vec<u64>, Vec<St>), String> {
    let ops = ops.to_vec();
    let atoms = atoms.to_vec();
    guarded(move || {
        let mut r = rng(1300 + salt);
        let mut ch = Challenger::<F, H>::new();
        let mut outs = vec![];
        let mut comps = vec![];
        let mut i = 0;
        while i < ops.len() {
            if ops[i] > 0 {
                let mut j = i;
                while j < ops.len() && ops[j] > 0 {
                    j += 1;
                }
                let xs: Vec<F> = ops[i..j].iter().map(|a| f(atoms[(*a - 1) as usize])).collect();
                observe_run::<H>(&mut ch, &xs, variant, &mut r);
                i = j;
            } else if ops[i] == 0 {
                let mut j = i;
                while j < ops.len() && ops[j] == 0 {
                    j += 1;
                }
                squeeze_run::<H>(&mut ch, j - i, variant, &mut r, &mut outs);
                i = j;
            } else {
                let p = ch.compact();
                let mut s = [0u64; 12];
                for (k, x) in p.as_ref().iter().enumerate() {
                    s[k] = x.to_canonical_u64();
                }
                comps.push(s);
                i += 1;
            }
        }
        (outs, comps)
    })
}

fn observe_run<H: Hasher<F>>(ch: &mut Challenger<F, H>, xs: &[F], variant: usize, r: &mut rand_chacha::ChaCha8Rng) {
    match variant {
        0 => {
            for x in xs {
                ch.observe_element(*x);
            }
        }
        1 => ch.observe_elements(xs),
        2 => {
            // random splits into observe_elements calls (possibly empty ones)
            let mut i = 0;
            while i < xs.len() {
                let k = r.gen_range(0..=(xs.len() - i).min(11));
                ch.observe_elements(&xs[i..i + k]);
                i += k;
            }
        }
        _ => {
            // typed entry points: caps (8 / 4 elements), hashes (4), extension elements (2), singles
            let mut i = 0;
            while i < xs.len() {
                let left = xs.len() - i;
                let pick = r.gen_range(0..6);
                if pick == 0 && left >= 8 {
                    let cap = MerkleCap::<F, PoseidonHash>(vec![
                        HashOut { elements: xs[i..i + 4].try_into().unwrap() },
                        HashOut { elements: xs[i + 4..i + 8].try_into().unwrap() },
                    ]);
                    ch.observe_cap::<PoseidonHash>(&cap);
                    i += 8;
                } else if pick <= 1 && left >= 4 {
                    ch.observe_hash::<PoseidonHash>(HashOut { elements: xs[i..i + 4].try_into().unwrap() });
                    i += 4;
                } else if pick == 2 && left >= 4 {
                    let es = [E2::from_basefield_array([xs[i], xs[i + 1]]), E2::from_basefield_array([xs[i + 2], xs[i + 3]])];
                    ch.observe_extension_elements::<2>(&es);
                    i += 4;
                } else if pick <= 3 && left >= 2 {
                    ch.observe_extension_element::<2>(&E2::from_basefield_array([xs[i], xs[i + 1]]));
                    i += 2;
                } else if pick == 4 {
                    let k = r.gen_range(1..=left.min(9));
                    ch.observe_elements(&xs[i..i + k]);
                    i += k;
                } else {
                    ch.observe_element(xs[i]);
                    i += 1;
                }
            }
        }
    }
}

fn squeeze_run<H: Hasher<F>>(ch: &mut Challenger<F, H>, n: usize, variant: usize, r: &mut rand_chacha::ChaCha8Rng, outs: &mut Vec<u64>) {
    match variant {
        0 => {
            for _ in 0..n {
                outs.push(ch.get_challenge().to_canonical_u64());
            }
        }
        1 => outs.extend(ch.get_n_challenges(n).iter().map(|x| x.to_canonical_u64())),
        _ => {
            let mut left = n;
            while left > 0 {
                let pick = r.gen_range(0..5);
                if pick == 0 && left >= 4 {
                    outs.extend(ch.get_hash().elements.iter().map(|x| x.to_canonical_u64()));
                    left -= 4;
                } else if pick == 1 && left >= 2 {
                    let e: E2 = ch.get_extension_challenge::<2>();
                    let arr: [F; 2] = <E2 as FieldExtension<2>>::to_basefield_array(&e);
                    outs.extend(arr.iter().map(|x| x.to_canonical_u64()));
                    left -= 2;
                } else if pick == 2 && left >= 4 {
                    let k = r.gen_range(1..=left / 2);
                    let es: Vec<E2> = ch.get_n_extension_challenges::<2>(k);
                    for e in es {
                        let arr: [F; 2] = <E2 as FieldExtension<2>>::to_basefield_array(&e);
                        outs.extend(arr.iter().map(|x| x.to_canonical_u64()));
                    }
                    left -= 2 * k;
                } else if pick == 3 {
                    let k = r.gen_range(0..=left);
                    outs.extend(ch.get_n_challenges(k).iter().map(|x| x.to_canonical_u64()));
                    left -= k;
                } else {
                    outs.push(ch.get_challenge().to_canonical_u64());
                    left -= 1;
                }
            }
        }
    }
}

const NVARIANTS: usize = 5; // 0 singles, 1 bulk, 2 random splits, 3/4 typed entry points (two seeds)

/// concrete atom values: variant 0 random canonical, 1 boundary, 2 non-canonical representations
fn atom_values(n: usize, kind: usize, salt: u64) -> Vec<u64> {
    let mut r = rng(1350 + salt * 3 + kind as u64);
    let bnd = [0u64, 1, P - 1, P - 2, EPS, EPS + 1, HI, 1 << 63, 2, P / 2];
    (0..n)
        .map(|i| match kind {
            0 => r.gen::<u64>() % P,
            1 => bnd[(i + salt as usize) % bnd.len()],
            _ => {
                // a representation >= P where one exists (values below 2^32 - 1), else random
                let v = if i % 2 == 0 { r.gen::<u64>() % EPS } else { [0u64, 1, EPS - 1][i % 3] };
                v + P
            }
        })
        .collect()
}

#[derive(Default)]
struct Tally {
    scenarios: u64,
    runs: u64,
    challenges: u64,
    violations: Vec<Value>,
    drift: Vec<Value>,
    refsponge_bad: Vec<Value>,
    nontrivial: std::collections::HashSet<String>,
}
impl Tally {
    fn viol(&mut self, v: Value) {
        if self.violations.len() < 20 {
            self.violations.push(v);
        }
    }
}

fn replay_challenger<H: Hasher<F>>(hname: &str, sc: &Value, perm: PermFn, idx: usize, t: &mut Tally) {
    let ops = i64s(&sc["ops"]);
    let outs_t = u64s(&sc["outs"]);
    let comps_t: Vec<Vec<u64>> = sc["comps"].as_array().map(|a| a.iter().map(u64s).collect()).unwrap_or_default();
    let tbl: Vec<Vec<u64>> = sc["tbl"].as_array().map(|a| a.iter().map(u64s).collect()).unwrap_or_default();
    let natoms = ops.iter().copied().max().unwrap_or(0).max(0) as usize;
    for kind in 0..3 {
        let atoms = atom_values(natoms.max(1), kind, idx as u64);
        let ev = TermEval::new(&tbl, &atoms, perm);
        let want: Vec<u64> = outs_t.iter().map(|x| ev.term(*x)).collect();
        let want_c: Vec<St> = comps_t
            .iter()
            .map(|c| {
                let mut s = [0u64; 12];
                for i in 0..12 {
                    s[i] = ev.term(c[i]);
                }
                s
            })
            .collect();
        // the harness's independent sponge against the specification's terms
        let mut rs = RefSponge::new(perm);
        let (mut ro, mut rc) = (vec![], vec![]);
        for &o in &ops {
            if o > 0 {
                rs.absorb(atoms[(o - 1) as usize]);
            } else if o == 0 {
                ro.push(rs.squeeze());
            } else {
                rc.push(rs.compact());
            }
        }
        if (ro != want || rc != want_c) && t.refsponge_bad.len() < 5 {
            t.refsponge_bad.push(json!({"scenario": idx, "hasher": hname, "ref": ro, "spec": want}));
        }
        let mut first: Option<(Vec<u64>, Vec<St>)> = None;
        for variant in 0..NVARIANTS {
            t.runs += 1;
            match run_real::<H>(&ops, &atoms, variant.min(3), (idx * 16 + variant) as u64) {
                Err(m) => t.viol(json!({"key": format!("sponge/{hname}/panic"), "scenario": sc, "atoms": atoms, "variant": variant, "panic": m})),
                Ok((outs, comps)) => {
                    t.challenges += outs.len() as u64;
                    if outs.len() != want.len() || comps.len() != want_c.len() {
                        t.viol(json!({"key": format!("sponge/{hname}/count"), "scenario": sc, "variant": variant, "got": outs.len(), "expected": want.len()}));
                        continue;
                    }
                    for j in 0..outs.len() {
                        if outs[j] != want[j] {
                            let lanes = ev.rate_lanes_of(outs_t[j]);
                            if lanes.contains(&outs[j]) {
                                if t.drift.len() < 5 {
                                    t.drift.push(json!({"what": "challenge delivered from another rate lane than the specification's order",
                                                        "hasher": hname, "scenario": idx, "challenge": j}));
                                }
                            } else {
                                t.viol(json!({"key": format!("sponge/{hname}/challenge"), "scenario": sc, "atoms": atoms, "variant": variant,
                                              "challenge_index": j, "got": outs[j], "expected": want[j]}));
                            }
                            break;
                        }
                    }
                    for j in 0..comps.len() {
                        if comps[j] != want_c[j] {
                            t.viol(json!({"key": format!("sponge/{hname}/compact"), "scenario": sc, "atoms": atoms, "variant": variant,
                                          "compact_index": j, "got": comps[j].to_vec(), "expected": want_c[j].to_vec()}));
                            break;
                        }
                    }
                    match &first {
                        None => first = Some((outs, comps)),
                        Some((o0, c0)) => {
                            if *o0 != outs || *c0 != comps {
                                t.viol(json!({"key": format!("sponge/{hname}/chunking"), "scenario": sc, "atoms": atoms, "variant": variant,
                                              "got": outs, "variant0": o0}));
                            }
                        }
                    }
                }
            }
        }
    }
    t.nontrivial.insert(format!("{hname}:{:?}", ops));
}

fn replay_hash(sc: &Value, idx: usize, t: &mut Tally) {
    let kind = sc["kind"].as_str().unwrap_or("");
    let n = sc["n"].as_u64().unwrap_or(0) as usize;
    let tbl: Vec<Vec<u64>> = sc["tbl"].as_array().map(|a| a.iter().map(u64s).collect()).unwrap_or_default();
    let out_t = u64s(&sc["out"]);
    let pos: PermFn = &|s| t_perm(consts(), s);
    let kec: PermFn = &keccak_perm;
    for vk in 0..3 {
        let atoms = atom_values(n.max(8), vk, idx as u64 + 77);
        let xs: Vec<F> = atoms[..n].iter().map(|x| f(*x)).collect();
        let xs_raw: Vec<u64> = atoms[..n].to_vec();
        for (hname, perm) in [("poseidon", pos), ("keccak", kec)] {
            let ev = TermEval::new(&tbl, &atoms, perm);
            let want: Vec<u64> = out_t.iter().map(|x| ev.term(*x)).collect();
            t.runs += 1;
            let got: Result<Vec<Vec<u64>>, String> = match (kind, hname) {
                ("hash_n_to_m", "poseidon") => {
                    let m = sc["m"].as_u64().unwrap() as usize;
                    let xs2 = xs.clone();
                    guarded(move || {
                        let mut v = vec![plonky2::hash::hashing::hash_n_to_m_no_pad::<F, PoseidonPermutation<F>>(&xs2, m)
                            .iter().map(|x| x.to_canonical_u64()).collect::<Vec<_>>()];
                        if m == 4 {
                            v.push(<PoseidonHash as Hasher<F>>::hash_no_pad(&xs2).elements.iter().map(|x| x.to_canonical_u64()).collect());
                            v.push(plonky2::hash::hashing::hash_n_to_hash_no_pad::<F, PoseidonPermutation<F>>(&xs2).elements.iter().map(|x| x.to_canonical_u64()).collect());
                        }
                        v
                    })
                }
                ("hash_n_to_m", _) => {
                    let m = sc["m"].as_u64().unwrap() as usize;
                    let xs2 = xs.clone();
                    guarded(move || vec![plonky2::hash::hashing::hash_n_to_m_no_pad::<F, KeccakPermutation<F>>(&xs2, m)
                        .iter().map(|x| x.to_canonical_u64()).collect::<Vec<_>>()])
                }
                ("two_to_one", _) => {
                    let l = HashOut { elements: [xs[0], xs[1], xs[2], xs[3]] };
                    let r = HashOut { elements: [xs[4], xs[5], xs[6], xs[7]] };
                    if hname == "poseidon" {
                        guarded(move || vec![
                            <PoseidonHash as Hasher<F>>::two_to_one(l, r).elements.iter().map(|x| x.to_canonical_u64()).collect(),
                            plonky2::hash::hashing::compress::<F, PoseidonPermutation<F>>(l, r).elements.iter().map(|x| x.to_canonical_u64()).collect(),
                        ])
                    } else {
                        guarded(move || vec![plonky2::hash::hashing::compress::<F, KeccakPermutation<F>>(l, r).elements.iter().map(|x| x.to_canonical_u64()).collect()])
                    }
                }
                ("hash_or_noop", "poseidon") => {
                    let xs2 = xs.clone();
                    guarded(move || vec![<PoseidonHash as Hasher<F>>::hash_or_noop(&xs2).elements.iter().map(|x| x.to_canonical_u64()).collect()])
                }
                ("hash_pad", "poseidon") => {
                    let xs2 = xs.clone();
                    guarded(move || vec![<PoseidonHash as Hasher<F>>::hash_pad(&xs2).elements.iter().map(|x| x.to_canonical_u64()).collect()])
                }
                _ => Ok(vec![]),
            };
            match got {
                Err(m) => t.viol(json!({"key": format!("hash/{kind}/{hname}/panic"), "scenario": sc, "atoms": atoms, "panic": m})),
                Ok(vs) => {
                    for (which, v) in vs.iter().enumerate() {
                        t.challenges += v.len() as u64;
                        if *v != want {
                            t.viol(json!({"key": format!("hash/{kind}/{hname}"), "scenario": sc, "atoms": xs_raw, "entry_point": which,
                                          "got": v, "expected": want}));
                        }
                    }
                }
            }
            // the harness's reference hash against the specification's terms
            if kind == "hash_n_to_m" {
                let m = sc["m"].as_u64().unwrap() as usize;
                if ref_hash_n_to_m(perm, &xs_raw, m) != want && t.refsponge_bad.len() < 5 {
                    t.refsponge_bad.push(json!({"scenario": idx, "kind": kind, "hasher": hname}));
                }
            }
        }
        // Keccak hasher: hash_pad / hash_or_noop are the trait's default bodies over hash_no_pad
        // (Keccak-256 of the serialised elements - not a sponge over the permutation; structure only)
        if kind == "hash_pad" {
            let padded: Vec<F> = u64s(&sc["padded"]).iter().map(|tm| f(if *tm == 0 { 0 } else if *tm == 99 { 1 } else { atoms[(*tm - 1) as usize] })).collect();
            let xs2 = xs.clone();
            let r = guarded(move || {
                (<KeccakHash<25> as Hasher<F>>::hash_pad(&xs2), <KeccakHash<25> as Hasher<F>>::hash_no_pad(&padded))
            });
            match r {
                Ok((a, b)) if a == b => {}
                other => t.viol(json!({"key": "hash/hash_pad/keccak", "scenario": sc, "atoms": xs_raw, "got": format!("{:?}", other)})),
            }
        }
        if kind == "hash_or_noop" {
            let xs2 = xs.clone();
            let xs3 = xs_raw.clone();
            let r = guarded(move || {
                let got: BytesHash<25> = <KeccakHash<25> as Hasher<F>>::hash_or_noop(&xs2);
                let want: BytesHash<25> = if xs2.len() * 8 <= 25 {
                    let mut b = [0u8; 25];
                    for (i, x) in xs3.iter().enumerate() {
                        b[8 * i..8 * i + 8].copy_from_slice(&(x % P).to_le_bytes());
                    }
                    BytesHash(b)
                } else {
                    <KeccakHash<25> as Hasher<F>>::hash_no_pad(&xs2)
                };
                got == want
            });
            if r != Ok(true) {
                t.viol(json!({"key": "hash/hash_or_noop/keccak", "scenario": sc, "atoms": xs_raw, "got": format!("{:?}", r)}));
            }
        }
    }
    t.nontrivial.insert(format!("{kind}:{n}:{}", sc["m"]));
}

static CONSTS: std::sync::OnceLock<Consts> = std::sync::OnceLock::new();
fn consts() -> &'static Consts {
    CONSTS.get().expect("constants loaded")
}

fn tally_out(kind: &str, t: Tally) {
    emit(&json!({"kind": kind, "scenarios": t.scenarios, "runs": t.runs, "challenges": t.challenges,
                 "nontrivial": t.nontrivial.len(), "violations": t.violations, "drift": t.drift,
                 "refsponge_mismatch": t.refsponge_bad}));
}

/// `sponge-replay --scen file.ndjson`
fn sponge_replay(args: &[String]) -> anyhow::Result<()> {
    let path = opt(args, "--scen").ok_or_else(|| anyhow::anyhow!("--scen"))?;
    CONSTS.set(load_consts()?).ok();
    let text = std::fs::read_to_string(path)?;
    let mut t = Tally::default();
    let pos: PermFn = &|s| t_perm(consts(), s);
    let kec: PermFn = &keccak_perm;
    for (idx, line) in text.lines().enumerate() {
        if line.trim().is_empty() {
            continue;
        }
        let sc: Value = serde_json::from_str(line)?;
        t.scenarios += 1;
        if sc["kind"] == "challenger" {
            replay_challenger::<PoseidonHash>("poseidon", &sc, pos, idx, &mut t);
            replay_challenger::<KeccakHash<25>>("keccak", &sc, kec, idx, &mut t);
        } else {
            replay_hash(&sc, idx, &mut t);
        }
    }
    tally_out("c13-sponge-replay", t);
    Ok(())
}

/// `sponge-bulk --n N`: long random op sequences, the (TLC-scenario-validated) RefSponge as oracle
fn sponge_bulk(args: &[String]) -> anyhow::Result<()> {
    let n = opt_usize(args, "--n", 2000);
    CONSTS.set(load_consts()?).ok();
    let mut t = Tally::default();
    let pos: PermFn = &|s| t_perm(consts(), s);
    let kec: PermFn = &keccak_perm;
    let mut r = rng(139);
    for idx in 0..n {
        let len = r.gen_range(1..120usize);
        let natoms = 40usize;
        let p_obs = [0.3, 0.6, 0.85, 0.95][idx % 4];
        let ops: Vec<i64> = (0..len)
            .map(|_| {
                if r.gen_bool(p_obs) {
                    r.gen_range(1..=natoms as i64)
                } else if r.gen_bool(0.9) {
                    0
                } else {
                    -1
                }
            })
            .collect();
        let atoms = atom_values(natoms, idx % 3, idx as u64 + 5000);
        t.scenarios += 1;
        for (hname, perm) in [("poseidon", pos), ("keccak", kec)] {
            if hname == "keccak" && idx % 4 != 0 {
                continue;
            }
            let mut rs = RefSponge::new(perm);
            let (mut want, mut want_c) = (vec![], vec![]);
            for &o in &ops {
                if o > 0 {
                    rs.absorb(atoms[(o - 1) as usize]);
                } else if o == 0 {
                    want.push(rs.squeeze());
                } else {
                    want_c.push(rs.compact());
                }
            }
            for variant in 0..NVARIANTS {
                t.runs += 1;
                let res = if hname == "poseidon" {
                    run_real::<PoseidonHash>(&ops, &atoms, variant.min(3), (idx * 16 + variant) as u64)
                } else {
                    run_real::<KeccakHash<25>>(&ops, &atoms, variant.min(3), (idx * 16 + variant) as u64)
                };
                match res {
                    Err(m) => t.viol(json!({"key": format!("sponge/{hname}/panic"), "ops": ops, "atoms": atoms, "variant": variant, "panic": m})),
                    Ok((outs, comps)) => {
                        t.challenges += outs.len() as u64;
                        if outs != want || comps != want_c {
                            let mut sorted_ok = false;
                            if outs.len() == want.len() && comps == want_c {
                                let (mut a, mut b) = (outs.clone(), want.clone());
                                a.sort_unstable();
                                b.sort_unstable();
                                sorted_ok = a == b;
                            }
                            if sorted_ok {
                                if t.drift.len() < 5 {
                                    t.drift.push(json!({"what": "same challenges in another order", "hasher": hname, "ops": ops}));
                                }
                            } else {
                                t.viol(json!({"key": format!("sponge/{hname}/bulk"), "ops": ops, "atoms": atoms, "variant": variant,
                                              "got": outs, "expected": want}));
                            }
                        }
                    }
                }
            }
        }
        t.nontrivial.insert(format!("{:?}", ops));
    }
    tally_out("c13-sponge-bulk", t);
    Ok(())
}

fn main() -> std::process::ExitCode {
    vh::util::run_main(|cmd, rest| match cmd {
        "perm-record" => record(rest),
        "perm-bulk" => bulk(rest),
        "carry-boundary" => carry_boundary(rest),
        "sponge-replay" => sponge_replay(rest),
        "sponge-bulk" => sponge_bulk(rest),
        other => Err(anyhow::anyhow!("unknown command {other}")),
    })
}
