//! C03 — accepted proofs are bound to every element and to their circuit.
//!
//!   run --fams N --values V [--threads T] [--untampered]
//! For accepted proofs of N circuit families (every one with >= 50 bits of binding) serde_json
//! reflection enumerates EVERY numeric leaf (field element, digest limb, index) of
//! `ProofWithPublicInputs` and `CompressedProofWithPublicInputs`; each is replaced by V of
//! {v+1, 0, p-1, random}; every JSON array gets {drop last, empty, duplicate last}; every proof is
//! paired with every other circuit's verifier data.  Each mutated value that still deserialises to
//! a proof different from the valid one is verified under catch_unwind.
#[path = "../c03c18_kit.rs"]
mod kit;

use std::collections::BTreeMap;

use anyhow::{anyhow, Result};
use kit::*;
use plonky2::plonk::circuit_data::VerifierCircuitData;
use plonky2::plonk::plonk_common::salt_size;
use rand::Rng;
use serde::Deserialize;
use serde_json::{json, Value};
use vh::util::*;

fn err_class(o: &Outcome) -> &'static str {
    match o {
        Outcome::Ok => "ACCEPTED",
        Outcome::Panic { .. } => "panic",
        Outcome::Err(e) => {
            if e.contains("proof of work") {
                "pow"
            } else if e.contains("Merkle") {
                "merkle"
            } else if e.contains("vanishing_polys_zeta") {
                "vanishing"
            } else if e.contains("old_eval") {
                "consistency"
            } else if e.contains("Final polynomial") {
                "final"
            } else if e.contains("query rounds") {
                "rounds"
            } else if e.contains("public inputs") {
                "pis"
            } else if e.contains("Condition failed") {
                "shape"
            } else {
                "other"
            }
        }
    }
}

/// model component (spec/PlonkIOP.tla) of a numeric leaf
fn model_component(p: &Path, hiding: bool, j: &Value) -> String {
    let c = component_of(p);
    if let Some(n) = c.strip_prefix("openings.") {
        let m = match n {
            "constants" => "op.constants",
            "plonk_sigmas" => "op.sigmas",
            "wires" => "op.wires",
            "plonk_zs" => "op.zs",
            "plonk_zs_next" => "op.zs_next",
            "partial_products" => "op.pp",
            "quotient_polys" => "op.quot",
            "lookup_zs" => "op.lzs",
            "lookup_zs_next" => "op.lzs_next",
            _ => n,
        };
        return m.to_string();
    }
    match c.as_str() {
        "plonk_zs_partial_products_cap" => "zs_cap".into(),
        "quotient_polys_cap" => "quot_cap".into(),
        "commit_caps" => "commit_cap".into(),
        "init_path" => "path".into(),
        "step_evals" => "evals".into(),
        "step_path" => "lpath".into(),
        "init_leaf" => {
            // ... evals_proofs [o] [0] [k]: the last salt_size elements of a blinded oracle are salt
            let n = p.len();
            if n >= 3 && hiding {
                if let (Seg::I(k), Seg::I(0), Seg::I(o)) = (&p[n - 1], &p[n - 2], &p[n - 3]) {
                    let leaf_len = at(j, &p[..n - 1]).and_then(|v| v.as_array()).map(|a| a.len()).unwrap_or(0);
                    if *o >= 1 && *k + salt_size(true) >= leaf_len {
                        return "salt".into();
                    }
                }
            }
            "leaf".into()
        }
        _ => c,
    }
}

/// model list (spec/PlonkIOP.tla `Lists`) of a JSON array, or "fixed" for arrays whose length is
/// part of the element type (extension elements, digests, the (leaf, path) pair)
fn model_list(p: &Path, j: &Value) -> String {
    let last_key = p.iter().rev().find_map(|s| if let Seg::K(k) = s { Some(k.as_str()) } else { None }).unwrap_or("");
    let ends_with_key = matches!(p.last(), Some(Seg::K(_)));
    let arr_len = at(j, p).and_then(|v| v.as_array()).map(|a| a.len()).unwrap_or(0);
    let _ = arr_len;
    match last_key {
        "elements" => "fixed".into(),
        "public_inputs" => "public_inputs".into(),
        "wires_cap" if ends_with_key => "wires_cap".into(),
        "plonk_zs_partial_products_cap" if ends_with_key => "zs_cap".into(),
        "quotient_polys_cap" if ends_with_key => "quot_cap".into(),
        "commit_phase_merkle_caps" => {
            if ends_with_key {
                "commit_caps".into()
            } else {
                "commit_cap".into()
            }
        }
        "coeffs" => {
            if ends_with_key {
                "final_poly".into()
            } else {
                "fixed".into()
            }
        }
        "indices" => "indices".into(),
        "query_round_proofs" if ends_with_key => "rounds".into(),
        "siblings" => {
            if !ends_with_key {
                "fixed".into()
            } else if p.iter().any(|s| *s == Seg::K("steps".into())) {
                "lpath".into()
            } else {
                "path".into()
            }
        }
        "steps" => {
            if ends_with_key {
                "steps".into()
            } else {
                "fixed".into()
            }
        }
        "evals" => {
            if ends_with_key {
                "evals".into()
            } else {
                "fixed".into()
            }
        }
        "evals_proofs" => {
            // evals_proofs            -> oracles
            // evals_proofs[o]         -> fixed (the pair)
            // evals_proofs[o][0]      -> leaf
            let depth = p.iter().rev().take_while(|s| matches!(s, Seg::I(_))).count();
            match depth {
                0 => "oracles".into(),
                1 => "fixed".into(),
                _ => "leaf".into(),
            }
        }
        k => {
            if ends_with_key && (k.starts_with("plonk_") || ["constants", "wires", "partial_products", "quotient_polys", "lookup_zs", "lookup_zs_next"].contains(&k)) {
                let mut q = p.clone();
                q.push(Seg::I(0));
                model_component(&q, false, j)
            } else {
                "fixed".into()
            }
        }
    }
}

#[derive(Default, Clone)]
struct Stat {
    cases: usize,
    nontrivial: usize,
    classes: BTreeMap<String, usize>,
}

#[derive(Default)]
struct FamReport {
    stats: BTreeMap<String, Stat>, // key: "<form>|<action>|<component>"
    accepted: Vec<Value>,
    evaluations: usize,
    nontrivial: usize,
    positions: usize,
    total_positions: usize,
}

impl FamReport {
    fn record(&mut self, form: &str, action: &str, comp: &str, class: &str, nontrivial: bool) {
        let st = self.stats.entry(format!("{form}|{action}|{comp}")).or_default();
        st.cases += 1;
        if nontrivial {
            st.nontrivial += 1;
            *st.classes.entry(class.to_string()).or_default() += 1;
        }
    }
    fn merge(&mut self, o: FamReport) {
        for (k, s) in o.stats {
            let e = self.stats.entry(k).or_default();
            e.cases += s.cases;
            e.nontrivial += s.nontrivial;
            for (c, n) in s.classes {
                *e.classes.entry(c).or_default() += n;
            }
        }
        self.accepted.extend(o.accepted);
        self.evaluations += o.evaluations;
        self.nontrivial += o.nontrivial;
        self.positions += o.positions;
    }
}

/// verify one mutated JSON value; returns (class, nontrivial)
fn check_value(fam: &Family, compressed: bool, j: &Value) -> (String, bool, Outcome) {
    if compressed {
        match CPW::deserialize(j) {
            Err(_) => ("not-a-proof-value".into(), false, Outcome::Err("deserialize".into())),
            Ok(p) => {
                if p == fam.cproof {
                    return ("same".into(), false, Outcome::Ok);
                }
                let o = run_guard(|| fam.data.verify_compressed(p)).0;
                (err_class(&o).into(), true, o)
            }
        }
    } else {
        match PW::deserialize(j) {
            Err(_) => ("not-a-proof-value".into(), false, Outcome::Err("deserialize".into())),
            Ok(p) => {
                if p == fam.proof {
                    return ("same".into(), false, Outcome::Ok);
                }
                let o = run_guard(|| fam.data.verify(p)).0;
                (err_class(&o).into(), true, o)
            }
        }
    }
}

fn value_pass(fam: &Family, compressed: bool, base: &Value, leaves: &[Path], nvalues: usize, untampered: bool, stream: u64) -> FamReport {
    let mut rep = FamReport::default();
    let mut j = base.clone();
    let mut r = rng(stream);
    let form = if compressed { "compressed" } else { "plain" };
    for lp in leaves {
        let old = at(&j, lp).and_then(|v| v.as_u64()).unwrap_or(0);
        let comp = model_component(lp, fam.data.common.fri_params.hiding, base);
        rep.positions += 1;
        let cands = [old.wrapping_add(1) % P, 0, P - 1, rand_field(&mut r)];
        for (vi, &nv0) in cands.iter().take(nvalues).enumerate() {
            // `indices` hold positions, not field elements: flip the low bit / zero / max / random position
            let nv = if comp == "indices" { [old ^ 1, 0, u32::MAX as u64, r.gen_range(0..1u64 << 20)][vi] } else { nv0 };
            let nv = if untampered { old } else { nv };
            if nv == old && !untampered {
                rep.record(form, "replace", &comp, "same", false);
                continue;
            }
            *at_mut(&mut j, lp).unwrap() = json!(nv);
            let (class, nontrivial, o) = check_value(fam, compressed, &j);
            rep.evaluations += 1;
            // self-test mode: an untouched value is reported as a (deliberately wrong) mutation
            let nontrivial = nontrivial || untampered;
            let class = if untampered && class == "same" { "ACCEPTED".to_string() } else { class };
            if nontrivial {
                rep.nontrivial += 1;
            }
            rep.record(form, "replace", &comp, &class, nontrivial);
            if class == "ACCEPTED" && comp != "indices" && rep.accepted.len() < 12 {
                rep.accepted.push(json!({"fam": fam.name, "form": form, "action": "replace", "comp": comp, "path": path_str(lp), "old": old, "new": nv, "obs": o.to_json()}));
            }
        }
        *at_mut(&mut j, lp).unwrap() = json!(old);
    }
    rep
}

fn list_pass(fam: &Family, compressed: bool, base: &Value, arrays: &[Path]) -> FamReport {
    let mut rep = FamReport::default();
    let form = if compressed { "compressed" } else { "plain" };
    let mut j = base.clone();
    for ap in arrays {
        let comp = model_list(ap, base);
        let orig = at(&j, ap).cloned().unwrap();
        let arr = orig.as_array().unwrap();
        rep.positions += 1;
        for action in ["droplast", "empty", "duplast", "appendzero", "appendzeros"] {
            let mut a = arr.clone();
            match action {
                "appendzero" | "appendzeros" => {
                    // a zero element of the shape of the list's elements (field element or extension element):
                    // an unpadded hash of the list does not see trailing zeros, only a length check does
                    let zero = match a.last() {
                        Some(Value::Number(_)) => json!(0u64),
                        Some(Value::Array(e)) if e.iter().all(|x| x.is_number()) => Value::Array(vec![json!(0u64); e.len()]),
                        _ => {
                            if comp == "public_inputs" { json!(0u64) } else {
                                rep.record(form, action, &comp, "same", false);
                                continue;
                            }
                        }
                    };
                    let k = if action == "appendzero" { 1 } else { 8usize.saturating_sub(a.len() % 8).max(2) };
                    for _ in 0..k {
                        a.push(zero.clone());
                    }
                }
                "droplast" => {
                    if a.pop().is_none() {
                        rep.record(form, action, &comp, "same", false);
                        continue;
                    }
                }
                "empty" => {
                    if a.is_empty() {
                        rep.record(form, action, &comp, "same", false);
                        continue;
                    }
                    a.clear();
                }
                _ => {
                    let Some(l) = a.last().cloned() else {
                        rep.record(form, action, &comp, "same", false);
                        continue;
                    };
                    a.push(l);
                }
            }
            *at_mut(&mut j, ap).unwrap() = Value::Array(a);
            let (class, nontrivial, o) = check_value(fam, compressed, &j);
            rep.evaluations += 1;
            if nontrivial {
                rep.nontrivial += 1;
            }
            rep.record(form, action, &comp, &class, nontrivial);
            if class == "ACCEPTED" && comp != "indices" && rep.accepted.len() < 40 {
                rep.accepted.push(json!({"fam": fam.name, "form": form, "action": action, "comp": comp, "path": path_str(ap), "obs": o.to_json()}));
            }
        }
        *at_mut(&mut j, ap).unwrap() = orig;
    }
    rep
}

/// the maps of a compressed proof are JSON objects: drop an entry, empty, add a surplus entry
fn map_pass(fam: &Family, base: &Value) -> FamReport {
    let mut rep = FamReport::default();
    let root = parse_path("proof.opening_proof.query_round_proofs");
    let mut targets: Vec<(Path, &str)> = vec![];
    let mut p = root.clone();
    p.push(Seg::K("initial_trees_proofs".into()));
    targets.push((p, "initial_map"));
    let nsteps = at(base, &root).and_then(|v| v.get("steps")).and_then(|v| v.as_array()).map(|a| a.len()).unwrap_or(0);
    for l in 0..nsteps {
        let mut p = root.clone();
        p.extend([Seg::K("steps".into()), Seg::I(l)]);
        targets.push((p, "step_map"));
    }
    let mut j = base.clone();
    for (mp, comp) in targets {
        let orig = at(&j, &mp).cloned().unwrap();
        let m = orig.as_object().unwrap();
        if m.is_empty() {
            continue;
        }
        rep.positions += 1;
        for action in ["droplast", "empty", "duplast"] {
            let mut mm = m.clone();
            let mut keys: Vec<u64> = mm.keys().filter_map(|k| k.parse().ok()).collect();
            keys.sort_unstable();
            let last = *keys.last().unwrap();
            match action {
                "droplast" => {
                    mm.remove(&last.to_string());
                }
                "empty" => mm.clear(),
                _ => {
                    // a surplus entry under a key that no query uses
                    let v = mm[&last.to_string()].clone();
                    let mut nk = last + 1;
                    while mm.contains_key(&nk.to_string()) {
                        nk += 1;
                    }
                    mm.insert(nk.to_string(), v);
                }
            }
            *at_mut(&mut j, &mp).unwrap() = Value::Object(mm);
            let (class, nontrivial, o) = check_value(fam, true, &j);
            rep.evaluations += 1;
            if nontrivial {
                rep.nontrivial += 1;
            }
            rep.record("compressed", action, comp, &class, nontrivial);
            if class == "ACCEPTED" && rep.accepted.len() < 10 {
                rep.accepted.push(json!({"fam": fam.name, "form": "compressed", "action": action, "comp": comp, "path": path_str(&mp), "obs": o.to_json()}));
            }
        }
        *at_mut(&mut j, &mp).unwrap() = orig;
    }
    rep
}

fn run(args: &[String]) -> Result<()> {
    let nf = opt_usize(args, "--fams", 6);
    let nvalues = opt_usize(args, "--values", 2).clamp(1, 4);
    let threads = opt_usize(args, "--threads", 12).max(1);
    let untampered = args.iter().any(|a| a == "--untampered");
    let stride = opt_usize(args, "--stride", 1).max(1);
    // evaluations per (family, form) spent on the bulk components (query-round leaves, paths, coset values);
    // 0 = every position
    let bulk_budget = opt_usize(args, "--bulk-budget", 0);
    let t0 = std::time::Instant::now();
    let fams = families(nf)?;
    eprintln!("[c03] {} families built in {:?}", fams.len(), t0.elapsed());
    for fam in &fams {
        let bits = binding_bits(&fam.data.common.config);
        if bits < 50 {
            return Err(anyhow!("family {} has only {bits} bits of binding", fam.name));
        }
    }
    for (fi, fam) in fams.iter().enumerate() {
        let tf = std::time::Instant::now();
        let mut total = FamReport::default();
        for compressed in [false, true] {
            let base = if compressed { serde_json::to_value(&fam.cproof)? } else { serde_json::to_value(&fam.proof)? };
            let (mut leaves, mut arrays) = (vec![], vec![]);
            walk(&base, &mut vec![], &mut leaves, &mut arrays);
            if stride > 1 {
                leaves = leaves.into_iter().step_by(stride).collect();
            }
            let total_positions = leaves.len();
            if bulk_budget > 0 {
                let hiding = fam.data.common.fri_params.hiding;
                let is_bulk = |p: &Path| matches!(model_component(p, hiding, &base).as_str(), "leaf" | "salt" | "path" | "evals" | "lpath");
                let nbulk = leaves.iter().filter(|p| is_bulk(p)).count();
                let st = (nbulk * nvalues).div_ceil(bulk_budget).max(1);
                let off = (seed() as usize + fi) % st;
                let mut k = 0usize;
                leaves.retain(|p| {
                    if !is_bulk(p) {
                        return true;
                    }
                    k += 1;
                    (k + off) % st == 0
                });
            }
            total.total_positions += total_positions;
            if untampered {
                leaves.truncate(40);
                arrays.clear();
            }
            let chunk = leaves.len().div_ceil(threads).max(1);
            let parts: Vec<FamReport> = std::thread::scope(|s| {
                let hs: Vec<_> = leaves
                    .chunks(chunk)
                    .enumerate()
                    .map(|(ci, part)| {
                        let base = &base;
                        s.spawn(move || value_pass(fam, compressed, base, part, nvalues, untampered, 300 + (fi * 64 + ci) as u64))
                    })
                    .collect();
                let achunk = arrays.len().div_ceil(threads).max(1);
                let hs2: Vec<_> = arrays
                    .chunks(achunk)
                    .map(|part| {
                        let base = &base;
                        s.spawn(move || list_pass(fam, compressed, base, part))
                    })
                    .collect();
                hs.into_iter().chain(hs2).map(|h| h.join().expect("worker")).collect()
            });
            for p in parts {
                total.merge(p);
            }
            if compressed && !untampered {
                total.merge(map_pass(fam, &base));
            }
        }
        let stats: BTreeMap<String, Value> = total.stats.iter().map(|(k, s)| (k.clone(), json!({"cases": s.cases, "nontrivial": s.nontrivial, "classes": s.classes}))).collect();
        emit(&json!({"kind": "family", "fam": fam.name, "degree_bits": fam.data.common.degree_bits(), "binding_bits": binding_bits(&fam.data.common.config),
            "zk": fam.data.common.fri_params.hiding, "lookups": fam.data.common.num_lookup_polys > 0,
            "layers": fam.data.common.fri_params.reduction_arity_bits.len(),
            "positions": total.positions, "leaf_positions_total": total.total_positions, "evaluations": total.evaluations, "nontrivial": total.nontrivial,
            "stats": stats, "accepted": total.accepted, "elapsed_ms": tf.elapsed().as_millis() as u64}));
    }
    if untampered {
        return Ok(());
    }
    // ---- every proof with every other circuit's verifier data
    let mut pairs = 0;
    let mut accepted = vec![];
    let mut classes: BTreeMap<String, usize> = BTreeMap::new();
    for (i, fi) in fams.iter().enumerate() {
        for (k, fk) in fams.iter().enumerate() {
            if i == k {
                continue;
            }
            // (a) proof i under circuit k entirely
            let o = run_guard(|| fk.data.verify(fi.proof.clone())).0;
            let oc = run_guard(|| fk.data.verify_compressed(fi.cproof.clone())).0;
            // (b) proof i under its own common data but circuit k's verifier-only data (digest + constants/sigmas cap)
            let hybrid = VerifierCircuitData { verifier_only: fk.data.verifier_only.clone(), common: fi.data.common.clone() };
            let oh = run_guard(|| hybrid.verify(fi.proof.clone())).0;
            let ohc = run_guard(|| hybrid.verify_compressed(fi.cproof.clone())).0;
            for (what, o) in [("other-circuit", &o), ("other-circuit-compressed", &oc), ("other-verifier-only", &oh), ("other-verifier-only-compressed", &ohc)] {
                pairs += 1;
                *classes.entry(format!("{what}:{}", err_class(o))).or_default() += 1;
                if *o == Outcome::Ok {
                    accepted.push(json!({"proof_of": fi.name, "verifier_data_of": fk.name, "what": what}));
                }
            }
        }
    }
    emit(&json!({"kind": "vd_swap", "pairs": pairs, "classes": classes, "accepted": accepted}));
    Ok(())
}

fn main() -> std::process::ExitCode {
    vh::util::run_main(|cmd, rest| {
        install_loc_hook();
        match cmd {
            "run" => run(rest),
            other => Err(anyhow!("unknown command {other}")),
        }
    })
}
