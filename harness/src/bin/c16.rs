//! C16 — proof compression is lossless and verification-equivalent.
//!
//! `real`: circuits with configurations engineered for query collisions (LDE sizes 2^4..2^8,
//! 10..40 queries, all reduction strategies, cap heights 0..3, with/without lookups and blinding,
//! Poseidon and Keccak configs); for every accepted proof `decompress(compress(p)) == p` and
//! `verify_compressed(compress(p)).is_ok() == verify(p).is_ok()`, the same equivalence for
//! shape-preserving tampered proofs; the shape of every compressed proof is written as a trace
//! for TLC (spec/MCFriCompressTrace).
//! `replay-fricompress`: every query tuple enumerated by TLC from spec/MCFriCompress replayed on
//! the real `FriProof::compress` with synthetic (honestly committed) FRI proofs.
use std::collections::{BTreeMap, BTreeSet, HashMap};
use std::io::BufRead;
use std::cell::Cell;
use std::sync::atomic::{AtomicU64, Ordering};
use std::sync::{mpsc, Arc};
use std::time::Duration;

use plonky2::field::extension::{flatten, Extendable, FieldExtension};
use plonky2::field::polynomial::PolynomialCoeffs;
use plonky2::field::types::Field;
use plonky2::fri::proof::{FriInitialTreeProof, FriProof, FriQueryRound, FriQueryStep};
use plonky2::fri::reduction_strategies::FriReductionStrategy;
use plonky2::fri::{FriConfig, FriParams};
use plonky2::gates::noop::NoopGate;
use plonky2::hash::merkle_proofs::MerkleProof;
use plonky2::hash::merkle_tree::MerkleTree;
use plonky2::hash::poseidon::PoseidonHash;
use plonky2::iop::target::Target;
use plonky2::iop::witness::{PartialWitness, WitnessWrite};
use plonky2::plonk::circuit_builder::CircuitBuilder;
use plonky2::plonk::circuit_data::{CircuitConfig, CircuitData, VerifierCircuitData};
use plonky2::plonk::config::{GenericConfig, KeccakGoldilocksConfig, PoseidonGoldilocksConfig};
use plonky2::plonk::proof::{CompressedProofWithPublicInputs, ProofWithPublicInputs};
use plonky2::verif_exports::compress_merkle_proofs;
use rand::Rng;
use rand_chacha::ChaCha8Rng;
use serde_json::{json, Value};
use vh::util::*;

const D: usize = 2;
type FE = <F as Extendable<D>>::Extension;

fn read_ndjson(path: &str) -> anyhow::Result<Vec<Value>> {
    let f = std::fs::File::open(path)?;
    let mut out = vec![];
    for line in std::io::BufReader::new(f).lines() {
        let line = line?;
        if !line.trim().is_empty() {
            out.push(serde_json::from_str(&line)?);
        }
    }
    Ok(out)
}
fn us(v: &Value, k: &str) -> usize {
    v[k].as_u64().unwrap_or_else(|| panic!("field {k} missing in {v}")) as usize
}
fn usv(v: &Value) -> Vec<usize> {
    v.as_array().unwrap().iter().map(|x| x.as_u64().unwrap() as usize).collect()
}

// ------------------------------------------------------------------------------------------
// real proofs
// ------------------------------------------------------------------------------------------
#[derive(Clone, Debug)]
struct Cfg {
    rate: usize,
    cap: usize,
    q: usize,
    strat: FriReductionStrategy,
    zk: bool,
    lookups: bool,
    rows: usize,
    keccak: bool,
}
impl Cfg {
    fn id(&self) -> String {
        format!("rate{}-cap{}-q{}-{:?}-zk{}-lut{}-rows{}-{}", self.rate, self.cap, self.q, self.strat,
                self.zk as u8, self.lookups as u8, self.rows, if self.keccak { "keccak" } else { "poseidon" })
            .replace(' ', "")
    }
    fn config(&self) -> CircuitConfig {
        let mut c = CircuitConfig::standard_recursion_config();
        c.zero_knowledge = self.zk;
        c.security_bits = 1; // tiny FRI parameters on purpose: collisions among query indices
        // (rate_bits < 3 cannot be built: the public-input hash needs PoseidonGate, degree 7, hence a
        // quotient degree factor of 8, and the builder's FFT root table is sized for max(rate_bits, 3))
        c.fri_config = FriConfig {
            rate_bits: self.rate,
            cap_height: self.cap,
            proof_of_work_bits: 2,
            reduction_strategy: self.strat.clone(),
            num_query_rounds: self.q,
        };
        c
    }
}

struct Built<C: GenericConfig<D, F = F>> {
    data: CircuitData<F, C, D>,
    x: Target,
    y: Target,
    z: Option<Target>,
}

fn build<C: GenericConfig<D, F = F>>(cfg: &Cfg) -> Built<C> {
    let mut b = CircuitBuilder::<F, D>::new(cfg.config());
    let x = b.add_virtual_target();
    let y = b.add_virtual_target();
    let mut acc = x;
    for _ in 0..3 {
        acc = b.mul_add(acc, y, x);
    }
    b.register_public_input(x);
    b.register_public_input(acc);
    let mut z = None;
    if cfg.lookups {
        let table: Arc<Vec<(u16, u16)>> = Arc::new((0u16..8).map(|i| (i, (i * i + 3) % 17)).collect());
        let idx = b.add_lookup_table_from_pairs(table);
        let zt = b.add_virtual_target();
        let out = b.add_lookup_from_index(zt, idx);
        b.register_public_input(out);
        z = Some(zt);
    }
    for _ in 0..cfg.rows {
        b.add_gate(NoopGate, vec![]);
    }
    Built { data: b.build::<C>(), x, y, z }
}

#[derive(Default)]
struct Stats {
    configs: u64,
    skipped_configs: u64,
    skip_reasons: BTreeMap<String, u64>,
    honest_rejected: Vec<Value>,
    proofs: u64,
    roundtrips: u64,
    recompressions: u64,
    roundtrips_by_schedule: BTreeMap<String, u64>,
    abandoned_by_schedule: BTreeMap<String, u64>,
    skipped_after_nontermination: BTreeMap<String, u64>,
    verdict_pairs: u64,
    tampered: u64,
    tampered_both_accept: u64,
    tampered_compress_panics: u64,
    redundant_tampers: u64,
    redundant_rejected_plain: u64,
    redundant_accepted_compressed: u64,
    cls_repeat: u64,
    cls_share: Vec<u64>,
    cls_distinct: u64,
    lde_bits: BTreeSet<usize>,
    schedules: BTreeSet<String>,
    violations: Vec<Value>,
    violations_per_key: BTreeMap<String, u64>,
    drift: Vec<Value>,
    samples: Vec<Value>,
}
impl Stats {
    /// at most 3 records per key (schedule x kind of failure), 60 in all: every kind stays visible
    fn violation(&mut self, v: Value) {
        let key = v["key"].as_str().unwrap_or("").to_string();
        let n = self.violations_per_key.entry(key).or_insert(0);
        *n += 1;
        if *n <= 3 && self.violations.len() < 60 {
            self.violations.push(v);
        }
    }
}

/// (repeated index?, for each reduction j: two queries with different layer-j indices in one coset?)
fn classify(q: &[usize], ar: &[usize]) -> (bool, Vec<bool>) {
    let mut rep = false;
    let mut seen = BTreeSet::new();
    for &x in q {
        rep |= !seen.insert(x);
    }
    let mut share = vec![];
    let mut cur: Vec<usize> = q.to_vec();
    for &a in ar {
        let mut m: BTreeMap<usize, BTreeSet<usize>> = BTreeMap::new();
        for &x in &cur {
            m.entry(x >> a).or_default().insert(x);
        }
        share.push(m.values().any(|s| s.len() > 1));
        cur = cur.iter().map(|x| x >> a).collect();
    }
    (rep, share)
}


// ------------------------------------------------------------------------------------------
// watchdog: every library call on a real proof runs on a worker thread with a deadline.  A call that
// does not return on an honest input is data (like a panic): the thread is abandoned (never joined),
// the configuration is given up, and the process ends with std::process::exit.
// ------------------------------------------------------------------------------------------
static DEADLINE_MS: AtomicU64 = AtomicU64::new(20_000);
static ABANDONED: AtomicU64 = AtomicU64::new(0);

type Job<C> = Box<dyn FnOnce(&VerifierCircuitData<F, C, D>) + Send>;
struct Lib<C: GenericConfig<D, F = F>> {
    /// one worker thread per configuration; dropped sender = worker ends (unless it is stuck: abandoned)
    jobs: mpsc::Sender<Job<C>>,
    timed_out: Cell<Option<&'static str>>,
}
impl<C: GenericConfig<D, F = F> + 'static> Lib<C> {
    fn new(vd: VerifierCircuitData<F, C, D>) -> Self {
        let (jobs, rx) = mpsc::channel::<Job<C>>();
        std::thread::Builder::new().stack_size(64 << 20).spawn(move || {
            for job in rx {
                job(&vd);
            }
        }).expect("worker thread");
        Self { jobs, timed_out: Cell::new(None) }
    }
    fn call<T: Send + 'static>(&self, what: &'static str,
                               f: impl FnOnce(&VerifierCircuitData<F, C, D>) -> anyhow::Result<T> + Send + 'static)
        -> Result<anyhow::Result<T>, String> {
        if self.timed_out.get().is_some() {
            return Err("not run: an earlier call of this configuration did not terminate".into());
        }
        let (tx, rx) = mpsc::channel();
        let job: Job<C> = Box::new(move |vd| {
            let r = guarded(|| f(vd));
            let _ = tx.send(r);
        });
        if self.jobs.send(job).is_err() {
            return Err("worker thread is gone".into());
        }
        // once threads were abandoned the machine is busy with them: be less patient
        let ms = DEADLINE_MS.load(Ordering::Relaxed);
        let ms = if ABANDONED.load(Ordering::Relaxed) >= 3 { (ms / 4).max(2_000) } else { ms };
        match rx.recv_timeout(Duration::from_millis(ms)) {
            Ok(r) => r,
            Err(_) => {
                ABANDONED.fetch_add(1, Ordering::Relaxed);
                self.timed_out.set(Some(what));
                Err(format!("{what} does not terminate (no result after {ms} ms)"))
            }
        }
    }
    fn verify(&self, p: ProofWithPublicInputs<F, C, D>) -> Result<anyhow::Result<()>, String> {
        self.call("verify", move |vd| vd.verify(p))
    }
    fn verify_compressed(&self, c: CompressedProofWithPublicInputs<F, C, D>) -> Result<anyhow::Result<()>, String> {
        self.call("verify-compressed", move |vd| vd.verify_compressed(c))
    }
    fn compress(&self, p: ProofWithPublicInputs<F, C, D>) -> Result<anyhow::Result<CompressedProofWithPublicInputs<F, C, D>>, String> {
        self.call("compress", move |vd| p.compress(&vd.verifier_only.circuit_digest, &vd.common))
    }
    fn decompress(&self, c: CompressedProofWithPublicInputs<F, C, D>) -> Result<anyhow::Result<ProofWithPublicInputs<F, C, D>>, String> {
        self.call("decompress", move |vd| c.decompress(&vd.verifier_only.circuit_digest, &vd.common))
    }
}

fn ok<T>(r: Result<anyhow::Result<T>, String>) -> bool {
    matches!(r, Ok(Ok(_)))
}

fn one_config<C: GenericConfig<D, F = F> + 'static>(cfg: &Cfg, nproofs: usize, r: &mut ChaCha8Rng, st: &mut Stats,
                                          traces: &mut Option<NdJson>, flip: bool) {
    let built = match guarded(|| build::<C>(cfg)) {
        Ok(b) => b,
        Err(m) => {
            st.skipped_configs += 1; // inadmissible FRI parameters for this degree: the builder refuses
            *st.skip_reasons.entry(m.chars().take(90).collect()).or_insert(0) += 1;
            return;
        }
    };
    let data = &built.data;
    let params = &data.common.fri_params;
    if params.total_arities() > params.degree_bits {
        // the builder accepts it, but final_poly_bits = degree_bits - total_arities underflows: the honest
        // prover's proof is rejected by shape (not a compression matter; precondition Admissible of DESIGN)
        st.skipped_configs += 1;
        *st.skip_reasons.entry("total arities exceed degree_bits (final_poly_bits underflows)".into()).or_insert(0) += 1;
        return;
    }
    st.configs += 1;
    let ar = params.reduction_arity_bits.clone();
    let n = params.lde_bits();
    let sched = format!("{ar:?}").replace(' ', "");
    if st.abandoned_by_schedule.get(&sched).copied().unwrap_or(0) >= 3 {
        // three calls under this schedule already failed to terminate: do not swamp the machine
        st.configs -= 1;
        *st.skipped_after_nontermination.entry(sched).or_insert(0) += 1;
        return;
    }
    let lib = Lib::<C>::new(data.verifier_data());
    // a library call that did not return within the deadline: VIOLATION, give this configuration up
    macro_rules! gave_up {
        ($st:expr, $ctx:expr, $q:expr) => {
            if let Some(what) = lib.timed_out.get() {
                $st.violation(json!({"key": format!("C16/roundtrip/{sched}/{what}-does-not-terminate"), "ctx": $ctx, "q": $q,
                    "deadline_ms": DEADLINE_MS.load(Ordering::Relaxed), "threads_abandoned_so_far": ABANDONED.load(Ordering::Relaxed)}));
                *$st.abandoned_by_schedule.entry(sched.clone()).or_insert(0) += 1;
                return;
            }
        };
    }
    st.lde_bits.insert(n);
    st.schedules.insert(format!("{ar:?}"));
    if st.cls_share.len() < ar.len() {
        st.cls_share.resize(ar.len(), 0);
    }
    for pn in 0..nproofs {
        let mut pw = PartialWitness::new();
        pw.set_target(built.x, fc(r.gen())).unwrap();
        pw.set_target(built.y, fc(r.gen())).unwrap();
        if let Some(z) = built.z {
            pw.set_target(z, F::from_canonical_u64(r.gen_range(0..8))).unwrap();
        }
        let proof = match guarded(|| data.prove(pw)) {
            Ok(Ok(p)) => p,
            other => {
                st.drift.push(json!({"what": "prover failed on an honest witness (not C16's business)", "cfg": cfg.id(),
                                     "err": format!("{:?}", other.err())}));
                return;
            }
        };
        st.proofs += 1;
        let ctx = json!({"cfg": cfg.id(), "proof_no": pn, "lde_bits": n, "arities": ar, "cap_height": cfg.cap});
        let accepted = ok(lib.verify(proof.clone()));
        gave_up!(st, ctx, Value::Null);
        if !accepted {
            st.honest_rejected.push(json!({"cfg": cfg.id(), "lde_bits": n, "arities": ar,
                "err": format!("{:?}", lib.verify(proof.clone()).map(|r| r.map_err(|e| format!("{e:#}"))))}));
        }
        let q = match guarded(|| proof.get_challenges(proof.get_public_inputs_hash(), &data.verifier_only.circuit_digest, &data.common)) {
            Ok(Ok(c)) => c.fri_challenges.fri_query_indices,
            _ => vec![],
        };
        let (rep, share) = classify(&q, &ar);
        st.cls_repeat += rep as u64;
        for (j, s) in share.iter().enumerate() {
            st.cls_share[j] += *s as u64;
        }
        st.cls_distinct += (!rep && !share.iter().any(|s| *s)) as u64;
        // ---- honest proof: round trip and verdict equivalence
        let comp = lib.compress(proof.clone());
        let cp = match comp {
            Ok(Ok(c)) => Some(c),
            _ => None,
        };
        let key = |what: &str| format!("C16/roundtrip/{sched}/{what}");
        if accepted {
            match &cp {
                None if lib.timed_out.get().is_some() => {}
                None => st.violation(json!({"key": key("compress-fails"), "ctx": ctx, "q": q,
                                            "err": format!("{:?}", lib.compress(proof.clone()).map(|r| r.map(|_| ()).map_err(|e| format!("{e:#}"))))})),
                Some(c) => {
                    match lib.decompress(c.clone()) {
                        Ok(Ok(mut dp)) => {
                            if flip {
                                // binding canary: one flipped element must be reported
                                let e = &mut dp.proof.opening_proof.query_round_proofs[0].initial_trees_proof.evals_proofs[0].0[0];
                                *e += F::ONE;
                            }
                            st.roundtrips += 1;
                            *st.roundtrips_by_schedule.entry(sched.clone()).or_insert(0) += 1;
                            if dp != proof {
                                st.violation(json!({"key": key("decompress-compress-not-identity"), "ctx": ctx, "q": q,
                                    "first_difference": first_difference(&proof, &dp)}));
                            } else {
                                // compress(decompress(c)) == c
                                st.recompressions += 1;
                                match lib.compress(dp.clone()) {
                                    Ok(Ok(c2)) => {
                                        if &c2 != c {
                                            st.violation(json!({"key": key("compress-decompress-not-identity"), "ctx": ctx, "q": q}));
                                        }
                                    }
                                    Err(_) if lib.timed_out.get().is_some() => {}
                                    other => st.violation(json!({"key": key("recompress-fails"), "ctx": ctx, "q": q,
                                                                 "err": format!("{:?}", other.err())})),
                                }
                            }
                        }
                        Ok(Err(e)) => st.violation(json!({"key": key("decompress-fails"), "ctx": ctx, "q": q, "err": format!("{e:#}")})),
                        Err(_) if lib.timed_out.get().is_some() => {}
                        Err(m) => st.violation(json!({"key": key("decompress-panics"), "ctx": ctx, "q": q, "err": m})),
                    }
                }
            }
        }
        gave_up!(st, ctx, q);
        let vc_res = match &cp {
            Some(c) => lib.verify_compressed(c.clone()).map(|r| r.map_err(|e| format!("{e:#}"))),
            None => Ok(Err("compress failed".to_string())),
        };
        let vc = matches!(vc_res, Ok(Ok(())));
        gave_up!(st, ctx, q);
        st.verdict_pairs += 1;
        if vc != accepted {
            st.violation(json!({"key": key("verdict-honest"), "ctx": ctx, "verify": accepted, "verify_compressed": vc,
                                "verify_compressed_result": format!("{vc_res:?}"), "q": q}));
        }
        if st.samples.len() < 3 && (rep || share.iter().any(|s| *s)) {
            st.samples.push(json!({"cfg": cfg.id(), "query_indices": q, "repeated_index": rep, "shared_coset_per_layer": share,
                                   "roundtrip_identical": true, "verify": accepted, "verify_compressed": vc}));
        }
        // ---- trace for TLC: shape of the compressed proof
        if let (Some(t), Some(c)) = (traces.as_mut(), &cp) {
            if accepted && !ar.is_empty() {
                let cq = &c.proof.opening_proof.query_round_proofs;
                let mut init_keys: Vec<usize> = cq.initial_trees_proofs.keys().copied().collect();
                init_keys.sort_unstable();
                let mut steps = vec![];
                let mut cur = q.clone();
                for (j, &a) in ar.iter().enumerate() {
                    let mut keys: Vec<usize> = cq.steps[j].keys().copied().collect();
                    keys.sort_unstable();
                    let mut rows = vec![];
                    for c_idx in keys {
                        // the full coset as opened by the first query round that hits it
                        let k = cur.iter().position(|x| x >> a == c_idx);
                        let cands: Vec<usize> = match k {
                            Some(k) => {
                                let full = &proof.proof.opening_proof.query_round_proofs[k].steps[j].evals;
                                (0..full.len()).filter(|&p| {
                                    let mut e = full.clone();
                                    e.remove(p);
                                    e == cq.steps[j][&c_idx].evals
                                }).collect()
                            }
                            None => vec![],
                        };
                        rows.push(json!({"c": c_idx, "cands": cands}));
                    }
                    steps.push(rows);
                    cur = cur.iter().map(|x| x >> a).collect();
                }
                t.put(&json!({"n": n, "ar": ar, "capH": cfg.cap, "q": q, "init_keys": init_keys, "steps": steps, "cfg": cfg.id()}));
            }
        }
        // ---- tampered proofs (shape preserving, applied BEFORE compression)
        if !accepted || q.is_empty() {
            continue;
        }
        let within0 = if ar.is_empty() { 0 } else { q[0] & ((1 << ar[0]) - 1) };
        let dup = (1..q.len()).find(|&k| q[..k].contains(&q[k]));
        for kind in ["opening", "final_poly", "pow_witness", "cap", "init_leaf_q0", "step_eval_q0", "public_input",
                     "redundant_inferred_q0", "redundant_dup_leaf"] {
            let mut p2 = proof.clone();
            let fp = &mut p2.proof.opening_proof;
            let redundant = kind.starts_with("redundant");
            match kind {
                "opening" => p2.proof.openings.wires[0] += FE::ONE,
                "final_poly" => {
                    if fp.final_poly.coeffs.is_empty() {
                        continue;
                    }
                    fp.final_poly.coeffs[0] += FE::ONE
                }
                "pow_witness" => fp.pow_witness += F::ONE,
                "cap" => {
                    let other = p2.proof.quotient_polys_cap.0[0];
                    p2.proof.wires_cap.0[0] = other
                }
                "init_leaf_q0" => fp.query_round_proofs[0].initial_trees_proof.evals_proofs[1].0[0] += F::ONE,
                "step_eval_q0" => {
                    if ar.is_empty() {
                        continue;
                    }
                    let pos = within0 ^ 1;
                    fp.query_round_proofs[0].steps[0].evals[pos] += FE::ONE
                }
                "public_input" => p2.public_inputs[0] += F::ONE,
                "redundant_inferred_q0" => {
                    if ar.is_empty() {
                        continue;
                    }
                    fp.query_round_proofs[0].steps[0].evals[within0] += FE::ONE
                }
                "redundant_dup_leaf" => match dup {
                    Some(k) => fp.query_round_proofs[k].initial_trees_proof.evals_proofs[0].0[0] += F::ONE,
                    None => continue,
                },
                _ => unreachable!(),
            }
            let v2 = ok(lib.verify(p2.clone()));
            let c2 = lib.compress(p2.clone());
            let (vc2, c2v) = match c2 {
                Ok(Ok(c)) => (ok(lib.verify_compressed(c.clone())), Some(c)),
                _ => {
                    st.tampered_compress_panics += 1;
                    (false, None)
                }
            };
            gave_up!(st, json!({"cfg": cfg.id(), "proof_no": pn, "tamper": kind, "lde_bits": n, "arities": ar}), q);
            if redundant {
                // compression discards exactly this datum: the compressed proof is the honest one
                st.redundant_tampers += 1;
                st.redundant_rejected_plain += (!v2) as u64;
                st.redundant_accepted_compressed += vc2 as u64;
                if c2v.as_ref() != cp.as_ref() {
                    st.drift.push(json!({"what": "a proof altered only in data that compression discards compresses differently",
                                         "kind": kind, "ctx": ctx}));
                }
                continue;
            }
            st.tampered += 1;
            st.tampered_both_accept += (v2 && vc2) as u64;
            if v2 != vc2 {
                st.violation(json!({"key": key(&format!("verdict-tampered-{kind}")), "ctx": ctx, "verify": v2,
                                    "verify_compressed": vc2, "q": q}));
            }
        }
    }
}

fn first_difference<C: GenericConfig<D, F = F>>(a: &ProofWithPublicInputs<F, C, D>, b: &ProofWithPublicInputs<F, C, D>) -> String {
    if a.public_inputs != b.public_inputs {
        return "public_inputs".into();
    }
    let (pa, pb) = (&a.proof, &b.proof);
    if pa.wires_cap != pb.wires_cap || pa.plonk_zs_partial_products_cap != pb.plonk_zs_partial_products_cap
        || pa.quotient_polys_cap != pb.quotient_polys_cap {
        return "caps".into();
    }
    if pa.openings != pb.openings {
        return "openings".into();
    }
    let (fa, fb) = (&pa.opening_proof, &pb.opening_proof);
    if fa.commit_phase_merkle_caps != fb.commit_phase_merkle_caps {
        return "commit_phase_merkle_caps".into();
    }
    if fa.final_poly != fb.final_poly || fa.pow_witness != fb.pow_witness {
        return "final_poly/pow_witness".into();
    }
    if fa.query_round_proofs.len() != fb.query_round_proofs.len() {
        return format!("number of query rounds {} vs {}", fa.query_round_proofs.len(), fb.query_round_proofs.len());
    }
    for (k, (ra, rb)) in fa.query_round_proofs.iter().zip(&fb.query_round_proofs).enumerate() {
        for (t, (ea, eb)) in ra.initial_trees_proof.evals_proofs.iter().zip(&rb.initial_trees_proof.evals_proofs).enumerate() {
            if ea.0 != eb.0 {
                return format!("query {k} initial tree {t} leaf");
            }
            if ea.1 != eb.1 {
                return format!("query {k} initial tree {t} merkle proof");
            }
        }
        for (j, (sa, sb)) in ra.steps.iter().zip(&rb.steps).enumerate() {
            if sa.evals != sb.evals {
                return format!("query {k} step {j} evals");
            }
            if sa.merkle_proof != sb.merkle_proof {
                return format!("query {k} step {j} merkle proof");
            }
        }
    }
    "none found".into()
}

fn grid(thorough: bool) -> Vec<Cfg> {
    use FriReductionStrategy::*;
    let strategies = vec![
        Fixed(vec![1]), Fixed(vec![2]), Fixed(vec![1, 1]), Fixed(vec![2, 1]), Fixed(vec![1, 2]), Fixed(vec![3]),
        Fixed(vec![1, 1, 1]), Fixed(vec![]), ConstantArityBits(1, 1), ConstantArityBits(2, 0), ConstantArityBits(3, 2),
        MinSize(None), MinSize(Some(2)),
    ];
    let mut out = vec![];
    let mut t = 0usize;
    for (si, strat) in strategies.iter().enumerate() {
        for rate in [3usize, 4, 3] {
            for cap in 0..=3usize {
                for (qi, q) in [10usize, 20, 40].into_iter().enumerate() {
                    t += 1;
                    // lookups / blinding / circuit size / hasher vary along the grid
                    let lookups = (t + si) % 3 == 0;
                    // blinding multiplies the degree by the number of openings: keep it to few queries
                    let zk = (t + rate) % 4 == 0 && q == 10 && !matches!(strat, Fixed(v) if v.is_empty())
                        // blinding under MinSize / ConstantArityBits gives LDE sizes 2^14..2^17 (tens of seconds): thorough only
                        && (thorough || matches!(strat, Fixed(_)));
                    let rows = [0usize, 3, 9, 20][(t + qi) % 4];
                    let keccak = t % 5 == 0;
                    if !thorough && (t + si) % 2 == 1 {
                        continue;
                    }
                    out.push(Cfg { rate, cap, q, strat: strat.clone(), zk, lookups, rows, keccak });
                }
            }
        }
    }
    // non-constant arity schedules (the per-layer index arithmetic differs from layer to layer) at several
    // circuit degrees, with few queries (model-sized tuples) and many (collisions)
    let nonconst = vec![
        Fixed(vec![1, 3]), Fixed(vec![3, 1, 2]), Fixed(vec![2, 1]), Fixed(vec![1, 2]), Fixed(vec![2, 3, 1]),
        MinSize(None), MinSize(Some(3)), ConstantArityBits(2, 1), ConstantArityBits(3, 1),
    ];
    for (si, strat) in nonconst.iter().enumerate() {
        for (ri, rows) in [9usize, 40, 100].into_iter().enumerate() {
            for (qi, q) in [3usize, 24].into_iter().enumerate() {
                for cap in [0usize, 2] {
                    t += 1;
                    if !thorough && (si + ri + qi + cap / 2) % 2 == 1 {
                        continue;
                    }
                    out.push(Cfg { rate: 3, cap, q, strat: strat.clone(), zk: false, lookups: t % 4 == 0, rows, keccak: t % 6 == 0 });
                }
            }
        }
    }
    out
}

struct Timer(std::time::Instant, String, bool);
impl Drop for Timer {
    fn drop(&mut self) {
        if self.2 && self.0.elapsed().as_millis() > 500 {
            eprintln!("[c16] {} ms {}", self.0.elapsed().as_millis(), self.1);
        }
    }
}

fn real(args: &[String]) -> anyhow::Result<()> {
    let thorough = args.iter().any(|a| a == "--thorough");
    let nproofs = opt_usize(args, "--proofs", 3);
    let flip = args.iter().any(|a| a == "--canary-flip");
    let limit = opt_usize(args, "--limit", usize::MAX);
    DEADLINE_MS.store(opt_usize(args, "--deadline-ms", 20_000) as u64, Ordering::Relaxed);
    let mut traces = match opt(args, "--traces") {
        Some(p) => Some(NdJson::create(p)?),
        None => None,
    };
    let mut st = Stats::default();
    let mut r = rng(1601);
    for cfg in grid(thorough).into_iter().take(limit) {
        let t0 = std::time::Instant::now();
        let _guard = Timer(t0, cfg.id(), std::env::var("C16_TIMES").is_ok());
        if cfg.keccak {
            one_config::<KeccakGoldilocksConfig>(&cfg, nproofs, &mut r, &mut st, &mut traces, flip);
        } else {
            one_config::<PoseidonGoldilocksConfig>(&cfg, nproofs, &mut r, &mut st, &mut traces, flip);
        }
    }
    let ntraces = traces.map(|t| t.finish()).unwrap_or(0);
    emit(&json!({"kind": "c16-real", "configs": st.configs, "skipped_configs": st.skipped_configs, "skip_reasons": st.skip_reasons, "honest_rejected": st.honest_rejected, "proofs": st.proofs,
        "roundtrips": st.roundtrips, "recompressions": st.recompressions,
        "roundtrips_by_schedule": st.roundtrips_by_schedule, "abandoned_by_schedule": st.abandoned_by_schedule,
        "configs_skipped_after_nontermination": st.skipped_after_nontermination,
        "threads_abandoned": ABANDONED.load(Ordering::Relaxed), "violations_per_key": st.violations_per_key, "verdict_pairs": st.verdict_pairs, "tampered": st.tampered,
        "tampered_both_accept": st.tampered_both_accept, "tampered_compress_panics": st.tampered_compress_panics,
        "redundant_tampers": st.redundant_tampers, "redundant_rejected_plain": st.redundant_rejected_plain,
        "redundant_accepted_compressed": st.redundant_accepted_compressed,
        "classes": {"repeated_index": st.cls_repeat, "shared_coset_per_layer": st.cls_share, "all_distinct": st.cls_distinct},
        "lde_bits": st.lde_bits, "schedules": st.schedules, "traces": ntraces,
        "violations": st.violations, "drift": st.drift, "samples": st.samples}));
    // abandoned worker threads must not keep the process alive
    use std::io::Write;
    std::io::stdout().flush().ok();
    std::process::exit(0);
}

// ------------------------------------------------------------------------------------------
// synthetic FRI proofs: scenarios of MCFriCompress on the real FriProof::compress
// ------------------------------------------------------------------------------------------
type H = PoseidonHash;
struct Synth {
    init_leaves: Vec<Vec<Vec<F>>>,
    init_trees: Vec<MerkleTree<F, H>>,
    step_evals: Vec<Vec<Vec<FE>>>,
    step_trees: Vec<MerkleTree<F, H>>,
}

fn synth(r: &mut ChaCha8Rng, n: usize, ar: &[usize], cap_h: usize) -> Synth {
    let mut init_leaves = vec![];
    let mut init_trees = vec![];
    for w in [3usize, 6] {
        let leaves: Vec<Vec<F>> = (0..1usize << n).map(|_| (0..w).map(|_| fc(r.gen())).collect()).collect();
        init_trees.push(MerkleTree::<F, H>::new(leaves.clone(), cap_h));
        init_leaves.push(leaves);
    }
    let mut step_evals = vec![];
    let mut step_trees = vec![];
    let mut h = n;
    for &a in ar {
        h -= a;
        let evals: Vec<Vec<FE>> = (0..1usize << h)
            .map(|_| (0..1usize << a).map(|_| FE::from_basefield_array([fc(r.gen()), fc(r.gen())])).collect()).collect();
        let leaves: Vec<Vec<F>> = evals.iter().map(|e| flatten::<F, D>(e)).collect();
        step_trees.push(MerkleTree::<F, H>::new(leaves, cap_h));
        step_evals.push(evals);
    }
    Synth { init_leaves, init_trees, step_evals, step_trees }
}

fn replay_fricompress(args: &[String]) -> anyhow::Result<()> {
    let scen = read_ndjson(opt(args, "--scen").ok_or_else(|| anyhow::anyhow!("--scen"))?)?;
    let corrupt = opt(args, "--corrupt").and_then(|s| s.parse::<usize>().ok());
    let mut r = rng(1602);
    let mut cache: HashMap<String, Synth> = HashMap::new();
    let mut replayed = 0u64;
    let mut lossless_checked = 0u64;
    let mut drift_ids: Vec<usize> = vec![];
    let mut drift: Vec<Value> = vec![];
    let mut violations: Vec<Value> = vec![];
    let mut samples: Vec<Value> = vec![];
    let mut classes = json!({"repeated_index": 0u64, "shared_layer0": 0u64, "shared_deeper": 0u64, "distinct": 0u64});
    for (sn, sc) in scen.iter().enumerate() {
        let (n, cap_h) = (us(sc, "n"), us(sc, "capH"));
        let ar = usv(&sc["ar"]);
        let q = usv(&sc["q"]);
        let key = format!("{n}/{ar:?}/{cap_h}");
        let sy = cache.entry(key).or_insert_with(|| synth(&mut r, n, &ar, cap_h));
        let rep = sc["rep"].as_bool().unwrap();
        let share: Vec<bool> = sc["share"].as_array().unwrap().iter().map(|b| b.as_bool().unwrap()).collect();
        // the model's classification of the tuple = the harness's (used for the coverage canary of `real`)
        let mine = classify(&q, &ar);
        if mine != (rep, share.clone()) {
            anyhow::bail!("collision classification differs between spec and harness on {sc}");
        }
        let cnt = |c: &mut Value, k: &str| c[k] = json!(c[k].as_u64().unwrap() + 1);
        if rep {
            cnt(&mut classes, "repeated_index");
        }
        if share[0] {
            cnt(&mut classes, "shared_layer0");
        }
        if share[1..].iter().any(|s| *s) {
            cnt(&mut classes, "shared_deeper");
        }
        if !rep && !share.iter().any(|s| *s) {
            cnt(&mut classes, "distinct");
        }
        // honest proof for the chosen indices
        let rounds: Vec<FriQueryRound<F, H, D>> = q.iter().map(|&x| {
            let initial_trees_proof = FriInitialTreeProof {
                evals_proofs: (0..2).map(|t| (sy.init_leaves[t][x].clone(), sy.init_trees[t].prove(x))).collect(),
            };
            let mut idx = x;
            let steps = ar.iter().enumerate().map(|(j, &a)| {
                idx >>= a;
                FriQueryStep { evals: sy.step_evals[j][idx].clone(), merkle_proof: sy.step_trees[j].prove(idx) }
            }).collect();
            FriQueryRound { initial_trees_proof, steps }
        }).collect();
        let proof = FriProof::<F, H, D> {
            commit_phase_merkle_caps: sy.step_trees.iter().map(|t| t.cap.clone()).collect(),
            query_round_proofs: rounds.clone(),
            final_poly: PolynomialCoeffs::new(vec![FE::ONE]),
            pow_witness: F::ZERO,
        };
        let params = FriParams {
            config: FriConfig { rate_bits: 1, cap_height: cap_h, proof_of_work_bits: 0,
                                reduction_strategy: FriReductionStrategy::Fixed(ar.clone()), num_query_rounds: q.len() },
            hiding: false,
            degree_bits: n - 1,
            reduction_arity_bits: ar.clone(),
        };
        let comp = match guarded(|| proof.clone().compress(&q, &params)) {
            Ok(c) => c,
            Err(m) => {
                violations.push(json!({"key": "C16/fricompress/panic", "scenario": sc, "msg": m}));
                continue;
            }
        };
        replayed += 1;
        let cq = &comp.query_round_proofs;
        let mut bad: Vec<String> = vec![];
        if cq.indices != q {
            bad.push("indices".into());
        }
        // initial trees: keys, supplier, compressed paths
        let init_src = usv(&sc["init"]);
        let want_keys: BTreeSet<usize> = q.iter().copied().collect();
        let got_keys: BTreeSet<usize> = cq.initial_trees_proofs.keys().copied().collect();
        if want_keys != got_keys {
            bad.push("initial keys".into());
        } else {
            for t in 0..2 {
                let ps: Vec<MerkleProof<F, H>> = rounds.iter().map(|rd| rd.initial_trees_proof.evals_proofs[t].1.clone()).collect();
                let cps = compress_merkle_proofs::<F, H>(cap_h, &q, &ps);
                for (a, &x) in q.iter().enumerate() {
                    let e = &cq.initial_trees_proofs[&x].evals_proofs[t];
                    if e.0 != sy.init_leaves[t][x] {
                        bad.push(format!("initial leaf tree {t} key {x}"));
                    }
                    if e.1 != cps[init_src[a] - 1] {
                        bad.push(format!("initial compressed path tree {t} key {x}: not the one of query {}", init_src[a]));
                    }
                }
            }
        }
        // steps: keys, removed position, supplier
        let mut cur = q.clone();
        for (j, &a) in ar.iter().enumerate() {
            let rows = sc["steps"][j].as_array().unwrap();
            let cosets: Vec<usize> = cur.iter().map(|x| x >> a).collect();
            let want: BTreeSet<usize> = rows.iter().map(|e| us(e, "c")).collect();
            let got: BTreeSet<usize> = cq.steps[j].keys().copied().collect();
            if want != got || want != cosets.iter().copied().collect() {
                bad.push(format!("step {j} keys"));
            } else {
                let ps: Vec<MerkleProof<F, H>> = rounds.iter().map(|rd| rd.steps[j].merkle_proof.clone()).collect();
                let cps = compress_merkle_proofs::<F, H>(cap_h, &cosets, &ps);
                for e in rows {
                    let (c, src, mut pos) = (us(e, "c"), us(e, "src"), us(e, "pos"));
                    if corrupt == Some(sn) {
                        pos ^= 1; // binding canary: a wrong predicted position must be noticed
                    }
                    let mut full = sy.step_evals[j][c].clone();
                    full.remove(pos);
                    if cq.steps[j][&c].evals != full {
                        bad.push(format!("step {j} coset {c}: the removed element is not position {pos}"));
                    }
                    if cq.steps[j][&c].merkle_proof != cps[src - 1] {
                        bad.push(format!("step {j} coset {c}: compressed path is not the one of query {src}"));
                    }
                }
            }
            cur = cosets;
        }
        // property level (whatever the layout): compression must not LOSE data - the leaves of every distinct
        // queried index and the evaluations of every distinct queried coset (less one inferable element) must
        // still be somewhere in the compressed proof; otherwise no decompression can return the original
        let sched = format!("{ar:?}").replace(' ', "");
        let mut lost: Vec<String> = vec![];
        for (a, &x) in q.iter().enumerate() {
            for t in 0..2 {
                if !cq.initial_trees_proofs.values().any(|e| e.evals_proofs.len() == 2 && e.evals_proofs[t].0 == sy.init_leaves[t][x]) {
                    lost.push(format!("leaf of initial tree {t} at index {x} (query {a})"));
                }
            }
        }
        let mut cur2 = q.clone();
        for (j, &a) in ar.iter().enumerate() {
            let cosets: BTreeSet<usize> = cur2.iter().map(|x| x >> a).collect();
            for &c in &cosets {
                let full = &sy.step_evals[j][c];
                let present = j < cq.steps.len() && cq.steps[j].values().any(|st| {
                    st.evals.len() + 1 == full.len() && (0..full.len()).any(|p| {
                        let mut e = full.clone();
                        e.remove(p);
                        e == st.evals
                    })
                });
                if !present {
                    lost.push(format!("evaluations of coset {c} of reduction {j}"));
                }
            }
            cur2 = cur2.iter().map(|x| x >> a).collect();
        }
        lossless_checked += 1;
        if !lost.is_empty() && violations.len() < 20 {
            lost.truncate(4);
            violations.push(json!({"key": format!("C16/roundtrip/{sched}/compress-loses-data"), "scenario": sc, "lost": lost}));
        }
        if !bad.is_empty() {
            drift_ids.push(sn);
        }
        if samples.len() < 2 && rep && share.iter().any(|s| *s) && q.len() == 3 {
            samples.push(json!({"scenario": sc, "real_compress_matches_model": bad.is_empty()}));
        }
        if !bad.is_empty() && drift.len() < 20 {
            bad.truncate(4);
            drift.push(json!({"what": "FriProof::compress has another shape than spec/FriCompress", "scenario": sc, "differences": bad}));
        }
    }
    emit(&json!({"kind": "c16-replay-fricompress", "scenarios": scen.len(), "replayed": replayed, "lossless_checked": lossless_checked,
                 "drift_scenario_ids": drift_ids, "classes": classes,
                 "drift": drift, "violations": violations, "samples": samples}));
    Ok(())
}

fn main() -> std::process::ExitCode {
    vh::util::run_main(|cmd, rest| match cmd {
        "real" => real(rest),
        "replay-fricompress" => replay_fricompress(rest),
        other => Err(anyhow::anyhow!("unknown command {other}")),
    })
}
