//! C06 — the in-circuit verifier accepts exactly what the native verifier accepts.
//! `run --in scenarios.ndjson [--selftest]`: per scenario one inner shape (a program of
//! spec/Programs.tla under a configuration of spec/Configs.tla) and one outer circuit built once
//! for the inner `common_data`; every adversary class of spec/RecVerifier.tla is made concrete
//! (value tampers at seeded positions, proofs of violating assignments, adversarial prover
//! strategies, foreign verifier data), judged by the native verifier and presented to the outer
//! circuit through `set_proof_with_pis_target` / `set_verifier_data_target` /
//! `generate_partial_witness` + the satisfaction oracle.
#[path = "../rec_kit.rs"]
mod rec_kit;

use plonky2::field::types::PrimeField64;
use plonky2::iop::witness::WitnessWrite;
use plonky2::plonk::circuit_builder::CircuitBuilder;
use plonky2::plonk::circuit_data::CircuitData;
use plonky2::plonk::config::{GenericConfig, KeccakGoldilocksConfig, PoseidonGoldilocksConfig};
use rec_kit::*;
use serde_json::{json, Value};
use vh::cfgs::CfgSpec;
use vh::oracle;
use vh::prog::{Instr, Program};
use vh::util::*;

const STATIC: [&str; 20] = [
    "pis", "wires_cap", "zs_cap", "quot_cap", "op_constants", "op_sigmas", "op_wires", "op_zs", "op_zs_next", "op_pp",
    "op_quot", "op_lzs", "op_lzs_next", "commit_cap", "final_poly", "pow_witness", "init_leaf", "init_path", "step_eval", "step_path",
];
const VDC: [&str; 6] = ["vd_digest", "vd_cap_one", "vd_cap_all", "vd_other", "vd_other_cap", "vd_other_digest"];

fn run_shape<OC: GenericConfig<D, F = F>>(s: &Value, selftest_all: bool) -> Vec<Value> {
    let id = s["id"].as_str().unwrap_or("?").to_string();
    let mut out = vec![];
    let skip = |why: String| vec![json!({"id": id, "skipped": why})];
    let prog: Program = match serde_json::from_value(s["prog"].clone()) {
        Ok(p) => p,
        Err(e) => return skip(format!("bad program: {e}")),
    };
    let cfg: CfgSpec = match serde_json::from_value(s["cfg"].clone()) {
        Ok(c) => c,
        Err(e) => return skip(format!("bad cfg: {e}")),
    };
    let mut r = rng_for(&id, 6);
    let inputs: Vec<u64> = match s.get("concrete") {
        Some(c) if c.is_array() => serde_json::from_value(c.clone()).unwrap(),
        _ => s["inputs"].as_array().map(|a| a.iter().map(|c| concretize(c.as_str().unwrap_or("rand"), &mut r)).collect()).unwrap_or_default(),
    };
    let pad = s["pad"].as_u64().unwrap_or(0) as usize;
    let per_class = s["per_class"].as_u64().unwrap_or(1) as usize;
    let sample = s["sample"].as_u64().unwrap_or(1) as usize;
    let t0 = std::time::Instant::now();
    let inner = match build_inner(&prog, &cfg, &inputs, pad) {
        Ok(i) => i,
        Err(e) => return skip(e),
    };
    // a second circuit (one more instruction) only lends its verifier data
    let mut prog2 = prog.clone();
    prog2.instrs.push(Instr { op: "mul_const".into(), args: vec![3, 0] });
    let other_vd = match build_inner_opt(&prog2, &cfg, &inputs, pad, false) {
        Ok(o) => o.data.verifier_only.clone(),
        Err(_) => match build_inner_opt(&prog, &cfg, &inputs, pad + 1, false) {
            Ok(o) => o.data.verifier_only.clone(),
            Err(e) => return skip(format!("no second circuit: {e}")),
        },
    };
    let own_vd = inner.data.verifier_only.clone();
    if other_vd.circuit_digest == own_vd.circuit_digest {
        return skip("second circuit has the same digest".into());
    }
    let common = inner.data.common.clone();
    let honest = match inner.prove(None) {
        Ok(p) => p,
        Err(e) => return skip(format!("honest proof: {e}")),
    };
    if !native_verdict(&honest, &own_vd, &common).0 {
        return skip("honest proof rejected natively (C01's business)".into());
    }
    let inner_ms = t0.elapsed().as_millis() as u64;
    // ---- the outer circuit, once per inner common data
    let t1 = std::time::Instant::now();
    let ocfg = outer_config(&s["outer"]);
    let built = guarded(|| {
        let mut b = CircuitBuilder::<F, D>::new(ocfg.clone());
        let pt = b.add_virtual_proof_with_pis(&common);
        let vdt = b.add_virtual_verifier_data(common.config.fri_config.cap_height);
        b.verify_proof::<C>(&pt, &vdt, &common);
        b.register_public_inputs(&pt.public_inputs);
        let data: CircuitData<F, OC, D> = b.build::<OC>();
        (data, pt, vdt)
    });
    let (outer, pt, vdt) = match built {
        Ok(x) => x,
        Err(p) => return skip(format!("outer build panic: {}", p.chars().take(140).collect::<String>())),
    };
    let constants = oracle::constants_by_row(&outer.prover_only, &outer.common);
    let nlayers = common.fri_params.reduction_arity_bits.len();
    // the catalogue of the model with NL = min(layers, 3) commit-phase layers
    let classes: Vec<String> = serde_json::from_value(s["classes"][nlayers.min(3).to_string()].clone()).unwrap_or_default();
    out.push(json!({"id": id, "shape": {"inner_degree_bits": common.degree_bits(), "layers": common.fri_params.reduction_arity_bits,
        "inner_pis": common.num_public_inputs, "lookups": !common.luts.is_empty(), "zk": common.config.zero_knowledge,
        "outer_degree_bits": outer.common.degree_bits(), "inner_ms": inner_ms, "outer_build_ms": t1.elapsed().as_millis() as u64,
        "binding_bits": cfg.binding_bits(), "gates": outer.common.gates.len(),
        "step_siblings": honest.proof.opening_proof.query_round_proofs[0].steps.iter().map(|st| st.merkle_proof.siblings.len()).collect::<Vec<_>>(),
        "init_siblings": honest.proof.opening_proof.query_round_proofs[0].initial_trees_proof.evals_proofs[0].1.siblings.len(),
        "rounds": honest.proof.opening_proof.query_round_proofs.len(), "pow_bits": common.config.fri_config.proof_of_work_bits}}));
    let nch = common.config.num_challenges;
    let mut sampled = 0usize;
    let mut unsat_sampled = 0usize;
    // binding self-test (scenario field "selftest"): one extra pass over class final_poly in which the circuit is
    // shown the untampered proof while the native verdict is the tampered one's; rows carry "selftest": true
    let passes: Vec<(bool, Vec<String>)> = if s["selftest"].as_bool().unwrap_or(false) {
        vec![(selftest_all, classes.clone()), (true, vec!["final_poly".to_string()])]
    } else {
        vec![(selftest_all, classes.clone())]
    };
    for (selftest, classes) in &passes {
    let selftest = *selftest;
    for class in classes {
        // the concrete cases of this class: (proof, verifier data, description)
        let mut cases: Vec<(PW, VD, Value)> = vec![];
        let c = class.as_str();
        if c == "none" {
            cases.push((honest.clone(), own_vd.clone(), json!({})));
            if per_class > 1 {
                // a second honest proof (fresh grinding / blinding) of the same statement
                if let Ok(p) = inner.prove(None) {
                    cases.push((p, own_vd.clone(), json!({"second": true})));
                }
            }
        } else if let Some(rest) = c.strip_prefix("shape:") {
            // shape classes: one list with one surplus element / one element removed
            if let Some((list, dir)) = rest.rsplit_once(':') {
                let mut p = honest.clone();
                if let Some(d) = shape_tamper(&mut p, list, dir == "surplus", &mut r) {
                    cases.push((p, own_vd.clone(), d));
                }
            }
        } else if c == "pow_short1" || c == "pow_exact" {
            // boundary of the grinding condition: exactly pow_bits - 1 / exactly pow_bits leading zeros
            let bits = common.config.fri_config.proof_of_work_bits;
            let zeros = if c == "pow_short1" { bits.wrapping_sub(1) } else { bits };
            if bits >= 1 && bits <= 10 && !common.config.zero_knowledge {
                // one fixed assignment: the transcript before the grinding witness is then the same for every witness
                if let Some(a) = inner.fixed_assignment() {
                    if let Ok(base) = inner.prove_assignment(&a, None) {
                        match find_pow_witness(&base, &own_vd, &common, zeros, 8000, &mut r) {
                            None => out.push(json!({"id": id, "class": class, "note": "no witness found within the budget"})),
                            Some(w) => {
                                let mut k = plonky2::verif_knobs::Knobs::default();
                                k.pow_witness = Some(w);
                                if let Ok(p) = inner.prove_assignment(&a, Some(k)) {
                                    let got = pow_response(&p, &own_vd, &common).map(|x| x.leading_zeros());
                                    if got == Some(zeros) {
                                        cases.push((p, own_vd.clone(), json!({"pow_witness": w, "leading_zeros": zeros, "pow_bits": bits})));
                                    } else {
                                        out.push(json!({"id": id, "class": class, "note": "the re-proved transcript differs", "got": got, "want": zeros}));
                                    }
                                }
                            }
                        }
                    }
                }
            }
        } else if STATIC.contains(&split_class(c).0) {
            let base = split_class(c).0;
            // a sibling of EVERY commit-phase layer: the model's middle layer stands for all real middle layers
            let mut layers: Vec<Option<usize>> = vec![split_class(c).1.map(|l| model_layer(l, nlayers))];
            if base == "step_path" && nlayers > 3 && split_class(c).1 == Some(1) {
                layers = (1..nlayers - 1).map(Some).collect();
            }
            let reps = if matches!(base, "init_path" | "step_path") { 1 } else { per_class };
            for real in layers {
                for _ in 0..reps {
                    let mut p = honest.clone();
                    if let Some(d) = tamper_at(&mut p, c, real, &mut r) {
                        cases.push((p, own_vd.clone(), d));
                    }
                }
            }
        } else if VDC.contains(&c) {
            for _ in 0..per_class.min(2) {
                if let Some((vd, d)) = tamper_vd(&own_vd, &other_vd, c, &mut r) {
                    cases.push((honest.clone(), vd, d));
                }
            }
        } else if c == "false_stmt" {
            for (d, p) in inner.false_statement_proofs(per_class, &mut r) {
                cases.push((p, own_vd.clone(), d));
            }
        } else {
            for _ in 0..per_class.min(2) {
                if let Some(k) = knobs_for(c, nch, nlayers, &mut r) {
                    let d = json!(format!("{k:?}"));
                    if let Ok(p) = inner.prove(Some(k)) {
                        cases.push((p, own_vd.clone(), d));
                    }
                }
            }
        }
        if cases.is_empty() {
            out.push(json!({"id": id, "class": class, "empty": true}));
            continue;
        }
        for (inst, (p, vd, desc)) in cases.into_iter().enumerate() {
            let changed = p != honest || vd.circuit_digest != own_vd.circuit_digest || vd.constants_sigmas_cap != own_vd.constants_sigmas_cap;
            let (nat, ndetail) = native_verdict(&p, &vd, &common);
            // self-test: the circuit is shown the untampered proof while the native verdict is the tampered one's
            let shown = if selftest && c == "final_poly" { &honest } else { &p };
            let cv = run_outer(&outer, &constants, |pw| {
                pw.set_proof_with_pis_target(&pt, shown)?;
                pw.set_verifier_data_target(&vdt, &vd)
            });
            let mut row = json!({"id": id, "class": class, "inst": inst, "desc": desc, "changed": changed,
                "native": nat, "native_detail": ndetail, "assignable": cv.assignable, "circuit": cv.accepted,
                "stage": cv.stage, "detail": cv.detail, "selftest": selftest});
            // outer prove + verify on a sample: accepted cases must yield a verifying outer proof
            // carrying the inner public inputs; satisfiable-looking rejected ones must not
            let want_outer = !selftest && ((cv.accepted && sampled < sample) || (cv.stage == "oracle_unsat" && unsat_sampled < 1));
            if want_outer {
                if cv.accepted {
                    sampled += 1;
                } else {
                    unsat_sampled += 1;
                }
                let (proved, verified, pis, od) = outer_prove_verify(&outer, |pw| {
                    pw.set_proof_with_pis_target(&pt, shown)?;
                    pw.set_verifier_data_target(&vdt, &vd)
                });
                let inner_pis: Vec<u64> = p.public_inputs.iter().map(|x| x.to_canonical_u64()).collect();
                row["outer"] = json!({"proved": proved, "verified": verified, "pis_match": pis == inner_pis, "detail": od,
                                      "num_pis": inner_pis.len()});
            }
            out.push(row);
        }
    }
    }
    out
}

fn run(args: &[String]) -> anyhow::Result<()> {
    let inp = opt(args, "--in").ok_or_else(|| anyhow::anyhow!("--in"))?;
    let selftest = args.iter().any(|a| a == "--selftest");
    // several candidate scenarios per slot: the first usable one (not skipped) is taken
    let mut done: std::collections::HashSet<u64> = Default::default();
    for s in read_lines(inp)? {
        let slot = s["slot"].as_u64();
        if let Some(k) = slot {
            if done.contains(&k) {
                continue;
            }
        }
        let t0 = std::time::Instant::now();
        let rows = if s["outer"]["keccak"].as_bool().unwrap_or(false) {
            run_shape::<KeccakGoldilocksConfig>(&s, selftest)
        } else {
            run_shape::<PoseidonGoldilocksConfig>(&s, selftest)
        };
        if let (Some(k), true) = (slot, rows.iter().any(|r| r.get("shape").is_some())) {
            done.insert(k);
        }
        for row in rows {
            emit(&row);
        }
        emit(&json!({"id": s["id"], "done_ms": t0.elapsed().as_millis() as u64}));
    }
    Ok(())
}

fn main() -> std::process::ExitCode {
    run_main(|cmd, rest| match cmd {
        "run" => run(rest),
        other => Err(anyhow::anyhow!("unknown command {other}")),
    })
}
