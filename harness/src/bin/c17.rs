//! C17 — binary encodings round-trip; restored circuits are interchangeable.
//!  `replay --in f [--flip WHAT] [--flip-in WHAT]` : per line one circuit (a vh::prog program under a configuration, a
//!        recursion circuit, or a conditional-recursion circuit with a dummy-proof generator) plus the
//!        histories of spec/Replicas.tla to replay on it.  For every circuit first the static
//!        battery (every to_bytes/from_bytes pair, equality of decoded values, byte-identical
//!        re-encoding, cross acceptance, digests, witnesses) and the Codec shape/size record.
//!  `stark` : what starky offers — serde of StarkProofWithPublicInputs, to_buffer/from_buffer of
//!        StarkProofTarget.
use std::io::BufRead;
use std::marker::PhantomData;

use plonky2::field::extension::{Extendable, FieldExtension};
use plonky2::field::packed::PackedField;
use plonky2::field::polynomial::PolynomialValues;
use plonky2::field::types::Field;
use plonky2::gadgets::arithmetic::EqualityGenerator;
use plonky2::gadgets::arithmetic_extension::QuotientGeneratorExtension;
use plonky2::gadgets::range_check::LowHighGenerator;
use plonky2::gadgets::split_base::BaseSumGenerator;
use plonky2::gadgets::split_join::{SplitGenerator, WireSplitGenerator};
use plonky2::gates::arithmetic_base::{ArithmeticBaseGenerator, ArithmeticGate};
use plonky2::gates::arithmetic_extension::{ArithmeticExtensionGate, ArithmeticExtensionGenerator};
use plonky2::gates::base_sum::{BaseSplitGenerator, BaseSumGate};
use plonky2::gates::constant::ConstantGate;
use plonky2::gates::coset_interpolation::{CosetInterpolationGate, InterpolationGenerator};
use plonky2::gates::exponentiation::{ExponentiationGate, ExponentiationGenerator};
use plonky2::gates::lookup::{LookupGate, LookupGenerator};
use plonky2::gates::lookup_table::{LookupTableGate, LookupTableGenerator};
use plonky2::gates::multiplication_extension::{MulExtensionGate, MulExtensionGenerator};
use plonky2::gates::noop::NoopGate;
use plonky2::gates::poseidon::{PoseidonGate, PoseidonGenerator};
use plonky2::gates::poseidon_mds::{PoseidonMdsGate, PoseidonMdsGenerator};
use plonky2::gates::public_input::PublicInputGate;
use plonky2::gates::random_access::{RandomAccessGate, RandomAccessGenerator};
use plonky2::gates::reducing::{ReducingGate, ReducingGenerator};
use plonky2::gates::reducing_extension::{ReducingExtensionGate, ReducingGenerator as ReducingExtensionGenerator};
use plonky2::hash::hash_types::RichField;
use plonky2::iop::ext_target::ExtensionTarget;
use plonky2::iop::generator::{
    generate_partial_witness, ConstantGenerator, CopyGenerator, NonzeroTestGenerator, RandomValueGenerator,
};
use plonky2::iop::target::Target;
use plonky2::iop::witness::{PartialWitness, Witness, WitnessWrite};
use plonky2::plonk::circuit_builder::CircuitBuilder;
use plonky2::plonk::circuit_data::{
    CircuitData, CommonCircuitData, ProverCircuitData, ProverOnlyCircuitData, VerifierCircuitData,
    VerifierOnlyCircuitData,
};
use plonky2::plonk::config::{GenericConfig, GenericHashOut, Hasher, KeccakGoldilocksConfig, PoseidonGoldilocksConfig};
use plonky2::plonk::proof::{CompressedProofWithPublicInputs, ProofWithPublicInputs};
use plonky2::util::serialization::{
    Buffer, DefaultGateSerializer, DefaultGeneratorSerializer, GateSerializer, WitnessGeneratorSerializer,
};
use plonky2::util::timing::TimingTree;
use plonky2::{
    get_gate_tag_impl, get_generator_tag_impl, impl_gate_serializer, impl_generator_serializer, read_gate_impl,
    read_generator_impl,
};
use rand::Rng;
use serde::Deserialize;
use serde_json::{json, Value};
use starky::config::StarkConfig;
use starky::constraint_consumer::{ConstraintConsumer, RecursiveConstraintConsumer};
use starky::evaluation_frame::{StarkEvaluationFrame, StarkFrame};
use starky::proof::{StarkProofTarget, StarkProofWithPublicInputs};
use starky::stark::Stark;
use starky::util::trace_rows_to_poly_values;
use vh::cfgs::CfgSpec;
use vh::prog::{self, Program, D};
use vh::refarith::GOLDILOCKS;
use vh::util::*;


#[path = "../c17c19_kit.rs"]
#[allow(dead_code)]
mod kit;
use kit::*;

struct Sers<'a> {
    name: &'static str,
    gs: &'a dyn GateSerializer<F, D>,
    ws: &'a dyn WitnessGeneratorSerializer<F, D>,
}

/// a circuit verifying a proof of `inner` (two inner proofs = the two inputs)
fn build_recursion(inner: &Circ<PC>, cfg: &CfgSpec, dummy: bool) -> Result<Circ<PC>, String> {
    let mut proofs = vec![];
    for pw in &inner.pws {
        let p = guarded(|| inner.data.prove(pw.clone()));
        match p {
            Ok(Ok(p)) => proofs.push(p),
            Ok(Err(e)) => return Err(format!("inner prove failed: {e:#}")),
            Err(p) => return Err(format!("inner prove panicked: {p}")),
        }
    }
    let res = guarded(|| {
        let mut b = CircuitBuilder::<F, D>::new(cfg.config());
        let pt = b.add_virtual_proof_with_pis(&inner.data.common);
        let vd = b.add_virtual_verifier_data(inner.data.common.config.fri_config.cap_height);
        let mut cond = None;
        if dummy {
            let c = b.add_virtual_bool_target_safe();
            b.conditionally_verify_proof_or_dummy::<PC>(c, &pt, &vd, &inner.data.common).map_err(|e| format!("{e:#}"))?;
            cond = Some(c);
        } else {
            b.verify_proof::<PC>(&pt, &vd, &inner.data.common);
        }
        b.register_public_inputs(&pt.public_inputs);
        for _ in 0..3 {
            b.add_gate(NoopGate, vec![]);
        }
        let watch = pt.public_inputs.clone();
        let data = b.build::<PC>();
        let mut pws = vec![];
        for (k, p) in proofs.iter().enumerate() {
            let mut pw = PartialWitness::new();
            pw.set_proof_with_pis_target(&pt, p).map_err(|e| e.to_string())?;
            pw.set_verifier_data_target(&vd, &inner.data.verifier_only).map_err(|e| e.to_string())?;
            if let Some(c) = cond {
                // input 0 verifies the real proof, input 1 the dummy
                pw.set_bool_target(c, k == 0).map_err(|e| e.to_string())?;
            }
            pws.push(pw);
        }
        Ok::<_, String>((data, pws, watch))
    });
    match res {
        Ok(Ok((data, pws, watch))) => Ok(Circ {
            data,
            pws,
            watch,
            label: format!("{}({})", if dummy { "conddummy" } else { "recursion" }, inner.label),
        }),
        Ok(Err(e)) => Err(format!("build_failed: {e}")),
        Err(p) => Err(format!("build_failed: panic {p}")),
    }
}


/// a lookup circuit with tables of the given sizes and the given number of lookups into each: tables
/// spanning several LookupTableGate rows, lookups spanning several LookupGate rows, several tables.
/// Input 0 looks up scattered entries, input 1 the LAST entry of every table (and its neighbours).
fn build_lookups<C: GenericConfig<D, F = F>>(tables: &[usize], nlook: &[usize], cfg: &CfgSpec) -> Result<Circ<C>, String> {
    let res = guarded(|| {
        let mut b = CircuitBuilder::<F, D>::new(cfg.config());
        let mut xs: Vec<(usize, Target)> = vec![];
        let mut outs = vec![];
        for (t, &n) in tables.iter().enumerate() {
            let inps: Vec<u16> = (0..n as u16).collect();
            let vals: Vec<u16> = inps.iter().map(|&i| ((i as u32 * i as u32 * 7 + 3 * t as u32 + 11) & 0xFFFF) as u16).collect();
            let id = b.add_lookup_table_from_table(&inps, &vals);
            for _ in 0..nlook[t] {
                let x = b.add_virtual_target();
                outs.push(b.add_lookup_from_index(x, id));
                xs.push((n, x));
            }
        }
        let sum = b.add_many(outs.clone());
        let mut pis = outs.clone();
        pis.truncate(6);
        pis.push(sum);
        b.register_public_inputs(&pis);
        let data = b.build::<C>();
        let mut pws = vec![];
        for k in 0..2usize {
            let mut pw = PartialWitness::new();
            for (j, (n, x)) in xs.iter().enumerate() {
                let v = if k == 0 { (j * 5 + 1) % n } else { (n - 1 + n - (j % 3)) % n };
                pw.set_target(*x, F::from_canonical_usize(v)).map_err(|e| e.to_string())?;
            }
            pws.push(pw);
        }
        let mut watch = outs;
        watch.push(sum);
        Ok::<_, String>((data, pws, watch))
    });
    match res {
        Ok(Ok((data, pws, watch))) => Ok(Circ { data, pws, watch, label: format!("lookups{tables:?}x{nlook:?}") }),
        Ok(Err(e)) => Err(format!("build_failed: {e}")),
        Err(p) => Err(format!("build_failed: panic {p}")),
    }
}

fn distinct2<T: PartialEq>(v: &[T]) -> bool {
    v.iter().any(|a| *a != v[0])
}

/// for every field of the circuit data that is a pair / list of indices (or of values an exchange or a
/// truncation could hide in): does THIS circuit hold two different values there?
fn field_witness<C: GenericConfig<D, F = F>>(d: &CircuitData<F, C, D>) -> Value {
    let po = &d.prover_only;
    let cm = &d.common;
    let cf = &cm.config;
    let fc = &cf.fri_config;
    let sel = plonky2::verif_exports::selector_indices(&cm.selectors_info);
    let grp = plonky2::verif_exports::selector_groups(&cm.selectors_info);
    let adj = |v: &[usize]| v.windows(2).all(|w| w[0] != w[1]);
    json!({
        "prover_only.lookup_rows: (last_lu_gate, last_lut_gate, first_lut_gate) pairwise different": po.lookup_rows.iter().any(|l| l.last_lu_gate != l.last_lut_gate && l.last_lut_gate != l.first_lut_gate && l.last_lu_gate != l.first_lut_gate),
        "prover_only.lookup_rows: two tables": po.lookup_rows.len() >= 2,
        "prover_only.lut_to_lookups: two lists of different lengths, one with >= 2 pairs": po.lut_to_lookups.len() >= 2 && po.lut_to_lookups.iter().any(|l| l.len() != po.lut_to_lookups[0].len()) && po.lut_to_lookups.iter().any(|l| l.len() >= 2),
        "prover_only.lookups span more than one LookupGate row": po.lookup_rows.iter().any(|l| l.last_lut_gate - l.last_lu_gate >= 2),
        "prover_only.generator_indices_by_watches: a list with two different indices": po.generator_indices_by_watches.values().any(|v| distinct2(v)),
        "prover_only.public_inputs: two different targets": distinct2(&po.public_inputs),
        "prover_only.representative_map: neither identity nor constant": distinct2(&po.representative_map) && po.representative_map.iter().enumerate().any(|(i, r)| i != *r),
        "prover_only.sigmas: two different rows": distinct2(&po.sigmas),
        "prover_only.fft_root_table: several levels": po.fft_root_table.as_ref().map(|t| t.len() >= 2).unwrap_or(false),
        "common.selectors_info.selector_indices: two different values": distinct2(sel),
        "common.selectors_info.groups: two groups, start != end": grp.len() >= 2 && grp.iter().any(|g| g.start != g.end),
        "common.fri_params.reduction_arity_bits: two different arities": distinct2(&cm.fri_params.reduction_arity_bits),
        "common.k_is: different values": distinct2(&cm.k_is),
        "common.luts: two different tables, entries with input != output": cm.luts.len() >= 2 && cm.luts[0] != cm.luts[1] && cm.luts.iter().any(|t| t.iter().any(|(a, b)| a != b)),
        "common scalars adjacent in the encoding differ (quotient_degree_factor, num_gate_constraints, num_constants, num_public_inputs)": adj(&[cm.quotient_degree_factor, cm.num_gate_constraints, cm.num_constants, cm.num_public_inputs]),
        "common scalars adjacent in the encoding differ (num_partial_products, num_lookup_polys, num_lookup_selectors)": adj(&[cm.num_partial_products, cm.num_lookup_polys, cm.num_lookup_selectors]) && cm.num_lookup_polys > 0,
        "config scalars adjacent in the encoding differ (num_wires .. max_quotient_degree_factor)": adj(&[cf.num_wires, cf.num_routed_wires, cf.num_constants, cf.security_bits, cf.num_challenges, cf.max_quotient_degree_factor]),
        "fri_config scalars adjacent in the encoding differ (rate_bits, cap_height, proof_of_work_bits / num_query_rounds)": adj(&[fc.rate_bits, fc.cap_height, fc.proof_of_work_bits as usize]) && fc.num_query_rounds != fc.proof_of_work_bits as usize,
        "fri_params: degree_bits differs from every arity": cm.fri_params.reduction_arity_bits.iter().all(|a| *a != cm.fri_params.degree_bits) && !cm.fri_params.reduction_arity_bits.is_empty(),
        "verifier_only.constants_sigmas_cap: two different digests": distinct2(&d.verifier_only.constants_sigmas_cap.0),
    })
}

// ---------------------------------------------------------------------------------------------
// checks
// ---------------------------------------------------------------------------------------------
#[derive(Default)]
struct Report {
    checks: Vec<Value>,
    nfail: usize,
    flip: Option<String>,
    flip_in: Option<String>,
    /// seeded-defect canary: every restored prover data has first_lut_gate / last_lut_gate exchanged
    swap_lookup_rows: bool,
}
impl Report {
    fn seed_swap<C: GenericConfig<D, F = F>>(&self, po: &mut ProverOnlyCircuitData<F, C, D>) {
        if self.swap_lookup_rows {
            for lw in po.lookup_rows.iter_mut() {
                std::mem::swap(&mut lw.first_lut_gate, &mut lw.last_lut_gate);
            }
        }
    }
    /// field-by-field comparison of the index-carrying prover fields (localises a decode difference)
    fn prover_fields<C: GenericConfig<D, F = F>>(&mut self, what: &str, d: &ProverOnlyCircuitData<F, C, D>, o: &ProverOnlyCircuitData<F, C, D>) {
        let rows = |p: &ProverOnlyCircuitData<F, C, D>| p.lookup_rows.iter().map(|l| (l.last_lu_gate, l.last_lut_gate, l.first_lut_gate)).collect::<Vec<_>>();
        self.check("decode", &format!("{what}/lookup_rows-eq"), rows(d) == rows(o), json!({"decoded": rows(d), "original": rows(o)}));
        self.check("decode", &format!("{what}/lut_to_lookups-eq"), d.lut_to_lookups == o.lut_to_lookups, json!(null));
        self.check("decode", &format!("{what}/generator_indices_by_watches-eq"), d.generator_indices_by_watches == o.generator_indices_by_watches, json!(null));
        self.check("decode", &format!("{what}/public_inputs-eq"), d.public_inputs == o.public_inputs, json!(null));
        self.check("decode", &format!("{what}/representative_map-eq"), d.representative_map == o.representative_map, json!(null));
        self.check("decode", &format!("{what}/sigmas-subgroup-roots-eq"), d.sigmas == o.sigmas && d.subgroup == o.subgroup && d.fft_root_table == o.fft_root_table, json!(null));
    }
    /// class: "decode" (decoded value / re-encoding), "cross" (acceptance), "digest", "witness"
    fn check(&mut self, class: &str, what: &str, ok: bool, detail: Value) {
        if !ok {
            self.nfail += 1;
        }
        if !ok || self.checks.len() < 400 {
            self.checks.push(json!({"class": class, "what": what, "ok": ok, "detail": detail}));
        }
    }
    /// byte-identical re-encoding (binding canary: one byte of the re-encoding flipped first)
    fn same_bytes(&mut self, what: &str, orig: &[u8], re: Vec<u8>) {
        let mut re = re;
        if self.flip.as_deref() == Some(what) && !re.is_empty() {
            let k = re.len() / 2;
            re[k] ^= 1;
        }
        let ok = orig == re.as_slice();
        let first = orig.iter().zip(re.iter()).position(|(a, b)| a != b);
        self.check("decode", &format!("{what}/reencode"), ok, json!({"len": orig.len(), "relen": re.len(), "first_diff": first}));
    }
    fn corrupt_in(&self, what: &str, bytes: &[u8]) -> Vec<u8> {
        let mut b = bytes.to_vec();
        if self.flip_in.as_deref() == Some(what) && !b.is_empty() {
            let k = b.len() / 2;
            b[k] ^= 1;
        }
        b
    }
}

fn gd<T>(f: impl FnOnce() -> T) -> Result<T, String> {
    guarded(f)
}

fn flat<T, E: std::fmt::Debug>(r: Result<Result<T, E>, String>) -> Result<T, String> {
    match r {
        Ok(Ok(x)) => Ok(x),
        Ok(Err(e)) => Err(format!("{e:?}")),
        Err(p) => Err(format!("panic: {p}")),
    }
}

fn wit_on<C: GenericConfig<D, F = F>>(po: &ProverOnlyCircuitData<F, C, D>, common: &CommonCircuitData<F, D>, pw: &PartialWitness<F>, watch: &[Target]) -> Result<Vec<Option<u64>>, String> {
    let w = flat(gd(|| generate_partial_witness(pw.clone(), po, common)))?;
    Ok(watch.iter().map(|t| w.try_get_target(*t).map(canon)).collect())
}

/// shape parameters of the Codec grammar + measured sizes
fn codec_record<C: GenericConfig<D, F = F>>(common: &CommonCircuitData<F, D>, p: &ProofWithPublicInputs<F, C, D>, cp: Option<&CompressedProofWithPublicInputs<F, C, D>>) -> Value {
    let c = &common.config;
    let mut v = json!({
        "H": <C::Hasher as Hasher<F>>::HASH_SIZE,
        "cap": c.fri_config.cap_height,
        "nconst": common.num_constants,
        "routed": c.num_routed_wires,
        "wires": c.num_wires,
        "nch": c.num_challenges,
        "nlp": common.num_lookup_polys,
        "npp": common.num_partial_products,
        "qdf": common.quotient_degree_factor,
        "arities": common.fri_params.reduction_arity_bits,
        "dbits": common.fri_params.degree_bits,
        "rate": c.fri_config.rate_bits,
        "q": c.fri_config.num_query_rounds,
        "hiding": common.fri_params.hiding,
        "npi": p.public_inputs.len(),
        "plain": p.to_bytes().len(),
        "indices": [],
        "comp": 0,
    });
    if let Some(cp) = cp {
        v["indices"] = json!(cp.proof.opening_proof.query_round_proofs.indices);
        v["comp"] = json!(cp.to_bytes().len());
    }
    v
}

/// every to_bytes/from_bytes pair on `c`, equality, re-encoding, cross acceptance through restored data
fn battery<C: GenericConfig<D, F = F> + 'static>(c: &Circ<C>, s: &Sers, rep: &mut Report) -> Value {
    let data = &c.data;
    let mut sizes = json!({});
    // --- CommonCircuitData
    let common_bytes = match flat(gd(|| data.common.to_bytes(s.gs))) {
        Ok(b) => b,
        Err(e) => {
            // which gates / generators are not registered with this serializer pair?
            let mut gates: Vec<String> = vec![];
            for g in &data.common.gates {
                let mut buf = Vec::new();
                if s.gs.write_gate(&mut buf, g, &data.common).is_err() && !gates.contains(&g.0.id()) {
                    gates.push(g.0.id());
                }
            }
            let mut gens: Vec<String> = vec![];
            for g in &data.prover_only.generators {
                let mut buf = Vec::new();
                if s.ws.write_generator(&mut buf, g, &data.common).is_err() && !gens.contains(&g.0.id()) {
                    gens.push(g.0.id());
                }
            }
            rep.check("unsupported", "CommonCircuitData/encode", true, json!({"err": e, "serializer": s.name}));
            return json!({"unsupported": format!("gate serializer {} cannot encode this circuit: {e}", s.name),
                          "unregistered_gates": gates, "unregistered_generators": gens});
        }
    };
    sizes["common"] = json!(common_bytes.len());
    match flat(gd(|| CommonCircuitData::<F, D>::from_bytes(rep.corrupt_in("CommonCircuitData", &common_bytes), s.gs))) {
        Ok(d) => {
            rep.check("decode", "CommonCircuitData/eq", d == data.common, json!(null));
            let re = flat(gd(|| d.to_bytes(s.gs))).unwrap_or_default();
            rep.same_bytes("CommonCircuitData", &common_bytes, re);
        }
        Err(e) => rep.check("decode", "CommonCircuitData/decode", false, json!(e)),
    }
    // --- VerifierOnlyCircuitData
    let vo_bytes = data.verifier_only.to_bytes().unwrap();
    sizes["verifier_only"] = json!(vo_bytes.len());
    match flat(gd(|| VerifierOnlyCircuitData::<C, D>::from_bytes(rep.corrupt_in("VerifierOnlyCircuitData", &vo_bytes)))) {
        Ok(d) => {
            rep.check("decode", "VerifierOnlyCircuitData/eq", d == data.verifier_only, json!(null));
            rep.same_bytes("VerifierOnlyCircuitData", &vo_bytes, d.to_bytes().unwrap());
        }
        Err(e) => rep.check("decode", "VerifierOnlyCircuitData/decode", false, json!(e)),
    }
    // --- VerifierCircuitData
    let vdata = data.verifier_data();
    let v_bytes = flat(gd(|| vdata.to_bytes(s.gs))).unwrap_or_default();
    sizes["verifier"] = json!(v_bytes.len());
    let v_restored = match flat(gd(|| VerifierCircuitData::<F, C, D>::from_bytes(rep.corrupt_in("VerifierCircuitData", &v_bytes), s.gs))) {
        Ok(d) => {
            rep.check("decode", "VerifierCircuitData/eq", d == vdata, json!(null));
            let re = flat(gd(|| d.to_bytes(s.gs))).unwrap_or_default();
            rep.same_bytes("VerifierCircuitData", &v_bytes, re);
            Some(d)
        }
        Err(e) => {
            rep.check("decode", "VerifierCircuitData/decode", false, json!(e));
            None
        }
    };
    // --- ProverOnlyCircuitData, CircuitData, ProverCircuitData (need the generator serializer)
    let po_bytes = match flat(gd(|| data.prover_only.to_bytes(s.ws, &data.common))) {
        Ok(b) => b,
        Err(e) => {
            // which generators are not registered?
            let mut missing: Vec<String> = vec![];
            for g in &data.prover_only.generators {
                let mut buf = Vec::new();
                if s.ws.write_generator(&mut buf, g, &data.common).is_err() && !missing.contains(&g.0.id()) {
                    missing.push(g.0.id());
                }
            }
            rep.check("unsupported", "ProverOnlyCircuitData/encode", true, json!({"err": e, "serializer": s.name, "unregistered_generators": missing}));
            return json!({"unsupported": format!("generator serializer {} cannot encode this circuit", s.name), "unregistered_generators": missing, "sizes": sizes});
        }
    };
    sizes["prover_only"] = json!(po_bytes.len());
    match flat(gd(|| ProverOnlyCircuitData::<F, C, D>::from_bytes(&rep.corrupt_in("ProverOnlyCircuitData", &po_bytes), s.ws, &data.common))) {
        Ok(d) => {
            let mut d = d;
            rep.seed_swap(&mut d);
            rep.prover_fields("ProverOnlyCircuitData", &d, &data.prover_only);
            rep.check("decode", "ProverOnlyCircuitData/eq", d == data.prover_only, json!(null));
            let re = flat(gd(|| d.to_bytes(s.ws, &data.common))).unwrap_or_default();
            rep.same_bytes("ProverOnlyCircuitData", &po_bytes, re);
        }
        Err(e) => rep.check("decode", "ProverOnlyCircuitData/decode", false, json!(e)),
    }
    let full_bytes = flat(gd(|| data.to_bytes(s.gs, s.ws))).unwrap_or_default();
    sizes["full"] = json!(full_bytes.len());
    let full_restored = match flat(gd(|| CircuitData::<F, C, D>::from_bytes(&rep.corrupt_in("CircuitData", &full_bytes), s.gs, s.ws))) {
        Ok(d) => {
            let mut d = d;
            rep.seed_swap(&mut d.prover_only);
            rep.check("decode", "CircuitData/eq", d == *data, json!({"common": d.common == data.common, "prover_only": d.prover_only == data.prover_only, "verifier_only": d.verifier_only == data.verifier_only}));
            let re = flat(gd(|| d.to_bytes(s.gs, s.ws))).unwrap_or_default();
            rep.same_bytes("CircuitData", &full_bytes, re);
            Some(d)
        }
        Err(e) => {
            rep.check("decode", "CircuitData/decode", false, json!(e));
            None
        }
    };
    // ProverCircuitData: obtained from a restored full circuit (prover_data consumes its circuit)
    let mut p_restored = None;
    if let Ok(second) = flat(gd(|| CircuitData::<F, C, D>::from_bytes(&full_bytes, s.gs, s.ws))) {
        let pdata = second.prover_data();
        let p_bytes = flat(gd(|| pdata.to_bytes(s.gs, s.ws))).unwrap_or_default();
        sizes["prover"] = json!(p_bytes.len());
        match flat(gd(|| ProverCircuitData::<F, C, D>::from_bytes(&rep.corrupt_in("ProverCircuitData", &p_bytes), s.gs, s.ws))) {
            Ok(d) => {
                let mut d = d;
                rep.seed_swap(&mut d.prover_only);
                // no PartialEq on ProverCircuitData: field-wise, against the ORIGINAL
                rep.check("decode", "ProverCircuitData/eq", d.common == data.common && d.prover_only == data.prover_only, json!(null));
                let re = flat(gd(|| d.to_bytes(s.gs, s.ws))).unwrap_or_default();
                rep.same_bytes("ProverCircuitData", &p_bytes, re);
                p_restored = Some(d);
            }
            Err(e) => rep.check("decode", "ProverCircuitData/decode", false, json!(e)),
        }
    }
    // --- digests
    if let Some(fr) = &full_restored {
        rep.check("digest", "CircuitData/digest", fr.verifier_only.circuit_digest == data.verifier_only.circuit_digest && fr.prover_only.circuit_digest == data.prover_only.circuit_digest, json!(null));
    }
    if let Some(vr) = &v_restored {
        rep.check("digest", "VerifierCircuitData/digest", vr.verifier_only.circuit_digest == data.verifier_only.circuit_digest, json!(null));
    }
    if let Some(pr) = &p_restored {
        rep.check("digest", "ProverCircuitData/digest", pr.prover_only.circuit_digest == data.verifier_only.circuit_digest, json!(null));
    }
    // --- witnesses on the watched targets
    for (i, pw) in c.pws.iter().enumerate() {
        let w0 = wit_on(&data.prover_only, &data.common, pw, &c.watch);
        if let Some(fr) = &full_restored {
            let w1 = wit_on(&fr.prover_only, &fr.common, pw, &c.watch);
            rep.check("witness", &format!("CircuitData/witness{i}"), w0.is_ok() && w0 == w1, json!({"n": c.watch.len(), "err": w1.as_ref().err()}));
        }
        if let Some(pr) = &p_restored {
            let w1 = wit_on(&pr.prover_only, &pr.common, pw, &c.watch);
            rep.check("witness", &format!("ProverCircuitData/witness{i}"), w0.is_ok() && w0 == w1, json!({"n": c.watch.len(), "err": w1.as_ref().err()}));
        }
    }
    // --- proofs: original proves, everyone verifies; restored prove, original verifies
    let mut codec = vec![];
    let p0 = flat(gd(|| data.prove(c.pws[0].clone())));
    match &p0 {
        Ok(p) => {
            rep.check("cross", "original/self-verify", flat(gd(|| data.verify(p.clone()))).is_ok(), json!(null));
            if let Some(fr) = &full_restored {
                let r = flat(gd(|| fr.verify(p.clone())));
                rep.check("cross", "original-proves/restored-CircuitData-verifies", r.is_ok(), json!(r.err()));
            }
            if let Some(vr) = &v_restored {
                let r = flat(gd(|| vr.verify(p.clone())));
                rep.check("cross", "original-proves/restored-VerifierCircuitData-verifies", r.is_ok(), json!(r.err()));
            }
            // proof bytes
            let pb = p.to_bytes();
            match flat(gd(|| ProofWithPublicInputs::<F, C, D>::from_bytes(rep.corrupt_in("ProofWithPublicInputs", &pb), &data.common))) {
                Ok(q) => {
                    rep.check("decode", "ProofWithPublicInputs/eq", q == *p, json!(null));
                    rep.same_bytes("ProofWithPublicInputs", &pb, q.to_bytes());
                    if let Some(vr) = &v_restored {
                        // decoded with the RESTORED common data as well
                        let q2 = flat(gd(|| ProofWithPublicInputs::<F, C, D>::from_bytes(pb.clone(), &vr.common)));
                        rep.check("decode", "ProofWithPublicInputs/eq-via-restored-common", q2.as_ref().ok() == Some(p), json!(q2.err()));
                    }
                }
                Err(e) => rep.check("decode", "ProofWithPublicInputs/decode", false, json!(e)),
            }
            // compressed proof
            let cp = flat(gd(|| data.compress(p.clone())));
            match &cp {
                Ok(cp) => {
                    let cb = cp.to_bytes();
                    match flat(gd(|| CompressedProofWithPublicInputs::<F, C, D>::from_bytes(rep.corrupt_in("CompressedProofWithPublicInputs", &cb), &data.common))) {
                        Ok(q) => {
                            rep.check("decode", "CompressedProofWithPublicInputs/eq", q == *cp, json!(null));
                            rep.same_bytes("CompressedProofWithPublicInputs", &cb, q.to_bytes());
                            if let Some(vr) = &v_restored {
                                let r = flat(gd(|| vr.verify_compressed(q.clone())));
                                rep.check("cross", "original-compresses/restored-VerifierCircuitData-verifies-decoded", r.is_ok(), json!(r.err()));
                            }
                            if let Some(fr) = &full_restored {
                                let r = flat(gd(|| fr.decompress(q.clone())));
                                rep.check("cross", "restored-CircuitData-decompresses", r.as_ref().ok() == Some(p), json!(r.err()));
                            }
                        }
                        Err(e) => rep.check("decode", "CompressedProofWithPublicInputs/decode", false, json!(e)),
                    }
                    codec.push(codec_record(&data.common, p, Some(cp)));
                }
                Err(e) => {
                    rep.check("cross", "original/compress", false, json!(e));
                    codec.push(codec_record::<C>(&data.common, p, None));
                }
            }
        }
        Err(e) => rep.check("cross", "original/prove", false, json!(e)),
    }
    let pw1 = c.pws[c.pws.len() - 1].clone();
    if let Some(fr) = &full_restored {
        let p1 = flat(gd(|| fr.prove(pw1.clone())));
        match &p1 {
            Ok(p) => {
                let r = flat(gd(|| data.verify(p.clone())));
                rep.check("cross", "restored-CircuitData-proves/original-verifies", r.is_ok(), json!(r.err()));
                if let Ok(p0) = &p0 {
                    if c.pws.len() == 1 || true {
                        // same statement, possibly different randomness: public inputs of equal inputs agree
                        let again = flat(gd(|| fr.prove(c.pws[0].clone())));
                        rep.check("witness", "restored-CircuitData/public-inputs", again.as_ref().map(|a| a.public_inputs == p0.public_inputs).unwrap_or(false), json!(again.err()));
                    }
                }
            }
            Err(e) => rep.check("cross", "restored-CircuitData/prove", false, json!(e)),
        }
    }
    if let Some(pr) = &p_restored {
        let p2 = flat(gd(|| pr.prove(pw1.clone())));
        match &p2 {
            Ok(p) => {
                let r = flat(gd(|| data.verify(p.clone())));
                rep.check("cross", "restored-ProverCircuitData-proves/original-verifies", r.is_ok(), json!(r.err()));
                if let Some(vr) = &v_restored {
                    let r = flat(gd(|| vr.verify(p.clone())));
                    rep.check("cross", "restored-ProverCircuitData-proves/restored-VerifierCircuitData-verifies", r.is_ok(), json!(r.err()));
                }
            }
            Err(e) => rep.check("cross", "restored-ProverCircuitData/prove", false, json!(e)),
        }
    }
    json!({"sizes": sizes, "codec": codec})
}

// ---------------------------------------------------------------------------------------------
// histories of spec/Replicas.tla
// ---------------------------------------------------------------------------------------------
#[derive(Deserialize, Clone, Debug)]
struct Op {
    op: String,
    #[serde(default)]
    r: usize,
    #[serde(default)]
    b: usize,
    #[serde(default)]
    p: usize,
    #[serde(default)]
    i: usize,
}

enum Rep<'a, C: GenericConfig<D, F = F>> {
    Orig(&'a CircuitData<F, C, D>),
    Full(Box<CircuitData<F, C, D>>),
    Prover(Box<ProverCircuitData<F, C, D>>),
    Verifier(Box<VerifierCircuitData<F, C, D>>),
    Gone,
}
impl<'a, C: GenericConfig<D, F = F>> Rep<'a, C> {
    fn full(&self) -> Option<&CircuitData<F, C, D>> {
        match self {
            Rep::Orig(d) => Some(d),
            Rep::Full(d) => Some(d),
            _ => None,
        }
    }
    fn common(&self) -> Option<&CommonCircuitData<F, D>> {
        match self {
            Rep::Orig(d) => Some(&d.common),
            Rep::Full(d) => Some(&d.common),
            Rep::Prover(d) => Some(&d.common),
            Rep::Verifier(d) => Some(&d.common),
            Rep::Gone => None,
        }
    }
    fn digest(&self) -> Option<Vec<<C::Hasher as Hasher<F>>::Hash>> {
        match self {
            Rep::Orig(d) => Some(vec![d.verifier_only.circuit_digest, d.prover_only.circuit_digest]),
            Rep::Full(d) => Some(vec![d.verifier_only.circuit_digest, d.prover_only.circuit_digest]),
            Rep::Prover(d) => Some(vec![d.prover_only.circuit_digest]),
            Rep::Verifier(d) => Some(vec![d.verifier_only.circuit_digest]),
            Rep::Gone => None,
        }
    }
    fn prover(&self) -> Option<(&ProverOnlyCircuitData<F, C, D>, &CommonCircuitData<F, D>)> {
        match self {
            Rep::Orig(d) => Some((&d.prover_only, &d.common)),
            Rep::Full(d) => Some((&d.prover_only, &d.common)),
            Rep::Prover(d) => Some((&d.prover_only, &d.common)),
            _ => None,
        }
    }
    fn verifier(&self) -> Option<(&VerifierOnlyCircuitData<C, D>, &CommonCircuitData<F, D>)> {
        match self {
            Rep::Orig(d) => Some((&d.verifier_only, &d.common)),
            Rep::Full(d) => Some((&d.verifier_only, &d.common)),
            Rep::Verifier(d) => Some((&d.verifier_only, &d.common)),
            _ => None,
        }
    }
}

#[derive(Clone)]
enum Pf<C: GenericConfig<D, F = F>> {
    Plain(ProofWithPublicInputs<F, C, D>),
    Comp(CompressedProofWithPublicInputs<F, C, D>),
    Missing,
}

struct Blob {
    kind: &'static str,
    bytes: Vec<u8>,
}

/// replays one history; returns the per-step observations (every expectation of the specification is
/// the positive one: ok / accept / equal)
fn replay_history<C: GenericConfig<D, F = F> + 'static>(c: &Circ<C>, s: &Sers, ops: &[Op], wit0: &[Result<Vec<Option<u64>>, String>], flip: bool, swap: bool) -> Vec<Value> {
    let mut reps: Vec<Rep<C>> = vec![Rep::Orig(&c.data)];
    let mut blobs: Vec<Blob> = vec![];
    let mut proofs: Vec<Pf<C>> = vec![];
    let digest0 = c.data.verifier_only.circuit_digest;
    let mut out = vec![];
    for (k, op) in ops.iter().enumerate() {
        let mut obs = |class: &str, ok: bool, detail: Value| {
            out.push(json!({"step": k, "op": op.op, "class": class, "ok": ok, "detail": detail}));
        };
        match op.op.as_str() {
            "Save" => {
                let res = match reps.get(op.r) {
                    Some(Rep::Orig(d)) => flat(gd(|| d.to_bytes(s.gs, s.ws))).map(|b| ("full", b)),
                    Some(Rep::Full(d)) => flat(gd(|| d.to_bytes(s.gs, s.ws))).map(|b| ("full", b)),
                    Some(Rep::Prover(d)) => flat(gd(|| d.to_bytes(s.gs, s.ws))).map(|b| ("prover", b)),
                    Some(Rep::Verifier(d)) => flat(gd(|| d.to_bytes(s.gs))).map(|b| ("verifier", b)),
                    _ => Err("no such replica".into()),
                };
                match res {
                    Ok((kind, bytes)) => {
                        obs("decode", true, json!({"kind": kind, "len": bytes.len()}));
                        blobs.push(Blob { kind, bytes });
                    }
                    Err(e) => {
                        obs("decode", false, json!(e));
                        blobs.push(Blob { kind: "none", bytes: vec![] });
                    }
                }
            }
            "Restore" => {
                let Some(b) = blobs.get(op.b) else {
                    obs("harness", false, json!("no such blob"));
                    reps.push(Rep::Gone);
                    continue;
                };
                let mut bytes = b.bytes.clone();
                let r: Result<Rep<C>, String> = match b.kind {
                    "full" => flat(gd(|| CircuitData::<F, C, D>::from_bytes(&bytes, s.gs, s.ws))).map(|d| Rep::Full(Box::new(d))),
                    "prover" => flat(gd(|| ProverCircuitData::<F, C, D>::from_bytes(&bytes, s.gs, s.ws))).map(|d| Rep::Prover(Box::new(d))),
                    "verifier" => flat(gd(|| VerifierCircuitData::<F, C, D>::from_bytes(bytes.clone(), s.gs))).map(|d| Rep::Verifier(Box::new(d))),
                    _ => Err("blob was not produced".into()),
                };
                match r {
                    Ok(rp) => {
                        let mut rp = rp;
                        if swap {
                            // seeded-defect canary: the restore exchanges first_lut_gate / last_lut_gate
                            let po = match &mut rp {
                                Rep::Full(d) => Some(&mut d.prover_only),
                                Rep::Prover(d) => Some(&mut d.prover_only),
                                _ => None,
                            };
                            if let Some(po) = po {
                                for lw in po.lookup_rows.iter_mut() {
                                    std::mem::swap(&mut lw.first_lut_gate, &mut lw.last_lut_gate);
                                }
                            }
                        }
                        // decoded = original: byte-identical re-encoding and, where derived, equality with the original
                        let re = match &rp {
                            Rep::Full(d) => flat(gd(|| d.to_bytes(s.gs, s.ws))),
                            Rep::Prover(d) => flat(gd(|| d.to_bytes(s.gs, s.ws))),
                            Rep::Verifier(d) => flat(gd(|| d.to_bytes(s.gs))),
                            _ => Err("?".into()),
                        };
                        let eq = match &rp {
                            Rep::Full(d) => **d == c.data,
                            Rep::Prover(d) => d.common == c.data.common && d.prover_only == c.data.prover_only,
                            Rep::Verifier(d) => d.common == c.data.common && d.verifier_only == c.data.verifier_only,
                            _ => false,
                        };
                        if flip && !bytes.is_empty() {
                            let k = bytes.len() / 2;
                            bytes[k] ^= 1;
                        }
                        let same = re.as_ref().map(|x| *x == bytes).unwrap_or(false);
                        obs("decode", eq && same, json!({"eq_original": eq, "reencode_identical": same, "kind": b.kind}));
                        reps.push(rp);
                    }
                    Err(e) => {
                        obs("decode", false, json!(e));
                        reps.push(Rep::Gone);
                    }
                }
            }
            "NarrowV" => match reps.get(op.r).and_then(|r| r.full()) {
                Some(d) => {
                    let v = d.verifier_data();
                    obs("decode", v.common == c.data.common && v.verifier_only == c.data.verifier_only, json!(null));
                    reps.push(Rep::Verifier(Box::new(v)));
                }
                None => {
                    obs("harness", false, json!("NarrowV on a replica that is not a full circuit"));
                    reps.push(Rep::Gone);
                }
            },
            "NarrowP" => {
                if op.r == 0 || op.r >= reps.len() {
                    obs("harness", false, json!("NarrowP on the original / missing replica"));
                    continue;
                }
                let old = std::mem::replace(&mut reps[op.r], Rep::Gone);
                match old {
                    Rep::Full(d) => {
                        let p = d.prover_data();
                        obs("decode", p.common == c.data.common && p.prover_only == c.data.prover_only, json!(null));
                        reps[op.r] = Rep::Prover(Box::new(p));
                    }
                    other => {
                        reps[op.r] = other;
                        obs("harness", false, json!("NarrowP on a replica that is not a full circuit"));
                    }
                }
            }
            "Prove" => match reps.get(op.r).and_then(|r| r.prover()) {
                Some((po, common)) => {
                    let pw = c.pws[op.i % c.pws.len()].clone();
                    let r = flat(gd(|| plonky2::plonk::prover::prove::<F, C, D>(po, common, pw, &mut TimingTree::default())));
                    match r {
                        Ok(p) => {
                            obs("cross", true, json!({"npi": p.public_inputs.len()}));
                            proofs.push(Pf::Plain(p));
                        }
                        Err(e) => {
                            obs("cross", false, json!(e));
                            proofs.push(Pf::Missing);
                        }
                    }
                }
                None => {
                    obs("harness", false, json!("Prove on a replica without prover data"));
                    proofs.push(Pf::Missing);
                }
            },
            "Verify" => match (reps.get(op.r).and_then(|r| r.verifier()), proofs.get(op.p)) {
                (Some((vo, common)), Some(Pf::Plain(p))) => {
                    let vd = VerifierCircuitData { verifier_only: vo.clone(), common: common.clone() };
                    let r = flat(gd(|| vd.verify(p.clone())));
                    obs("cross", r.is_ok(), json!(r.err()));
                }
                (Some((vo, common)), Some(Pf::Comp(p))) => {
                    let vd = VerifierCircuitData { verifier_only: vo.clone(), common: common.clone() };
                    let r = flat(gd(|| vd.verify_compressed(p.clone())));
                    obs("cross", r.is_ok(), json!(r.err()));
                }
                (_, Some(Pf::Missing)) => obs("skipped", true, json!("proof was not produced")),
                _ => obs("harness", false, json!("Verify: no verifier data / no such proof")),
            },
            "Compress" | "Decompress" => {
                let dg = reps.get(op.r).and_then(|r| r.digest()).map(|d| d[0]);
                let cm = reps.get(op.r).and_then(|r| r.common());
                match (dg, cm, proofs.get(op.p)) {
                    (Some(dg), Some(cm), Some(Pf::Plain(p))) if op.op == "Compress" => {
                        let r = flat(gd(|| p.clone().compress(&dg, cm)));
                        match r {
                            Ok(cp) => {
                                obs("cross", true, json!(null));
                                proofs.push(Pf::Comp(cp));
                            }
                            Err(e) => {
                                obs("cross", false, json!(e));
                                proofs.push(Pf::Missing);
                            }
                        }
                    }
                    (Some(dg), Some(cm), Some(Pf::Comp(p))) if op.op == "Decompress" => {
                        let r = flat(gd(|| p.clone().decompress(&dg, cm)));
                        match r {
                            Ok(pp) => {
                                obs("cross", true, json!(null));
                                proofs.push(Pf::Plain(pp));
                            }
                            Err(e) => {
                                obs("cross", false, json!(e));
                                proofs.push(Pf::Missing);
                            }
                        }
                    }
                    (_, _, Some(Pf::Missing)) => {
                        obs("skipped", true, json!("proof was not produced"));
                        proofs.push(Pf::Missing);
                    }
                    _ => {
                        obs("harness", false, json!("Compress/Decompress: wrong proof form or replica"));
                        proofs.push(Pf::Missing);
                    }
                }
            }
            "Recode" => match (reps.get(op.r).and_then(|r| r.common()), proofs.get(op.p).cloned()) {
                (Some(cm), Some(Pf::Plain(p))) => {
                    let mut bytes = p.to_bytes();
                    let r = flat(gd(|| ProofWithPublicInputs::<F, C, D>::from_bytes(bytes.clone(), cm)));
                    match r {
                        Ok(q) => {
                            if flip {
                                let k = bytes.len() / 2;
                                bytes[k] ^= 1;
                            }
                            let same = q.to_bytes() == bytes;
                            obs("decode", q == p && same, json!({"eq": q == p, "reencode_identical": same, "len": bytes.len()}));
                            proofs.push(Pf::Plain(q));
                        }
                        Err(e) => {
                            obs("decode", false, json!(e));
                            proofs.push(Pf::Missing);
                        }
                    }
                }
                (Some(cm), Some(Pf::Comp(p))) => {
                    let mut bytes = p.to_bytes();
                    let r = flat(gd(|| CompressedProofWithPublicInputs::<F, C, D>::from_bytes(bytes.clone(), cm)));
                    match r {
                        Ok(q) => {
                            if flip {
                                let k = bytes.len() / 2;
                                bytes[k] ^= 1;
                            }
                            let same = q.to_bytes() == bytes;
                            obs("decode", q == p && same, json!({"eq": q == p, "reencode_identical": same, "len": bytes.len()}));
                            proofs.push(Pf::Comp(q));
                        }
                        Err(e) => {
                            obs("decode", false, json!(e));
                            proofs.push(Pf::Missing);
                        }
                    }
                }
                (_, Some(Pf::Missing)) => {
                    obs("skipped", true, json!("proof was not produced"));
                    proofs.push(Pf::Missing);
                }
                _ => {
                    obs("harness", false, json!("Recode: no such replica / proof"));
                    proofs.push(Pf::Missing);
                }
            },
            "Digest" => match reps.get(op.r).and_then(|r| r.digest()) {
                Some(ds) => obs("digest", ds.iter().all(|d| *d == digest0), json!({"digest": digest0.to_bytes().iter().take(8).map(|b| format!("{b:02x}")).collect::<String>()})),
                None => obs("harness", false, json!("Digest: no such replica")),
            },
            "GenWitness" => match reps.get(op.r).and_then(|r| r.prover()) {
                Some((po, common)) => {
                    let i = op.i % c.pws.len();
                    let w = wit_on(po, common, &c.pws[i], &c.watch);
                    obs("witness", wit0[i].is_ok() && w == wit0[i], json!({"watched": c.watch.len(), "err": w.err()}));
                }
                None => obs("harness", false, json!("GenWitness on a replica without prover data")),
            },
            other => obs("harness", false, json!(format!("unknown op {other}"))),
        }
    }
    out
}

fn run_circuit<C: GenericConfig<D, F = F> + 'static>(c: &Circ<C>, s: &Sers, line: &Value, args: &[String]) -> Value {
    let mut rep = Report { flip: opt(args, "--flip").map(|x| x.to_string()), flip_in: opt(args, "--flip-in").map(|x| x.to_string()),
                           swap_lookup_rows: args.iter().any(|a| a == "--swap-lookup-rows"), ..Default::default() };
    let flip_hist = args.iter().any(|a| a == "--flip-history");
    let bat = battery(c, s, &mut rep);
    let mut gens: Vec<String> = c.data.prover_only.generators.iter().map(|g| g.0.id()).collect();
    gens.sort();
    gens.dedup();
    let mut out = json!({
        "label": c.label,
        "serializer": s.name,
        "degree_bits": c.data.common.degree_bits(),
        "gates": c.data.common.gates.iter().map(|g| g.0.id()).collect::<Vec<_>>(),
        "generators": gens,
        "field_witness": field_witness(&c.data),
        "battery": bat,
    });
    let mut hres = vec![];
    if bat.get("unsupported").is_none() {
        let wit0: Vec<_> = c.pws.iter().map(|pw| wit_on(&c.data.prover_only, &c.data.common, pw, &c.watch)).collect();
        if let Some(hs) = line["histories"].as_array() {
            for h in hs {
                let ops: Vec<Op> = match serde_json::from_value(h["ops"].clone()) {
                    Ok(o) => o,
                    Err(e) => {
                        hres.push(json!({"hid": h["hid"], "error": e.to_string()}));
                        continue;
                    }
                };
                let steps = replay_history(c, s, &ops, &wit0, flip_hist, rep.swap_lookup_rows);
                hres.push(json!({"hid": h["hid"], "steps": steps}));
            }
        }
    }
    out["checks"] = json!(rep.checks);
    out["nfail"] = json!(rep.nfail);
    out["histories"] = json!(hres);
    out
}

fn replay(args: &[String]) -> anyhow::Result<()> {
    let inp = opt(args, "--in").ok_or_else(|| anyhow::anyhow!("--in"))?;
    let mut r = rng(17);
    let defg = DefaultGateSerializer;
    let defw = DefaultGeneratorSerializer::<PC, D>::default();
    let g4 = GateSer4;
    let w4 = GenSer4;
    for line in read_lines(inp)? {
        let t0 = std::time::Instant::now();
        let kind = line["kind"].as_str().unwrap_or("prog").to_string();
        let prog: Program = serde_json::from_value(line["prog"].clone())?;
        let cfg: CfgSpec = serde_json::from_value(line["cfg"].clone())?;
        let classes: Vec<String> = serde_json::from_value(line["inputs"].clone())?;
        let ext = line["ser"].as_str() == Some("ext");
        let sers = if ext { Sers { name: "ext", gs: &g4, ws: &w4 } } else { Sers { name: "default", gs: &defg, ws: &defw } };
        // an inadmissible (program, configuration) pair is replayed under the fallback configuration instead
        let fallback: Option<CfgSpec> = line.get("fallback").and_then(|f| serde_json::from_value(f.clone()).ok());
        let mut used_fallback = false;
        let mut out = if kind == "prog" && cfg.keccak {
            // no DefaultGeneratorSerializer under Keccak: the macro-generated serializer without DummyProofGenerator
            let sers = Sers { name: "ext", gs: &g4, ws: &w4 };
            let mut b = build_prog::<KC>(&prog, &cfg, &classes, &mut r, false);
            if let (Err(why), Some(fb)) = (&b, &fallback) {
                if !why.starts_with("unsat") {
                    b = build_prog::<KC>(&prog, fb, &classes, &mut r, false);
                    used_fallback = b.is_ok();
                }
            }
            match b {
                Ok(c) => run_circuit(&c, &sers, &line, args),
                Err(why) => json!({"skipped": why}),
            }
        } else if kind == "lookups" {
            let tables: Vec<usize> = serde_json::from_value(line["tables"].clone())?;
            let nlook: Vec<usize> = serde_json::from_value(line["nlook"].clone())?;
            if cfg.keccak {
                let sers = Sers { name: "ext", gs: &g4, ws: &w4 };
                match build_lookups::<KC>(&tables, &nlook, &cfg) {
                    Ok(c) => run_circuit(&c, &sers, &line, args),
                    Err(why) => json!({"skipped": why}),
                }
            } else {
                match build_lookups::<PC>(&tables, &nlook, &cfg) {
                    Ok(c) => run_circuit(&c, &sers, &line, args),
                    Err(why) => json!({"skipped": why}),
                }
            }
        } else if kind == "prog" {
            let mut b = build_prog::<PC>(&prog, &cfg, &classes, &mut r, false);
            if let (Err(why), Some(fb)) = (&b, &fallback) {
                if !why.starts_with("unsat") {
                    b = build_prog::<PC>(&prog, fb, &classes, &mut r, false);
                    used_fallback = b.is_ok();
                }
            }
            match b {
                Ok(c) => run_circuit(&c, &sers, &line, args),
                Err(why) => json!({"skipped": why}),
            }
        } else {
            // recursion / conddummy: the inner circuit is the program under the inner configuration
            let icfg: CfgSpec = serde_json::from_value(line["inner_cfg"].clone()).unwrap_or_else(|_| CfgSpec::standard());
            match build_prog::<PC>(&prog, &icfg, &classes, &mut r, kind == "conddummy") {
                Ok(inner) => match build_recursion(&inner, &cfg, kind == "conddummy") {
                    Ok(c) => run_circuit(&c, &sers, &line, args),
                    Err(why) => json!({"skipped": why}),
                },
                Err(why) => json!({"skipped": format!("inner: {why}")}),
            }
        };
        if let Some(w) = out.get("skipped").and_then(|w| w.as_str()) {
            let w: String = w.chars().take(300).collect();
            out["skipped"] = json!(w);
        }
        out["id"] = line["id"].clone();
        out["fallback_used"] = json!(used_fallback);
        out["kind"] = json!(kind);
        out["ms"] = json!(t0.elapsed().as_millis() as u64);
        emit(&out);
    }
    Ok(())
}

// ---------------------------------------------------------------------------------------------
// STARK side: starky offers serde on proofs and to_buffer/from_buffer on proof targets
// ---------------------------------------------------------------------------------------------
fn stark(args: &[String]) -> anyhow::Result<()> {
    let flip = args.iter().any(|a| a == "--flip");
    let mut checks = vec![];
    let mut cases = 0usize;
    let mut ck = |what: String, ok: bool, detail: Value| checks.push(json!({"what": what, "ok": ok, "detail": detail}));
    for (k, (rows, cap, q)) in [(8usize, 1usize, 3usize), (64, 2, 10), (256, 4, 28), (16, 0, 5)].into_iter().enumerate() {
        let mut config = StarkConfig::standard_fast_config();
        config.fri_config.cap_height = cap;
        config.fri_config.num_query_rounds = q;
        config.fri_config.proof_of_work_bits = 4;
        let st = Fib::<F, D> { num_rows: rows, _p: PhantomData };
        let (x0, x1) = (F::from_canonical_u64(k as u64), F::ONE);
        let pis = [x0, x1, fib_n(rows - 1, x0, x1)];
        let trace = st.trace(x0, x1);
        let proof = match flat(gd(|| starky::prover::prove::<F, PC, _, D>(st, &config, trace, &pis, None, &mut TimingTree::default()))) {
            Ok(p) => p,
            Err(e) => {
                ck(format!("stark{rows}/prove"), false, json!(e));
                continue;
            }
        };
        cases += 1;
        ck(format!("stark{rows}/verify"), flat(gd(|| starky::verifier::verify_stark_proof(st, proof.clone(), &config, None))).is_ok(), json!(null));
        // serde_json round trip (the only encoding of StarkProofWithPublicInputs the crate offers)
        let js = serde_json::to_string(&proof)?;
        let back: Result<StarkProofWithPublicInputs<F, PC, D>, _> = serde_json::from_str(&js);
        match back {
            Ok(q) => {
                let mut js2 = serde_json::to_string(&q)?;
                if flip {
                    // binding canary: alter one digit of the re-encoding
                    let pos = js2.rfind(|c: char| c.is_ascii_digit()).unwrap();
                    let ch = js2.as_bytes()[pos];
                    let nc = if ch == b'9' { '1' } else { (ch + 1) as char };
                    js2.replace_range(pos..pos + 1, &nc.to_string());
                }
                ck(format!("stark{rows}/serde-reencode"), js == js2, json!({"len": js.len()}));
                ck(format!("stark{rows}/decoded-verifies"), flat(gd(|| starky::verifier::verify_stark_proof(st, q.clone(), &config, None))).is_ok(), json!(null));
                // the decoded proof yields the same challenges
                let d = q.proof.recover_degree_bits(&config);
                let c1 = gd(|| proof.get_challenges(&st, &mut plonky2::iop::challenger::Challenger::new(), None, None, false, &config, None));
                let c2 = gd(|| q.get_challenges(&st, &mut plonky2::iop::challenger::Challenger::new(), None, None, false, &config, None));
                let same = match (&c1, &c2) {
                    (Ok(a), Ok(b)) => format!("{a:?}") == format!("{b:?}"),
                    _ => false,
                };
                ck(format!("stark{rows}/challenges-equal"), same, json!({"degree_bits": d}));
            }
            Err(e) => ck(format!("stark{rows}/serde-decode"), false, json!(e.to_string())),
        }
        // proof target: to_buffer / from_buffer
        let mut b = CircuitBuilder::<F, D>::new(plonky2::plonk::circuit_data::CircuitConfig::standard_recursion_config());
        let degree_bits = proof.proof.recover_degree_bits(&config);
        let pt = starky::recursive_verifier::add_virtual_stark_proof(&mut b, &st, &config, degree_bits, 0, 0);
        let mut buf = Vec::new();
        match pt.to_buffer(&mut buf) {
            Ok(()) => {
                let mut rd = Buffer::new(&buf);
                match StarkProofTarget::<D>::from_buffer(&mut rd) {
                    Ok(back) => {
                        ck(format!("stark{rows}/target-eq"), back == pt, json!({"len": buf.len()}));
                        let mut buf2 = Vec::new();
                        let _ = back.to_buffer(&mut buf2);
                        if flip && !buf2.is_empty() {
                            let k = buf2.len() / 2;
                            buf2[k] ^= 1;
                        }
                        ck(format!("stark{rows}/target-reencode"), buf == buf2, json!(null));
                    }
                    Err(e) => ck(format!("stark{rows}/target-decode"), false, json!(format!("{e:?}"))),
                }
            }
            Err(e) => ck(format!("stark{rows}/target-encode"), false, json!(format!("{e:?}"))),
        }
    }
    emit(&json!({"kind": "stark", "cases": cases, "checks": checks}));
    Ok(())
}

fn main() -> std::process::ExitCode {
    run_main(|cmd, rest| match cmd {
        "replay" => replay(rest),
        "stark" => stark(rest),
        other => Err(anyhow::anyhow!("unknown command {other}")),
    })
}
