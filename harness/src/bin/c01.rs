//! C01 (and the unsatisfiable half feeding C02): replay of spec/Programs.tla scenarios.
//!  `interp17 --in f`  : the harness interpreter over F_17 against the values TLC computed
//!  `run --in f`       : programs x input classes x configurations through build/prove/verify
use std::io::BufRead;

use plonky2::field::types::PrimeField64;
use plonky2::plonk::circuit_builder::CircuitBuilder;
use plonky2::plonk::circuit_data::CircuitData;
use plonky2::plonk::config::{GenericConfig, KeccakGoldilocksConfig, PoseidonGoldilocksConfig};
use rand::Rng;
use serde_json::{json, Value};
use vh::cfgs::CfgSpec;
use vh::prog::{self, Program, D};
use vh::refarith::GOLDILOCKS;
use vh::util::*;

fn read_lines(path: &str) -> anyhow::Result<Vec<Value>> {
    let f = std::fs::File::open(path)?;
    let mut v = vec![];
    for l in std::io::BufReader::new(f).lines() {
        let l = l?;
        if l.trim().is_empty() {
            continue;
        }
        v.push(serde_json::from_str(&l)?);
    }
    Ok(v)
}

fn interp17(args: &[String]) -> anyhow::Result<()> {
    let inp = opt(args, "--in").ok_or_else(|| anyhow::anyhow!("--in"))?;
    let mut n = 0u64;
    let mut cases = 0u64;
    let mut mism = vec![];
    for s in read_lines(inp)? {
        if s["real_only"].as_bool().unwrap_or(false) {
            continue;
        }
        let prog: Program = serde_json::from_value(s["prog"].clone())?;
        let inputs: Vec<Vec<u64>> = serde_json::from_value(s["inputs"].clone())?;
        let expect = s["expect"].as_array().unwrap();
        n += 1;
        for (iv, ex) in inputs.iter().zip(expect) {
            cases += 1;
            let got = prog::interp(&prog, iv, 17, 5);
            let ok = match (&got, ex.get("unsat").and_then(|u| u.as_bool()).unwrap_or(false)) {
                (Err(_), true) => true,
                (Ok(st), false) => {
                    let ev: Vec<u64> = serde_json::from_value(ex["vals"].clone())?;
                    st.vals == ev
                }
                _ => false,
            };
            if !ok && mism.len() < 10 {
                mism.push(json!({"id": s["id"], "inputs": iv, "expected": ex,
                    "got": match &got { Ok(st) => json!(st.vals), Err(u) => json!({"unsat": u.0}) }}));
            }
        }
    }
    emit(&json!({"kind": "interp17", "programs": n, "cases": cases, "mismatches": mism}));
    Ok(())
}

pub fn concretize(class: &str, r: &mut impl Rng) -> u64 {
    let p = GOLDILOCKS;
    let parts: Vec<&str> = class.split(':').collect();
    match parts[0] {
        "zero" => 0,
        "one" => 1,
        "two" => 2,
        "pm1" => p - 1,
        "pm2" => p - 2,
        "pow2" => 1u64 << parts[1].parse::<u32>().unwrap(),
        "pow2m1" => (1u64 << parts[1].parse::<u32>().unwrap()) - 1,
        "small" => r.gen_range(0..parts[1].parse::<u64>().unwrap()),
        "eps" => 0xFFFF_FFFF,
        _ => r.gen_range(0..p),
    }
}

fn friadm(args: &[String]) -> anyhow::Result<()> {
    let inp = opt(args, "--in").ok_or_else(|| anyhow::anyhow!("--in"))?;
    let rows: Vec<Value> = serde_json::from_str(&std::fs::read_to_string(inp)?)?;
    let mut mism = vec![];
    for r in &rows {
        let cfg: CfgSpec = serde_json::from_value(r["cfg"].clone())?;
        let d = r["d"].as_u64().unwrap() as usize;
        let ok = cfg.fri_admissible(d).is_ok();
        if ok != r["ok"].as_bool().unwrap() && mism.len() < 10 {
            mism.push(r.clone());
        }
    }
    emit(&json!({"kind": "friadm", "rows": rows.len(), "mismatches": mism}));
    Ok(())
}

fn run_one<C: GenericConfig<D, F = F>>(prog: &Program, cfg: &CfgSpec, inputs: &[u64], with_pis: bool, corrupt: bool) -> Value {
    let mut it = prog::interp(prog, inputs, GOLDILOCKS, 64);
    if corrupt {
        // self-test: a wrong expectation must surface as a discrepancy
        if let Ok(st) = it.as_mut() {
            let k = st.vals.len() - 1;
            st.vals[k] ^= 1;
        }
    }
    let sat = it.is_ok();
    let base = json!({"sat": sat, "unsat_reason": it.as_ref().err().map(|u| u.0.clone())});
    let res = |outcome: &str, detail: Value| {
        let mut b = base.clone();
        b["outcome"] = json!(outcome);
        b["detail"] = detail;
        b
    };
    if !prog::admissible(prog, &cfg.config(), with_pis) {
        return res("inadmissible", json!("row width"));
    }
    // probe: same rows, safe FRI parameters -> degree bits
    let probe = guarded(|| {
        let mut b = CircuitBuilder::<F, D>::new(cfg.probe_config());
        let built = prog::build(prog, &mut b, 64).map_err(|e| e.to_string())?;
        if with_pis {
            b.register_public_inputs(&built.vals);
        }
        let data = b.build::<C>();
        Ok::<usize, String>(data.common.degree_bits())
    });
    let degree_bits = match probe {
        Ok(Ok(d)) => d,
        Ok(Err(e)) => return res("build_failed", json!({"stage": "probe", "err": e})),
        Err(p) => return res("build_failed", json!({"stage": "probe", "panic": p})),
    };
    if let Err(why) = cfg.fri_admissible(degree_bits) {
        return res("inadmissible", json!(why));
    }
    if cfg.strat == "minsize" {
        let ar = cfg.strategy().reduction_arity_bits(degree_bits, cfg.rate, cfg.cap, cfg.q);
        let s: usize = ar.iter().sum();
        if degree_bits + cfg.rate < s + cfg.cap {
            return res("inadmissible", json!("MinSize schedule folds below the cap height"));
        }
    }
    let built = guarded(|| {
        let mut b = CircuitBuilder::<F, D>::new(cfg.config());
        let built = prog::build(prog, &mut b, 64).map_err(|e| e.to_string())?;
        if with_pis {
            b.register_public_inputs(&built.vals);
        }
        let data: CircuitData<F, C, D> = b.build::<C>();
        Ok::<_, String>((built, data))
    });
    let (built, data) = match built {
        Ok(Ok(x)) => x,
        Ok(Err(e)) => return res("build_failed", json!({"stage": "build", "err": e})),
        Err(p) => return res("build_failed", json!({"stage": "build", "panic": p, "degree_bits": degree_bits})),
    };
    // witness: for unsatisfiable programs the interpreter stops early; Merkle openings need values
    let vals: Vec<u64> = match &it {
        Ok(st) => st.vals.clone(),
        Err(_) => vec![0; built.vals.len()],
    };
    if !sat && !built.merkle.is_empty() {
        return res("skipped", json!("unsat program with merkle op"));
    }
    let pw = match prog::witness(&built, inputs, &vals) {
        Ok(pw) => pw,
        Err(e) => return res("witness_failed", json!(e.to_string())),
    };
    let proof = guarded(|| data.prove(pw));
    let proof = match proof {
        Ok(Ok(p)) => p,
        Ok(Err(e)) => return res("prove_err", json!(format!("{e:#}"))),
        Err(p) => return res("prove_panic", json!(p)),
    };
    let pis: Vec<u64> = proof.public_inputs.iter().map(|x| x.to_canonical_u64()).collect();
    let ver = guarded(|| data.verify(proof.clone()));
    match ver {
        Ok(Ok(())) => {}
        Ok(Err(e)) => return res("verify_err", json!(format!("{e:#}"))),
        Err(p) => return res("verify_panic", json!(p)),
    }
    if sat && with_pis && pis != vals {
        let k = pis.iter().zip(&vals).position(|(a, b)| a != b);
        return res("wrong_outputs", json!({"first_diff": k, "got": pis, "expected": vals}));
    }
    let mut r = res("accepted", json!({"degree_bits": degree_bits, "num_pis": pis.len()}));
    r["gates"] = json!(data.common.gates.iter().map(|g| g.0.id()).collect::<Vec<_>>());
    r
}

fn run(args: &[String]) -> anyhow::Result<()> {
    let inp = opt(args, "--in").ok_or_else(|| anyhow::anyhow!("--in"))?;
    let mut r = rng(1);
    for s in read_lines(inp)? {
        let prog: Program = serde_json::from_value(s["prog"].clone())?;
        let cfg: CfgSpec = serde_json::from_value(s["cfg"].clone())?;
        let classes: Vec<String> = serde_json::from_value(s["inputs"].clone())?;
        let inputs: Vec<u64> = match s.get("concrete") {
            Some(c) if c.is_array() => serde_json::from_value(c.clone())?,
            _ => classes.iter().map(|c| concretize(c, &mut r)).collect(),
        };
        let with_pis = cfg.width != "narrow";
        let t0 = std::time::Instant::now();
        let corrupt = args.iter().any(|a| a == "--corrupt");
        let mut out = if cfg.keccak {
            run_one::<KeccakGoldilocksConfig>(&prog, &cfg, &inputs, with_pis, corrupt)
        } else {
            run_one::<PoseidonGoldilocksConfig>(&prog, &cfg, &inputs, with_pis, corrupt)
        };
        out["id"] = s["id"].clone();
        out["concrete"] = json!(inputs);
        out["ms"] = json!(t0.elapsed().as_millis() as u64);
        emit(&out);
    }
    Ok(())
}

// ---------------------------------------------------------------------------------------------
// spec/WitnessGen.tla replay: abstract generator graphs on the real generate_partial_witness
// ---------------------------------------------------------------------------------------------
#[derive(Debug)]
struct WGen {
    deps: Vec<plonky2::iop::target::Target>,
    out: plonky2::iop::target::Target,
    k: u64,
}
impl plonky2::iop::generator::SimpleGenerator<F, D> for WGen {
    fn id(&self) -> String {
        "WGen".to_string()
    }
    fn dependencies(&self) -> Vec<plonky2::iop::target::Target> {
        self.deps.clone()
    }
    fn run_once(
        &self,
        witness: &plonky2::iop::witness::PartitionWitness<F>,
        out_buffer: &mut plonky2::iop::generator::GeneratedValues<F>,
    ) -> anyhow::Result<()> {
        use plonky2::field::types::Field;
        use plonky2::iop::witness::{Witness, WitnessWrite};
        let mut v = F::from_canonical_u64(self.k);
        for d in &self.deps {
            v += witness.get_target(*d);
        }
        out_buffer.set_target(self.out, v)
    }
    fn serialize(&self, _dst: &mut Vec<u8>, _c: &plonky2::plonk::circuit_data::CommonCircuitData<F, D>) -> plonky2::util::serialization::IoResult<()> {
        Ok(())
    }
    fn deserialize(_src: &mut plonky2::util::serialization::Buffer, _c: &plonky2::plonk::circuit_data::CommonCircuitData<F, D>) -> plonky2::util::serialization::IoResult<Self> {
        Err(plonky2::util::serialization::IoError)
    }
}

/// value of generator-owned id: k-th generator outputs k + sum of its dependencies
fn wgen(args: &[String]) -> anyhow::Result<()> {
    use plonky2::field::types::Field;
    use plonky2::iop::generator::generate_partial_witness;
    use plonky2::iop::witness::{PartialWitness, Witness, WitnessWrite};
    let inp = opt(args, "--in").ok_or_else(|| anyhow::anyhow!("--in"))?;
    let mut n = 0u64;
    let mut mism: Vec<Value> = vec![];
    let mut outcomes: std::collections::BTreeMap<String, u64> = Default::default();
    for s in read_lines(inp)? {
        n += 1;
        let nin = s["nin"].as_u64().unwrap() as usize;
        let gens: Vec<Vec<usize>> = serde_json::from_value(s["gens"].clone())?;
        let provided: Vec<usize> = serde_json::from_value(s["provided"].clone())?;
        let pre_v = s["preset"]["value"].as_u64().unwrap() as usize;
        let pre_ok = s["preset"]["agrees"].as_bool().unwrap();
        let expected = s["expected"].as_str().unwrap().to_string();
        let res = guarded(|| {
            let mut b = CircuitBuilder::<F, D>::new(CfgSpec::standard().config());
            let mut t: Vec<plonky2::iop::target::Target> = (0..nin).map(|_| b.add_virtual_target()).collect();
            for (k, deps) in gens.iter().enumerate() {
                let out = b.add_virtual_target();
                let g = WGen { deps: deps.iter().map(|d| t[d - 1]).collect(), out, k: (k + 1) as u64 };
                b.add_simple_generator(g);
                t.push(out);
            }
            let data = b.build::<PoseidonGoldilocksConfig>();
            // reference values (every input i has value 10 * i)
            let mut vals: Vec<u64> = (1..=nin as u64).map(|i| 10 * i).collect();
            for (k, deps) in gens.iter().enumerate() {
                let v = (k as u64 + 1) + deps.iter().map(|d| vals[d - 1]).sum::<u64>();
                vals.push(v);
            }
            let mut pw = PartialWitness::new();
            for i in &provided {
                pw.set_target(t[i - 1], F::from_canonical_u64(vals[i - 1])).unwrap();
            }
            if pre_v != 0 {
                let v = vals[pre_v - 1] + if pre_ok { 0 } else { 1 };
                pw.set_target(t[pre_v - 1], F::from_canonical_u64(v)).unwrap();
            }
            match generate_partial_witness(pw, &data.prover_only, &data.common) {
                Ok(w) => {
                    for (i, tv) in t.iter().enumerate() {
                        // inputs that were not provided stay unset
                        if i < nin && !provided.contains(&(i + 1)) {
                            continue;
                        }
                        if w.try_get_target(*tv) != Some(F::from_canonical_u64(vals[i])) {
                            return "ok_wrong_values".to_string();
                        }
                    }
                    "ok".to_string()
                }
                Err(e) => {
                    let m = format!("{e:#}");
                    if m.contains("weren't run") {
                        "not_run".to_string()
                    } else if m.contains("set twice") || m.contains("different values") {
                        "conflict".to_string()
                    } else {
                        format!("err:{m}")
                    }
                }
            }
        });
        let got = match res {
            Ok(g) => g,
            Err(p) => format!("panic:{p}"),
        };
        *outcomes.entry(got.clone()).or_default() += 1;
        if got != expected && mism.len() < 10 {
            mism.push(json!({"scenario": s, "observed": got}));
        }
    }
    emit(&json!({"kind": "wgen", "scenarios": n, "outcomes": outcomes, "mismatches": mism}));
    Ok(())
}


/// `builder --out f --nw --nr --nc --runs --len`: drive the public CircuitBuilder API with random calls and
/// record what each call returned (for spec/BuilderTrace.tla).
fn builder_trace(args: &[String]) -> anyhow::Result<()> {
    use plonky2::field::types::Field;
    use plonky2::gates::constant::ConstantGate;
    use plonky2::gates::noop::NoopGate;
    use plonky2::field::extension::{Extendable, FieldExtension};
    use plonky2::iop::ext_target::ExtensionTarget;
    use plonky2::iop::target::Target;
    use plonky2::plonk::circuit_data::CircuitConfig;
    type FE = <F as Extendable<D>>::Extension;
    type C = PoseidonGoldilocksConfig;
    type F = <C as GenericConfig<D>>::F;
    let out = opt(args, "--out").ok_or_else(|| anyhow::anyhow!("--out"))?;
    let nw = opt_usize(args, "--nw", 135);
    let nr = opt_usize(args, "--nr", 80);
    let nc = opt_usize(args, "--nc", 2);
    let runs = opt_usize(args, "--runs", 20);
    let len = opt_usize(args, "--len", 60);
    let nobase = opt_usize(args, "--nobase", 0) == 1;
    let mut r = rng(0xB11D + (nw * 1000 + nr) as u64 + if nobase { 77 } else { 0 });
    let mut w = NdJson::create(out)?;
    w.put(&json!({"ev": "config", "nw": nw, "nr": nr, "nc": nc, "nobase": nobase}));
    let tj = |t: Target| match t {
        Target::VirtualTarget { index } => json!(["v", index]),
        Target::Wire(wr) => json!(["w", wr.row, wr.column]),
    };
    let two = F::from_canonical_u64(2);
    let three = F::from_canonical_u64(3);
    let pool: Vec<F> = vec![
        F::ZERO, F::ONE, F::NEG_ONE, two, three, two.inverse(), three.inverse(), F::from_canonical_u64(1 << 32),
        F::from_canonical_u64(0xFFFF_FFFF_0000_0000), F::from_canonical_u64(0x1234_5678_9ABC_DEF1),
    ];
    let mut built = 0usize;
    let mut calls = 0usize;
    let mut sem_bad: Vec<Value> = vec![];
    let mut sem_checked = 0usize;
    for run in 0..runs {
        w.put(&json!({"ev": "reset", "run": run}));
        let mut config = CircuitConfig::standard_recursion_config();
        config.num_wires = nw;
        config.num_routed_wires = nr;
        config.num_constants = nc;
        config.use_base_arithmetic_gate = !nobase;
        let mut b = CircuitBuilder::<F, D>::new(config.clone());
        let mut tg: Vec<Target> = vec![];
        let mut ops: Vec<(F, F, Target, Target, Target)> = vec![];
        let mut arith_res: Vec<Target> = vec![];
        let mut ras: Vec<(Target, usize)> = vec![];
        let mut ra_res: Vec<Target> = vec![];
        let mut virts: Vec<Target> = vec![];
        let mut etg: Vec<ExtensionTarget<D>> = vec![];
        let mut eops: Vec<(F, F, ExtensionTarget<D>, ExtensionTarget<D>, ExtensionTarget<D>)> = vec![];
        let mut earith_res: Vec<ExtensionTarget<D>> = vec![];
        // RandomAccessGate of `bits` exists under this row shape iff it has at least one copy
        let ra_bits: Vec<usize> = (1..=4usize)
            .filter(|&bits| (nr / (2 + (1 << bits))).min(nw / (2 + (1 << bits) + bits)) >= 1)
            .collect();
        let n = r.gen_range(1..=len);
        // a small per-run constant set makes slots with equal parameters, cache hits and folds frequent
        let k = r.gen_range(2..=5usize);
        let mut cs: Vec<F> = (0..k).map(|_| pool[r.gen_range(0..pool.len())]).collect();
        // zero and one drive the shortcuts of `arithmetic` (absorbing zero, identity, folding)
        if run % 4 != 3 {
            cs.push(F::ZERO);
            cs.push(F::ONE);
        }
        for _ in 0..n {
            let choice = r.gen_range(0..100);
            calls += 1;
            if tg.len() < 2 || choice < 10 {
                let t = b.add_virtual_target();
                virts.push(t);
                tg.push(t);
                w.put(&json!({"ev": "virt", "res": tj(t), "ng": b.num_gates()}));
            } else if choice < 25 {
                let c = cs[r.gen_range(0..cs.len())];
                let t = b.constant(c);
                tg.push(t);
                w.put(&json!({"ev": "const", "c": limbs(c.to_canonical_u64()), "res": tj(t), "ng": b.num_gates()}));
            } else if choice >= 62 && choice < 80 && nr >= 8 {
                // extension arithmetic: operands are pairs of existing targets, constant extensions or earlier results
                let tje = |e: &ExtensionTarget<D>| json!([tj(e.0[0]), tj(e.0[1])]);
                let mut c0 = cs[r.gen_range(0..cs.len())];
                let mut c1 = cs[r.gen_range(0..cs.len())];
                let mk = |r: &mut rand_chacha::ChaCha8Rng, b: &mut CircuitBuilder<F, D>, w: &mut NdJson, etg: &mut Vec<ExtensionTarget<D>>, tg: &Vec<Target>| -> ExtensionTarget<D> {
                    let k = r.gen_range(0..100);
                    if k < 45 && !etg.is_empty() {
                        let m = etg.len();
                        etg[m - 1 - r.gen_range(0..m.min(5))]
                    } else if k < 70 {
                        let e = ExtensionTarget([tg[r.gen_range(0..tg.len())], tg[r.gen_range(0..tg.len())]]);
                        etg.push(e);
                        e
                    } else {
                        let small = [F::ZERO, F::ONE, F::from_canonical_u64(2), F::from_canonical_u64(2).inverse(), F::NEG_ONE];
                        let (a, bb) = (small[r.gen_range(0..5)], if r.gen_bool(0.6) { F::ZERO } else { small[r.gen_range(0..5)] });
                        let e = b.constant_extension(<FE as FieldExtension<D>>::from_basefield_array([a, bb]));
                        w.put(&json!({"ev": "constext", "e": [limbs(a.to_canonical_u64()), limbs(bb.to_canonical_u64())],
                            "res": [tj(e.0[0]), tj(e.0[1])], "ng": b.num_gates()}));
                        etg.push(e);
                        e
                    }
                };
                let mut x = mk(&mut r, &mut b, &mut w, &mut etg, &tg);
                let mut y = mk(&mut r, &mut b, &mut w, &mut etg, &tg);
                let mut z = mk(&mut r, &mut b, &mut w, &mut etg, &tg);
                let shape = r.gen_range(0..100);
                if shape < 12 && !eops.is_empty() {
                    (c0, c1, x, y, z) = eops[r.gen_range(0..eops.len())];
                } else if shape < 24 && c0 != F::ZERO {
                    let inv = c0.inverse();
                    let t = b.constant_extension(<FE as FieldExtension<D>>::from_basefield_array([inv, F::ZERO]));
                    w.put(&json!({"ev": "constext", "e": [limbs(inv.to_canonical_u64()), limbs(0)], "res": [tj(t.0[0]), tj(t.0[1])], "ng": b.num_gates()}));
                    if shape % 2 == 0 { x = t } else { y = t }
                    c1 = F::ZERO;
                } else if shape < 40 {
                    // a constant-zero addend selects the multiplication gate
                    z = b.zero_extension();
                    w.put(&json!({"ev": "constext", "e": [limbs(0), limbs(0)], "res": [tj(z.0[0]), tj(z.0[1])], "ng": b.num_gates()}));
                }
                eops.push((c0, c1, x, y, z));
                let t = b.arithmetic_extension(c0, c1, x, y, z);
                earith_res.push(t);
                etg.push(t);
                tg.push(t.0[0]);
                tg.push(t.0[1]);
                w.put(&json!({"ev": "arithext", "c0": limbs(c0.to_canonical_u64()), "c1": limbs(c1.to_canonical_u64()),
                    "x": tje(&x), "y": tje(&y), "z": tje(&z), "res": tje(&t), "ng": b.num_gates()}));
            } else if choice < 80 {
                let c0 = cs[r.gen_range(0..cs.len())];
                let c1 = cs[r.gen_range(0..cs.len())];
                // favour recent targets and repeats
                let pick = |r: &mut rand_chacha::ChaCha8Rng, tg: &Vec<Target>| {
                    let m = tg.len();
                    if r.gen_bool(0.5) { tg[m - 1 - r.gen_range(0..m.min(4))] } else { tg[r.gen_range(0..m)] }
                };
                let (mut c0, mut c1) = (c0, c1);
                let (mut x, mut y, mut z) = (pick(&mut r, &tg), pick(&mut r, &tg), pick(&mut r, &tg));
                let shape = r.gen_range(0..100);
                if shape < 12 && !ops.is_empty() {
                    // an operation already performed (result cache)
                    let o: (F, F, Target, Target, Target) = ops[r.gen_range(0..ops.len())];
                    (c0, c1, x, y, z) = o;
                } else if shape < 24 && c0 != F::ZERO {
                    // one multiplicand is the constant 1/c0 and the second term vanishes (identity shortcut)
                    let inv = c0.inverse();
                    let t = b.constant(inv);
                    w.put(&json!({"ev": "const", "c": limbs(inv.to_canonical_u64()), "res": tj(t), "ng": b.num_gates()}));
                    if shape % 2 == 0 { x = t } else { y = t }
                    if shape % 3 == 0 {
                        c1 = F::ZERO
                    } else {
                        z = b.zero();
                        w.put(&json!({"ev": "const", "c": limbs(0), "res": tj(z), "ng": b.num_gates()}));
                    }
                }
                ops.push((c0, c1, x, y, z));
                let t = b.arithmetic(c0, c1, x, y, z);
                arith_res.push(t);
                tg.push(t);
                w.put(&json!({"ev": "arith", "c0": limbs(c0.to_canonical_u64()), "c1": limbs(c1.to_canonical_u64()),
                    "x": tj(x), "y": tj(y), "z": tj(z), "res": tj(t), "ng": b.num_gates()}));
            } else if choice < 92 && !ra_bits.is_empty() {
                let bits = ra_bits[r.gen_range(0..ra_bits.len())];
                // a constant index inside the list keeps the circuit satisfiable
                let j = r.gen_range(0..1usize << bits);
                let cj = F::from_canonical_usize(j);
                let idx = b.constant(cj);
                w.put(&json!({"ev": "const", "c": limbs(cj.to_canonical_u64()), "res": tj(idx), "ng": b.num_gates()}));
                let v: Vec<Target> = (0..1usize << bits).map(|_| tg[r.gen_range(0..tg.len())]).collect();
                ras.push((v[j], 0));
                let t = b.random_access(idx, v);
                ra_res.push(t);
                tg.push(t);
                w.put(&json!({"ev": "ra", "bits": bits, "res": tj(t), "ng": b.num_gates()}));
            } else if choice < 96 {
                b.add_gate(NoopGate, vec![]);
                w.put(&json!({"ev": "row", "kind": "noop", "ng": b.num_gates()}));
            } else {
                b.add_gate(ConstantGate::new(nc), vec![]);
                w.put(&json!({"ev": "row", "kind": "const", "ng": b.num_gates()}));
            }
        }
        // build (public inputs need the Poseidon gate: only under rows wide enough for it)
        let npi = if nw >= 135 && nr >= 8 + 0 { [0usize, 1, 8, 9][r.gen_range(0..4)] } else { 0 };
        for i in 0..npi {
            b.register_public_input(tg[i % tg.len()]);
        }
        let res = guarded(move || b.build::<C>());
        let data = match res {
            Ok(d) => d,
            Err(e) => {
                // the rest of this run cannot be observed; the trace spec resynchronises at the next reset
                emit(&json!({"builder_build_panic": e, "run": run}));
                continue;
            }
        };
        built += 1;
        let common = &data.common;
        let consts = vh::oracle::constants_by_row(&data.prover_only, common);
        let sel = plonky2::verif_exports::selector_indices(&common.selectors_info);
        let nsel = plonky2::verif_exports::selector_groups(&common.selectors_info).len() + common.num_lookup_selectors;
        let mut rows = vec![];
        for row in 0..common.degree() {
            let mut found = None;
            for (g, gate) in common.gates.iter().enumerate() {
                if consts[row][sel[g]] == F::from_canonical_usize(g) {
                    found = Some(gate);
                    break;
                }
            }
            let gate = found.ok_or_else(|| anyhow::anyhow!("row {row}: no selector names a gate"))?;
            let id = gate.0.id();
            let kind = if id.starts_with("ArithmeticExtensionGate") {
                "arithext".to_string()
            } else if id.starts_with("MulExtensionGate") {
                "mulext".to_string()
            } else if id.starts_with("ArithmeticGate") {
                "arith".to_string()
            } else if id.starts_with("ConstantGate") {
                "const".to_string()
            } else if id.starts_with("NoopGate") {
                "noop".to_string()
            } else if id.starts_with("PublicInputGate") {
                "pi".to_string()
            } else if id.starts_with("PoseidonGate") {
                "poseidon".to_string()
            } else if id.starts_with("RandomAccessGate") {
                let i = id.find("bits: ").ok_or_else(|| anyhow::anyhow!("gate id {id}"))? + 6;
                let digits: String = id[i..].chars().take_while(|c| c.is_ascii_digit()).collect();
                format!("ra{digits}")
            } else {
                id.clone()
            };
            let gc: Vec<Value> = (0..gate.0.num_constants()).map(|j| limbs(consts[row][nsel + j].to_canonical_u64())).collect();
            rows.push(json!({"kind": kind, "consts": gc}));
        }
        w.put(&json!({"ev": "build", "npi": npi, "degree": common.degree(), "rows": rows}));
        // meaning: under the library's own witness generation every call's result has the value the call
        // denotes, and the assignment satisfies every gate and copy constraint (so the value is forced)
        let mut pw = plonky2::iop::witness::PartialWitness::<F>::new();
        for t in &virts {
            use plonky2::iop::witness::WitnessWrite;
            let v = if r.gen_bool(0.2) { pool[r.gen_range(0..pool.len())] } else { F::from_canonical_u64(r.gen::<u64>() % vh::util::P) };
            pw.set_target(*t, v)?;
        }
        let wit = guarded(|| plonky2::iop::generator::generate_partial_witness(pw, &data.prover_only, common));
        let wit = match wit {
            Ok(Ok(x)) => x,
            Ok(Err(e)) => {
                sem_bad.push(json!({"run": run, "witness_error": e.to_string()}));
                continue;
            }
            Err(e) => {
                sem_bad.push(json!({"run": run, "witness_panic": e}));
                continue;
            }
        };
        let a = vh::oracle::Assignment::from_partition(&wit);
        let verdict = vh::oracle::check(&a, &data.prover_only, common, &consts);
        if !verdict.satisfied() {
            sem_bad.push(json!({"run": run, "unsatisfied": format!("{:?}", verdict)}));
        }
        for (k, (c0, c1, x, y, z)) in ops.iter().enumerate() {
            let e = *c0 * a.get(*x) * a.get(*y) + *c1 * a.get(*z);
            sem_checked += 1;
            if a.get(arith_res[k]) != e {
                sem_bad.push(json!({"run": run, "arith": k, "c0": c0.to_canonical_u64(), "c1": c1.to_canonical_u64(),
                    "x": tj(*x), "y": tj(*y), "z": tj(*z), "res": tj(arith_res[k]),
                    "value": a.get(arith_res[k]).to_canonical_u64(), "expected": e.to_canonical_u64()}));
            }
        }
        for (k, (c0, c1, x, y, z)) in eops.iter().enumerate() {
            let ev = |e: &ExtensionTarget<D>| <FE as FieldExtension<D>>::from_basefield_array([a.get(e.0[0]), a.get(e.0[1])]);
            let sm = |v: FE, c: F| <FE as FieldExtension<D>>::scalar_mul(&v, c);
            let e = sm(ev(x) * ev(y), *c0) + sm(ev(z), *c1);
            sem_checked += 1;
            if ev(&earith_res[k]) != e {
                sem_bad.push(json!({"run": run, "arithext": k, "c0": c0.to_canonical_u64(), "c1": c1.to_canonical_u64(),
                    "res": [tj(earith_res[k].0[0]), tj(earith_res[k].0[1])],
                    "value": format!("{:?}", ev(&earith_res[k])), "expected": format!("{:?}", e)}));
            }
        }
        for (k, (item, _)) in ras.iter().enumerate() {
            sem_checked += 1;
            if a.get(ra_res[k]) != a.get(*item) {
                sem_bad.push(json!({"run": run, "ra": k, "res": tj(ra_res[k]), "value": a.get(ra_res[k]).to_canonical_u64(),
                    "expected": a.get(*item).to_canonical_u64()}));
            }
        }
    }
    let n = w.finish();
    emit(&json!({"builder_trace": out, "events": n, "runs": runs, "built": built, "calls": calls,
        "sem_checked": sem_checked, "sem_bad": sem_bad}));
    Ok(())
}

fn main() -> std::process::ExitCode {
    run_main(|cmd, rest| match cmd {
        "interp17" => interp17(rest),
        "run" => run(rest),
        "friadm" => friadm(rest),
        "wgen" => wgen(rest),
        "builder" => builder_trace(rest),
        other => Err(anyhow::anyhow!("unknown command {other}")),
    })
}
