//! C20 — conditional and cyclic recursion enforce exactly the selected verification.
//!  `cond --in f`   : per inner shape two circuits A, B with the same common data and the dummy circuit D;
//!                    one conditional circuit; the (pair0, pair1, condition) combinations printed by
//!                    spec/Conditional.tla are assigned and judged (witness generation + oracle)
//!  `dummy --in f`  : `dummy_circuit` / `dummy_proof` for every inner shape, several public-input maps
//!  `cyclic --in f` : a counter-style cyclic circuit (and a second one with the same common data);
//!                    the histories printed by spec/Cyclic.tla are executed with shared prefixes
#[path = "../rec_kit.rs"]
mod rec_kit;

use std::collections::HashMap as StdMap;

use hashbrown::HashMap;
use plonky2::field::types::{Field, PrimeField64};
use plonky2::gates::noop::NoopGate;
use plonky2::iop::generator::generate_partial_witness;
use plonky2::iop::target::BoolTarget;
use plonky2::iop::witness::{PartialWitness, WitnessWrite};
use plonky2::plonk::circuit_builder::CircuitBuilder;
use plonky2::plonk::circuit_data::{CircuitConfig, CircuitData, CommonCircuitData, VerifierCircuitTarget};
use plonky2::plonk::proof::ProofWithPublicInputsTarget;
use plonky2::plonk::prover::prove_with_partition_witness;
use plonky2::recursion::cyclic_recursion::check_cyclic_proof_verifier_data;
use plonky2::recursion::dummy_circuit::{cyclic_base_proof, dummy_circuit, dummy_proof};
use plonky2::util::timing::TimingTree;
use rand::Rng;
use rec_kit::*;
use serde_json::{json, Value};
use vh::cfgs::CfgSpec;
use vh::oracle::{self, Assignment};
use vh::prog::Program;
use vh::util::*;

fn parse_shape(s: &Value, r: &mut rand_chacha::ChaCha8Rng) -> Result<(Program, CfgSpec, Vec<u64>, usize), String> {
    let prog: Program = serde_json::from_value(s["prog"].clone()).map_err(|e| e.to_string())?;
    let cfg: CfgSpec = serde_json::from_value(s["cfg"].clone()).map_err(|e| e.to_string())?;
    let inputs: Vec<u64> = match s.get("concrete") {
        Some(c) if c.is_array() => serde_json::from_value(c.clone()).unwrap(),
        _ => s["inputs"].as_array().map(|a| a.iter().map(|c| concretize(c.as_str().unwrap_or("rand"), r)).collect()).unwrap_or_default(),
    };
    Ok((prog, cfg, inputs, s["pad"].as_u64().unwrap_or(2) as usize))
}

// ------------------------------------------------------------------------------------------
// conditional verification
// ------------------------------------------------------------------------------------------
fn cond_shape(s: &Value, selftest: bool) -> Vec<Value> {
    let id = s["id"].as_str().unwrap_or("?").to_string();
    let skip = |why: String| vec![json!({"id": id, "skipped": why})];
    let mut r = rng_for(&id, 20);
    let (prog, cfg, inputs, pad) = match parse_shape(s, &mut r) {
        Ok(x) => x,
        Err(e) => return skip(e),
    };
    if cfg.zk {
        return skip("zero-knowledge shapes have no dummy circuit".into());
    }
    let pad = pad.max(1);
    let a = match build_inner_full(&prog, &cfg, &inputs, 0, pad, true) {
        Ok(x) => x,
        Err(e) => return skip(e),
    };
    // the second circuit gets other inputs where the program allows it, so that the two proofs differ in every opening
    let inputs_b: Vec<u64> = inputs.iter().map(|x| x.wrapping_add(1) % vh::refarith::GOLDILOCKS).collect();
    let b = match build_inner_full(&prog, &cfg, &inputs_b, 1, pad - 1, false).or_else(|_| build_inner_full(&prog, &cfg, &inputs, 1, pad - 1, false)) {
        Ok(x) => x,
        Err(e) => return skip(format!("second circuit: {e}")),
    };
    if a.data.common != b.data.common {
        return skip("the two circuits do not share their common data".into());
    }
    if a.data.verifier_only.circuit_digest == b.data.verifier_only.circuit_digest {
        return skip("the two circuits have the same verifier data".into());
    }
    let common = a.data.common.clone();
    let dummy = guarded(|| dummy_circuit::<F, C, D>(&common));
    let (pa, pb) = match (a.prove(None), b.prove(None)) {
        (Ok(x), Ok(y)) => (x, y),
        _ => return skip("honest proofs".into()),
    };
    let pd = dummy.as_ref().ok().and_then(|dc| guarded(|| dummy_proof::<F, C, D>(dc, HashMap::new())).ok().and_then(|x| x.ok()));
    // lookup openings: non-empty and pairwise different between the two proofs (and between zeta and g zeta)
    let (oa, ob) = (&pa.proof.openings, &pb.proof.openings);
    let lookup_info = json!({"lookups": !common.luts.is_empty(), "len_zs": oa.lookup_zs.len(), "len_zs_next": oa.lookup_zs_next.len(),
        "distinct": !oa.lookup_zs.is_empty() && !oa.lookup_zs_next.is_empty() && oa.lookup_zs != ob.lookup_zs
            && oa.lookup_zs_next != ob.lookup_zs_next && oa.lookup_zs != oa.lookup_zs_next && ob.lookup_zs != ob.lookup_zs_next});
    let mut out = vec![];
    // `conditionally_verify_proof_or_dummy` for this inner shape (the dummy verifier-data target must have the INNER cap height):
    // it must build, and accept iff (condition ? the given pair is valid : true)
    let mut or_dummy_rows: Vec<Value> = vec![];
    let or_dummy = if s["probe_or_dummy"].as_bool().unwrap_or(false) {
        let built_od = guarded(|| {
            let mut bld = CircuitBuilder::<F, D>::new(CircuitConfig::standard_recursion_config());
            let c = bld.add_virtual_bool_target_safe();
            let pt = bld.add_virtual_proof_with_pis(&common);
            let vd = bld.add_virtual_verifier_data(common.config.fri_config.cap_height);
            bld.conditionally_verify_proof_or_dummy::<C>(c, &pt, &vd, &common).map_err(|e| format!("{e:#}"))?;
            let data: CircuitData<F, C, D> = bld.build::<C>();
            Ok::<_, String>((data, c, pt, vd))
        });
        match built_od {
            Ok(Ok((od, oc, opt, ovd))) => {
                // the one-proof form behaves like the two-proof conditional with the dummy pair in slot 1:
                // accept iff (condition ? the given pair is valid : true)
                let oconst = oracle::constants_by_row(&od.prover_only, &od.common);
                let mut bad = pa.clone();
                let _ = tamper(&mut bad, "final_poly", &mut r);
                let cases: Vec<(&str, bool, &PW, &VD)> = vec![
                    ("valid", true, &pa, &a.data.verifier_only), ("valid", false, &pa, &a.data.verifier_only),
                    ("tampered", true, &bad, &a.data.verifier_only), ("tampered", false, &bad, &a.data.verifier_only),
                    ("foreign_vd", true, &pa, &b.data.verifier_only), ("foreign_vd", false, &pa, &b.data.verifier_only),
                ];
                for (kind, cnd, p, v) in cases {
                    let (nat, nd) = native_verdict(p, v, &common);
                    let cv = run_outer(&od, &oconst, |pw| {
                        pw.set_bool_target(oc, cnd)?;
                        pw.set_proof_with_pis_target(&opt, p)?;
                        pw.set_verifier_data_target(&ovd, v)
                    });
                    or_dummy_rows.push(json!({"id": id, "or_dummy_case": kind, "cond": cnd, "native_given": nat, "native_detail": nd,
                        "inner_cap_height": common.config.fri_config.cap_height, "assignable": cv.assignable, "circuit": cv.accepted,
                        "stage": cv.stage, "detail": cv.detail}));
                }
                json!({"built": true, "degree_bits": od.common.degree_bits()})
            }
            Ok(Err(e)) => json!({"built": false, "err": e}),
            Err(p) => json!({"built": false, "panic": p.chars().take(200).collect::<String>()}),
        }
    } else {
        Value::Null
    };
    if s["or_dummy_only"].as_bool().unwrap_or(false) {
        let mut out = vec![json!({"id": id, "or_dummy": or_dummy, "inner_cap_height": common.config.fri_config.cap_height,
            "shape": {"inner_degree_bits": common.degree_bits(), "or_dummy_only": true, "binding_bits": cfg.binding_bits()}})];
        out.extend(or_dummy_rows);
        return out;
    }
    // the conditional circuit
    let t0 = std::time::Instant::now();
    let built = guarded(|| {
        let mut bld = CircuitBuilder::<F, D>::new(CircuitConfig::standard_recursion_config());
        let c = bld.add_virtual_bool_target_safe();
        let pt0 = bld.add_virtual_proof_with_pis(&common);
        let pt1 = bld.add_virtual_proof_with_pis(&common);
        let vd0 = bld.add_virtual_verifier_data(common.config.fri_config.cap_height);
        let vd1 = bld.add_virtual_verifier_data(common.config.fri_config.cap_height);
        bld.conditionally_verify_proof::<C>(c, &pt0, &vd0, &pt1, &vd1, &common);
        // re-expose the public inputs of the selected proof
        let sel = bld.select_proof_with_pis(c, &pt0, &pt1);
        bld.register_public_inputs(&sel.public_inputs);
        let data: CircuitData<F, C, D> = bld.build::<C>();
        (data, c, pt0, pt1, vd0, vd1)
    });
    let (outer, ct, pt0, pt1, vd0, vd1) = match built {
        Ok(x) => x,
        Err(p) => return skip(format!("conditional circuit build panic: {}", p.chars().take(140).collect::<String>())),
    };
    let constants = oracle::constants_by_row(&outer.prover_only, &outer.common);
    out.push(json!({"id": id, "or_dummy": or_dummy, "inner_cap_height": common.config.fri_config.cap_height, "lookup_openings": lookup_info, "shape": {"inner_degree_bits": common.degree_bits(), "outer_degree_bits": outer.common.degree_bits(),
        "build_ms": t0.elapsed().as_millis() as u64, "dummy_circuit": dummy.is_ok(), "dummy_panic": dummy.as_ref().err(),
        "binding_bits": cfg.binding_bits(), "inner_pis": common.num_public_inputs, "layers": common.fri_params.reduction_arity_bits}}));
    out.extend(or_dummy_rows);
    let bad_class = ["", "wires_cap", "final_poly", "init_leaf:1"];
    let mut sampled = 0usize;
    let sample = s["sample"].as_u64().unwrap_or(2) as usize;
    // binding self-test: the first `selftest` combinations are repeated at the end with the OPPOSITE condition assigned
    let mut all_combos: Vec<(Value, bool)> = s["combos"].as_array().cloned().unwrap_or_default().into_iter().map(|c| (c, selftest)).collect();
    let nself = s["selftest"].as_u64().unwrap_or(0) as usize;
    let extra: Vec<(Value, bool)> = all_combos.iter().take(nself).map(|(c, _)| (c.clone(), true)).collect();
    all_combos.extend(extra);
    for (k, (combo, selftest)) in all_combos.iter().enumerate() {
        let selftest = *selftest;
        // make a pair concrete
        let mut mk = |p: &Value| -> Option<(PW, VD)> {
            let base = match p["owner"].as_str()? {
                "A" => pa.clone(),
                "B" => pb.clone(),
                _ => pd.clone()?,
            };
            let own_vd = |o: &str| -> Option<VD> {
                Some(match o {
                    "A" => a.data.verifier_only.clone(),
                    "B" => b.data.verifier_only.clone(),
                    _ => dummy.as_ref().ok()?.verifier_only.clone(),
                })
            };
            let mut proof = base;
            let bad = p["bad"].as_u64()? as usize;
            if bad > 0 {
                tamper(&mut proof, bad_class[bad], &mut r)?;
            }
            let vd = match p["vd"].as_str()? {
                "corrupt" => tamper_vd(&own_vd(p["owner"].as_str()?)?, &a.data.verifier_only, "vd_digest", &mut r)?.0,
                o => own_vd(o)?,
            };
            Some((proof, vd))
        };
        let (Some((q0, w0)), Some((q1, w1))) = (mk(&combo["p0"]), mk(&combo["p1"])) else {
            out.push(json!({"id": id, "combo": k, "unavailable": true}));
            continue;
        };
        let c = combo["cond"].as_bool().unwrap_or(false);
        let (chosen_p, chosen_vd) = if c { (&q0, &w0) } else { (&q1, &w1) };
        let (other_p, other_vd) = if c { (&q1, &w1) } else { (&q0, &w0) };
        let (nat, nd) = native_verdict(chosen_p, chosen_vd, &common);
        let (nat_other, _) = native_verdict(other_p, other_vd, &common);
        // self-test: the condition assigned is the opposite of the one judged
        let c_assigned = if selftest { !c } else { c };
        let fill = |pw: &mut PartialWitness<F>| -> anyhow::Result<()> {
            pw.set_bool_target(ct, c_assigned)?;
            pw.set_proof_with_pis_target(&pt0, &q0)?;
            pw.set_proof_with_pis_target(&pt1, &q1)?;
            pw.set_verifier_data_target(&vd0, &w0)?;
            pw.set_verifier_data_target(&vd1, &w1)
        };
        let cv = run_outer(&outer, &constants, fill);
        let mut row = json!({"id": id, "combo": k, "p0": combo["p0"], "p1": combo["p1"], "cond": c, "expect": combo["expect"],
            "native_selected": nat, "native_detail": nd, "native_other": nat_other, "assignable": cv.assignable, "circuit": cv.accepted,
            "stage": cv.stage, "detail": cv.detail, "selftest": selftest});
        if cv.accepted && sampled < sample && !selftest {
            sampled += 1;
            let (proved, verified, pis, od) = outer_prove_verify(&outer, fill);
            let want: Vec<u64> = chosen_p.public_inputs.iter().map(|x| x.to_canonical_u64()).collect();
            row["outer"] = json!({"proved": proved, "verified": verified, "pis_match": pis == want, "detail": od});
        }
        out.push(row);
    }
    out
}

// ------------------------------------------------------------------------------------------
// dummy circuits and proofs
// ------------------------------------------------------------------------------------------
fn dummy_shape(s: &Value) -> Vec<Value> {
    let id = s["id"].as_str().unwrap_or("?").to_string();
    let mut r = rng_for(&id, 21);
    let (prog, cfg, inputs, pad) = match parse_shape(s, &mut r) {
        Ok(x) => x,
        Err(e) => return vec![json!({"id": id, "skipped": e})],
    };
    if cfg.zk {
        return vec![json!({"id": id, "skipped": "zero-knowledge: dummy_circuit refuses by contract"})];
    }
    let inner = match build_inner(&prog, &cfg, &inputs, pad) {
        Ok(x) => x,
        Err(e) => return vec![json!({"id": id, "skipped": e})],
    };
    let common = inner.data.common.clone();
    let shape = json!({"degree_bits": common.degree_bits(), "num_pis": common.num_public_inputs, "gates": common.gates.len(),
                       "lookups": !common.luts.is_empty(), "num_constants": common.num_constants});
    let dc = match guarded(|| dummy_circuit::<F, C, D>(&common)) {
        Ok(dc) => dc,
        Err(p) => return vec![json!({"id": id, "shape": shape, "dummy_circuit": false, "panic": p.chars().take(160).collect::<String>()})],
    };
    let mut out = vec![json!({"id": id, "shape": shape, "dummy_circuit": true, "same_common": dc.common == common})];
    let npi = common.num_public_inputs;
    for variant in 0..3 {
        let mut m: HashMap<usize, F> = HashMap::new();
        match variant {
            0 => {}
            1 => {
                for i in 0..npi {
                    m.insert(i, F::from_canonical_u64(r.gen_range(0..P)));
                }
            }
            _ => {
                if npi > 0 {
                    m.insert(r.gen_range(0..npi), F::NEG_ONE);
                }
            }
        }
        let want: Vec<u64> = (0..npi).map(|i| m.get(&i).map(|x| x.to_canonical_u64()).unwrap_or(0)).collect();
        let res = guarded(|| dummy_proof::<F, C, D>(&dc, m));
        let row = match res {
            Ok(Ok(p)) => {
                let got: Vec<u64> = p.public_inputs.iter().map(|x| x.to_canonical_u64()).collect();
                let (ok, d) = native_verdict(&p, &dc.verifier_only, &dc.common);
                // the same proof under the ORIGINAL circuit's verifier data (information only)
                let (under_original, _) = native_verdict(&p, &inner.data.verifier_only, &common);
                json!({"id": id, "variant": variant, "proved": true, "verified": ok, "detail": d, "pis_ok": got == want, "under_original": under_original})
            }
            Ok(Err(e)) => json!({"id": id, "variant": variant, "proved": false, "verified": false, "detail": format!("{e:#}")}),
            Err(p) => json!({"id": id, "variant": variant, "proved": false, "verified": false, "detail": format!("panic: {p}")}),
        };
        out.push(row);
    }
    out
}

// ------------------------------------------------------------------------------------------
// cyclic recursion
// ------------------------------------------------------------------------------------------
struct Cyc {
    data: CircuitData<F, C, D>,
    cond: BoolTarget,
    inner: ProofWithPublicInputsTarget<D>,
    vdt: VerifierCircuitTarget,
    common: CommonCircuitData<F, D>,
    constants: Vec<Vec<F>>,
    inc: u64,
}

/// `common_data_for_recursion` of the library's own cyclic test
fn common_data_for_recursion() -> CommonCircuitData<F, D> {
    let config = CircuitConfig::standard_recursion_config();
    let builder = CircuitBuilder::<F, D>::new(config.clone());
    let data = builder.build::<C>();
    let mut builder = CircuitBuilder::<F, D>::new(config.clone());
    let proof = builder.add_virtual_proof_with_pis(&data.common);
    let vd = builder.add_virtual_verifier_data(data.common.config.fri_config.cap_height);
    builder.verify_proof::<C>(&proof, &vd, &data.common);
    let data = builder.build::<C>();
    let mut builder = CircuitBuilder::<F, D>::new(config);
    let proof = builder.add_virtual_proof_with_pis(&data.common);
    let vd = builder.add_virtual_verifier_data(data.common.config.fri_config.cap_height);
    builder.verify_proof::<C>(&proof, &vd, &data.common);
    while builder.num_gates() < 1 << 12 {
        builder.add_gate(NoopGate, vec![]);
    }
    builder.build::<C>().common
}

/// counter-style cyclic circuit: public inputs [start, counter, own verifier data]; counter = cond * inner counter + inc
fn cyclic_circuit(inc: u64, base_common: &CommonCircuitData<F, D>) -> anyhow::Result<Cyc> {
    let mut b = CircuitBuilder::<F, D>::new(CircuitConfig::standard_recursion_config());
    let start = b.add_virtual_public_input();
    let counter = b.add_virtual_public_input();
    let mut common = base_common.clone();
    let vdt = b.add_verifier_data_public_inputs();
    common.num_public_inputs = b.num_public_inputs();
    let cond = b.add_virtual_bool_target_safe();
    let inner = b.add_virtual_proof_with_pis(&common);
    let inner_start = inner.public_inputs[0];
    let inner_counter = inner.public_inputs[1];
    b.connect(start, inner_start);
    let incc = b.constant(F::from_canonical_u64(inc));
    let new_counter = b.mul_add(cond.target, inner_counter, incc);
    b.connect(counter, new_counter);
    b.conditionally_verify_cyclic_proof_or_dummy::<C>(cond, &inner, &common)?;
    let data = b.build::<C>();
    let constants = oracle::constants_by_row(&data.prover_only, &data.common);
    Ok(Cyc { data, cond, inner, vdt, common, constants, inc })
}

#[derive(Clone)]
struct St {
    latest: Option<PW>,
    /// number of successful steps behind `latest` (model counter)
    n: u64,
}

impl Cyc {
    /// one step: (outcome "ok" | "rejected", proof, stage)
    fn step(&self, cond: bool, inner: &PW) -> (bool, Option<PW>, String) {
        self.step_with_vd(cond, inner, &self.data.verifier_only)
    }
    /// the circuit's verifier data with exactly one component altered: the digest (element `elt`) or one cap element
    fn bad_vd(&self, component: &str, entry: usize, elt: usize) -> VD {
        let mut vd = self.data.verifier_only.clone();
        if component == "digest" {
            vd.circuit_digest.elements[elt % 4] += F::ONE;
        } else {
            let n = vd.constants_sigmas_cap.0.len();
            vd.constants_sigmas_cap.0[entry % n].elements[elt % 4] += F::ONE;
        }
        vd
    }
    /// base case (condition = false) run with verifier data `vd` in the verifier-data public inputs: the base proof
    /// carries the same data, so every constraint of the circuit holds - an otherwise honest link
    fn bad_base(&self, start: u64, vd: &VD) -> (bool, Option<PW>, String) {
        let mut m: HashMap<usize, F> = HashMap::new();
        if start != 0 {
            m.insert(0, F::from_canonical_u64(start));
        }
        let base = cyclic_base_proof(&self.common, vd, m);
        self.step_with_vd(false, &base, vd)
    }
    /// one step with the verifier-data public inputs set to `vd` (the honest prover sets the circuit's own)
    fn step_with_vd(&self, cond: bool, inner: &PW, vd: &VD) -> (bool, Option<PW>, String) {
        let mut pw = PartialWitness::new();
        let fill = guarded(|| -> anyhow::Result<()> {
            pw.set_bool_target(self.cond, cond)?;
            pw.set_proof_with_pis_target::<C, D>(&self.inner, inner)?;
            pw.set_verifier_data_target(&self.vdt, vd)
        });
        if !matches!(fill, Ok(Ok(()))) {
            return (false, None, "assign".into());
        }
        let w = match guarded(|| generate_partial_witness(pw, &self.data.prover_only, &self.data.common)) {
            Ok(Ok(w)) => w,
            Ok(Err(e)) => return (false, None, format!("witgen_err: {e:#}").chars().take(100).collect()),
            Err(p) => return (false, None, format!("witgen_panic: {p}").chars().take(100).collect()),
        };
        let v = oracle::check(&Assignment::from_partition(&w), &self.data.prover_only, &self.data.common, &self.constants);
        if !v.satisfied() {
            return (false, None, "oracle_unsat".into());
        }
        match guarded(|| prove_with_partition_witness(&self.data.prover_only, &self.data.common, w, &mut TimingTree::default())) {
            Ok(Ok(p)) => match guarded(|| self.data.verify(p.clone())) {
                Ok(Ok(())) => (true, Some(p), "proved".into()),
                _ => (false, Some(p), "outer proof does not verify".into()),
            },
            Ok(Err(e)) => (false, None, format!("prove_err: {e:#}").chars().take(100).collect()),
            Err(p) => (false, None, format!("prove_panic: {p}").chars().take(100).collect()),
        }
    }
    fn base(&self, start: u64) -> PW {
        let mut m: HashMap<usize, F> = HashMap::new();
        if start != 0 {
            m.insert(0, F::from_canonical_u64(start));
        }
        cyclic_base_proof(&self.common, &self.data.verifier_only, m)
    }
    fn observe(&self, p: &PW) -> Value {
        let verify = matches!(guarded(|| self.data.verify(p.clone())), Ok(Ok(())));
        let check = matches!(guarded(|| check_cyclic_proof_verifier_data(p, &self.data.verifier_only, &self.data.common)), Ok(Ok(())));
        let cap_len = self.common.config.fri_config.num_cap_elements();
        let len = p.public_inputs.len();
        let tail = &p.public_inputs[len - 4 - 4 * cap_len..];
        let mut own = tail[..4] == self.data.verifier_only.circuit_digest.elements;
        for i in 0..cap_len {
            own &= tail[4 + 4 * i..8 + 4 * i] == self.data.verifier_only.constants_sigmas_cap.0[i].elements;
        }
        json!({"verify": verify, "check_vd": check, "embedded_own": own, "counter": p.public_inputs[1].to_canonical_u64(),
               "start": p.public_inputs[0].to_canonical_u64()})
    }
}

fn cyclic(s: &Value) -> Vec<Value> {
    let id = s["id"].as_str().unwrap_or("?").to_string();
    let mut r = rng_for(&id, 22);
    let t0 = std::time::Instant::now();
    let base_common = common_data_for_recursion();
    let x = match guarded(|| cyclic_circuit(1, &base_common)) {
        Ok(Ok(c)) => c,
        Ok(Err(e)) => return vec![json!({"id": id, "skipped": format!("cyclic circuit: {e:#}")})],
        Err(p) => return vec![json!({"id": id, "skipped": format!("cyclic circuit panic: {p}")})],
    };
    let y = match guarded(|| cyclic_circuit(2, &base_common)) {
        Ok(Ok(c)) => c,
        _ => return vec![json!({"id": id, "skipped": "second cyclic circuit"})],
    };
    let mut out = vec![json!({"id": id, "shape": {"degree_bits": x.data.common.degree_bits(), "num_pis": x.common.num_public_inputs,
        "same_common": x.data.common == y.data.common, "different_vd": x.data.verifier_only.circuit_digest != y.data.verifier_only.circuit_digest,
        "build_ms": t0.elapsed().as_millis() as u64}})];
    // chain proofs of the foreign circuit, by length
    let mut foreign_by_start: StdMap<u64, Vec<PW>> = StdMap::new();
    let mut cache: StdMap<String, St> = StdMap::new();
    let mut proved = 0usize;
    for (hi, hist) in s["histories"].as_array().cloned().unwrap_or_default().iter().enumerate() {
        let mut st = St { latest: None, n: 0 };
        // base-case variant: the start value travels in the base proof's public inputs (0 = the all-zero map)
        let start = hist["start"].as_u64().unwrap_or(0);
        let mut key = format!("{start}:");
        let foreign = foreign_by_start.entry(start).or_default();
        for (si, step) in hist["steps"].as_array().cloned().unwrap_or_default().iter().enumerate() {
            let act = step["act"].as_str().unwrap_or("");
            key.push_str(act);
            key.push('/');
            let mut step_outcome = "n/a".to_string();
            let mut stage = String::new();
            let cached = cache.get(&key).cloned();
            if act == "BadBaseDigest" || act == "BadBaseCap" {
                if let Some(c) = cached.clone() {
                    st = c;
                    stage = "cached".into();
                } else {
                    let cap_len = x.common.config.fri_config.num_cap_elements();
                    let (entry, elt) = (r.gen_range(0..cap_len), if r.gen_bool(0.5) { 0 } else { 3 });
                    let vd = x.bad_vd(if act == "BadBaseDigest" { "digest" } else { "cap" }, entry, elt);
                    let (ok, p, sg) = x.bad_base(start, &vd);
                    proved += 1;
                    stage = format!("{sg} entry {entry} elt {elt}");
                    if !ok {
                        return vec![json!({"id": id, "skipped": format!("a base-case proof with one altered verifier-data component could not be made: {stage}")})];
                    }
                    st = St { latest: p, n: 1 };
                    cache.insert(key.clone(), st.clone());
                }
                step_outcome = "bad-link".into();
            } else if act == "StepBase" || act == "StepRec" {
                // steps are deterministic functions of the prefix up to grinding: shared between histories
                if let Some(c) = cached.clone() {
                    step_outcome = if act == "StepBase" || c.n > st.n { "ok".into() } else { "rejected".into() };
                    stage = "cached".into();
                    st = c;
                } else {
                    let inner = if act == "StepBase" { x.base(start) } else { st.latest.clone().unwrap() };
                    let (ok, p, sg) = x.step(act == "StepRec", &inner);
                    proved += 1;
                    stage = sg;
                    if ok {
                        step_outcome = "ok".into();
                        st = St { latest: p, n: if act == "StepBase" { 1 } else { st.n + 1 } };
                    } else {
                        step_outcome = "rejected".into();
                    }
                    cache.insert(key.clone(), st.clone());
                }
            } else if let Some(c) = cached.clone() {
                st = c;
            } else {
                let mut p = st.latest.clone().unwrap();
                let cap_len = x.common.config.fri_config.num_cap_elements();
                let len = p.public_inputs.len();
                match act {
                    "TamperDigest" => {
                        let i = len - 4 - 4 * cap_len + r.gen_range(0..4);
                        p.public_inputs[i] += F::ONE;
                    }
                    "TamperCap" => {
                        let i = len - 4 * cap_len + r.gen_range(0..4 * cap_len);
                        p.public_inputs[i] += F::from_canonical_u64(1 + r.gen_range(0..1000u64));
                    }
                    _ => {
                        // a valid chain proof of the other circuit with as many steps
                        while (foreign.len() as u64) < st.n {
                            let (ok, q, _) = if foreign.is_empty() { y.step(false, &y.base(start)) } else { y.step(true, foreign.last().unwrap()) };
                            proved += 1;
                            if !ok {
                                return vec![json!({"id": id, "skipped": "the foreign chain could not be built"})];
                            }
                            foreign.push(q.unwrap());
                        }
                        p = foreign[(st.n - 1) as usize].clone();
                    }
                }
                st.latest = Some(p);
                cache.insert(key.clone(), st.clone());
            }
            let obs = match &st.latest {
                Some(p) => x.observe(p),
                None => json!({}),
            };
            // a foreign proof is a proper chain proof of ITS circuit
            let foreign_ok = if act == "Foreign" { st.latest.as_ref().map(|p| y.observe(p)) } else { None };
            out.push(json!({"id": id, "history": hi, "start": start, "step": si, "act": act, "expect": step["expect"], "step_outcome": step_outcome,
                "obs": obs, "stage": stage, "inc": x.inc, "model_n": st.n, "foreign_under_its_circuit": foreign_ok}));
        }
    }
    // ---- bad links: base-case proofs whose embedded verifier data differ in exactly one component, then extended
    for bl in s["badlinks"].as_array().cloned().unwrap_or_default() {
        let comp = bl["component"].as_str().unwrap_or("cap").to_string();
        let (entry, elt) = (bl["entry"].as_u64().unwrap_or(0) as usize, bl["elt"].as_u64().unwrap_or(0) as usize);
        let start = bl["start"].as_u64().unwrap_or(7);
        let vd = x.bad_vd(&comp, entry, elt);
        let (ok, link, sg) = x.bad_base(start, &vd);
        proved += 1;
        let Some(link) = link.filter(|_| ok) else {
            out.push(json!({"id": id, "badlink": bl, "link_made": false, "stage": sg}));
            continue;
        };
        let link_obs = x.observe(&link);
        // extend the chain from it with the honest verifier data
        let (eok, ext, esg) = x.step(true, &link);
        let ext_obs = ext.as_ref().map(|p| x.observe(p));
        // depth 2: if the extension exists, extend once more
        let ext2 = if eok { ext.as_ref().map(|p| { let (ok2, p2, _) = x.step(true, p); (ok2, p2.as_ref().map(|q| x.observe(q))) }) } else { None };
        out.push(json!({"id": id, "badlink": bl, "link_made": true, "link_obs": link_obs, "extend_outcome": if eok { "ok" } else { "rejected" },
            "extend_stage": esg.chars().take(90).collect::<String>(), "extended_obs": ext_obs,
            "extended_twice": ext2.map(|(ok2, o)| json!({"ok": ok2, "obs": o}))}));
    }
    out.push(json!({"id": id, "proofs_made": proved, "prefixes": cache.len(), "ms": t0.elapsed().as_millis() as u64}));
    out
}

fn run(args: &[String], what: &str) -> anyhow::Result<()> {
    let inp = opt(args, "--in").ok_or_else(|| anyhow::anyhow!("--in"))?;
    let selftest = args.iter().any(|a| a == "--selftest");
    let mut done: std::collections::HashSet<u64> = Default::default();
    for s in read_lines(inp)? {
        let slot = s["slot"].as_u64();
        if let Some(k) = slot {
            if done.contains(&k) {
                continue;
            }
        }
        let rows = match what {
            "cond" => cond_shape(&s, selftest),
            "dummy" => dummy_shape(&s),
            _ => cyclic(&s),
        };
        if let (Some(k), true) = (slot, rows.iter().any(|r| r.get("shape").is_some())) {
            done.insert(k);
        }
        for row in rows {
            emit(&row);
        }
    }
    Ok(())
}

fn main() -> std::process::ExitCode {
    run_main(|cmd, rest| match cmd {
        "cond" | "dummy" | "cyclic" => run(rest, cmd),
        other => Err(anyhow::anyhow!("unknown command {other}")),
    })
}
