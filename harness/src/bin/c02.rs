//! C02 — no accepted proof for an assignment that violates the circuit.
//! `run --in scenarios.ndjson`: for every (program, configuration, inputs) the honest assignment
//! is expanded over the identity partition, single cells / whole copy classes / public inputs are
//! corrupted as the catalogue of spec/Corruptions.tla prescribes, each corrupted assignment is
//! classified by the satisfaction oracle and handed to `prove_with_partition_witness` under every
//! prover strategy of the catalogue (hook H8); whatever comes back is verified.
use std::io::BufRead;

use plonky2::field::types::{Field, PrimeField64};
use plonky2::iop::generator::generate_partial_witness;
use plonky2::iop::target::Target;
use plonky2::plonk::circuit_builder::CircuitBuilder;
use plonky2::plonk::circuit_data::CircuitData;
use plonky2::plonk::config::{GenericConfig, KeccakGoldilocksConfig, PoseidonGoldilocksConfig};
use plonky2::plonk::prover::prove_with_partition_witness;
use plonky2::util::timing::TimingTree;
use plonky2::verif_exports::selector_indices;
use plonky2::verif_knobs::{self, Knobs};
use rand::Rng;
use rand::SeedableRng;
use serde_json::{json, Value};
use vh::cfgs::CfgSpec;
use vh::oracle::{self, Assignment};
use vh::prog::{self, Program, D};
use vh::refarith::GOLDILOCKS;
use vh::util::*;

fn read_lines(path: &str) -> anyhow::Result<Vec<Value>> {
    let f = std::fs::File::open(path)?;
    let mut v = vec![];
    for l in std::io::BufReader::new(f).lines() {
        let l = l?;
        if !l.trim().is_empty() {
            v.push(serde_json::from_str(&l)?);
        }
    }
    Ok(v)
}

fn concretize(class: &str, r: &mut impl Rng) -> u64 {
    let p = GOLDILOCKS;
    let parts: Vec<&str> = class.split(':').collect();
    match parts[0] {
        "zero" => 0,
        "one" => 1,
        "two" => 2,
        "pm1" => p - 1,
        "pm2" => p - 2,
        "pow2" => 1u64 << parts[1].parse::<u32>().unwrap(),
        "pow2m1" => (1u64 << parts[1].parse::<u32>().unwrap()) - 1,
        "small" => r.gen_range(0..parts[1].parse::<u64>().unwrap()),
        "eps" => 0xFFFF_FFFF,
        _ => r.gen_range(0..p),
    }
}

fn knobs_for(strategy: &str, nch: usize) -> Option<Knobs> {
    let mut k = Knobs::default();
    k.lenient_trim = true;
    match strategy {
        "plain" => {}
        "zero_z" => k.z_override = Some(0),
        "one_z" => k.z_override = Some(1),
        "perturb_q0" => k.perturb_quotient = Some(0),
        "perturb_qlast" => k.perturb_quotient = Some(nch - 1),
        "zero_lookup" => k.lookup_override = Some(0),
        _ => return None,
    }
    Some(k)
}

/// one corruption: list of (target index, new value)
struct Corruption {
    kind: String,
    edits: Vec<(usize, F)>,
    desc: Value,
}

fn run_one<C: GenericConfig<D, F = F>>(
    s: &Value,
    prog: &Program,
    cfg: &CfgSpec,
    inputs: &[u64],
    kinds: &[String],
    strategies: &[String],
    max_cells: usize,
    selftest: bool,
    full: usize,
) -> Vec<Value> {
    let mut out = vec![];
    let id = s["id"].clone();
    let skip = |why: &str| vec![json!({"id": id, "skipped": why})];
    let _ = &skip;
    let it = match prog::interp(prog, inputs, GOLDILOCKS, 64) {
        Ok(it) => it,
        Err(_) => return skip("unsat base assignment"),
    };
    let with_pis = cfg.width != "narrow";
    if !prog::admissible(prog, &cfg.config(), with_pis) {
        return skip("inadmissible");
    }
    let built = guarded(|| {
        let mut b = CircuitBuilder::<F, D>::new(cfg.config());
        let built = prog::build(prog, &mut b, 64).map_err(|e| e.to_string())?;
        if with_pis {
            b.register_public_inputs(&built.vals);
        }
        let data: CircuitData<F, C, D> = b.build::<C>();
        Ok::<_, String>((built, data))
    });
    let (built, data) = match built {
        Ok(Ok(x)) => x,
        _ => return skip("build failed (C01's business)"),
    };
    let common = &data.common;
    let prover = &data.prover_only;
    // the selector grouping of this circuit, validated by TLC against spec/Selectors.tla
    out.push(json!({"id": id, "selectors": {
        "degrees": common.gates.iter().map(|g| g.0.degree()).collect::<Vec<_>>(),
        "max_degree": common.quotient_degree_factor + 1,
        "groups": plonky2::verif_exports::selector_groups(&common.selectors_info).iter().map(|r| vec![r.start, r.end]).collect::<Vec<_>>(),
        "selector_indices": selector_indices(&common.selectors_info).to_vec(),
    }}));
    // FRI-side admissibility (spec/Configs.tla FriAdmissible) for the degree of this circuit
    if cfg.fri_admissible(common.degree_bits()).is_err() {
        return skip("inadmissible FRI schedule for this degree");
    }
    if cfg.strat == "minsize" {
        let ar = &common.fri_params.reduction_arity_bits;
        let sum: usize = ar.iter().sum();
        if common.degree_bits() + cfg.rate < sum + cfg.cap {
            return skip("inadmissible: MinSize schedule folds below the cap height");
        }
    }
    let pw = match prog::witness(&built, inputs, &it.vals) {
        Ok(pw) => pw,
        Err(_) => return skip("witness"),
    };
    let mut honest = match guarded(|| generate_partial_witness(pw, prover, common)) {
        Ok(Ok(w)) => w,
        _ => return skip("witness generation failed (C01's business)"),
    };
    // the prover fills lookup padding slots and multiplicities itself (idempotent when repeated)
    if !common.luts.is_empty() && plonky2::plonk::prover::set_lookup_wires(prover, common, &mut honest).is_err() {
        return skip("set_lookup_wires failed on the honest witness");
    }
    let a0 = Assignment::from_partition(&honest);
    let constants = oracle::constants_by_row(prover, common);
    let v0 = oracle::check(&a0, prover, common, &constants);
    if !v0.satisfied() {
        out.push(json!({"id": id, "anomaly": "honest assignment rejected by the oracle",
                        "gate": v0.gate_violations.len(), "copy": v0.copy_violations.len(), "lookup": v0.lookup_violations.len(),
                        "first_gate": v0.gate_violations.first()}));
        return out;
    }
    let identity: Vec<usize> = (0..a0.values.len()).collect();
    let nw = a0.num_wires;
    let degree = a0.degree;
    let routed = common.config.num_routed_wires;
    // which gate sits on which row (selector value = gate index)
    let sel = selector_indices(&common.selectors_info);
    let gate_of_row: Vec<Option<usize>> = (0..degree)
        .map(|r| (0..common.gates.len()).find(|&g| constants[r][sel[g]] == F::from_canonical_usize(g)))
        .collect();
    let mut r = rand_chacha::ChaCha8Rng::seed_from_u64(seed() ^ (s["id"].as_str().map(|x| x.len() as u64).unwrap_or(0) << 32)
        ^ inputs.iter().fold(0u64, |a, b| a.wrapping_mul(31).wrapping_add(*b)));
    // copy classes with several routed wire members
    let rep = &prover.representative_map;
    let mut classes: std::collections::BTreeMap<usize, Vec<usize>> = Default::default();
    for row in 0..degree {
        for col in 0..routed {
            let t = row * nw + col;
            classes.entry(rep[t]).or_default().push(t);
        }
    }
    let multi: Vec<&Vec<usize>> = classes.values().filter(|m| m.len() >= 2).collect();
    let newval = |old: F, r: &mut rand_chacha::ChaCha8Rng| -> F {
        match r.gen_range(0..3) {
            0 => old + F::ONE,
            1 => {
                if old == F::ZERO {
                    F::NEG_ONE
                } else {
                    F::ZERO
                }
            }
            _ => {
                let x = F::from_canonical_u64(r.gen_range(0..GOLDILOCKS));
                if x == old {
                    old + F::TWO
                } else {
                    x
                }
            }
        }
    };
    let mut cors: Vec<Corruption> = vec![];
    for kind in kinds {
        match kind.as_str() {
            "gate_cell" => {
                // per gate type: up to two rows, three columns each (first, a routed one, first advice column)
                for g in 0..common.gates.len() {
                    let rows: Vec<usize> = (0..degree).filter(|&row| gate_of_row[row] == Some(g)).collect();
                    if rows.is_empty() {
                        continue;
                    }
                    let gw = common.gates[g].0.num_wires().max(1);
                    for &row in [rows[0], rows[rows.len() - 1]].iter().take(if rows.len() > 1 { 2 } else { 1 }) {
                        let mut cols = vec![0usize, r.gen_range(0..gw.min(nw)), gw.min(nw) - 1];
                        if routed < nw && gw > routed {
                            cols.push(routed);
                        }
                        cols.sort_unstable();
                        cols.dedup();
                        for col in cols {
                            let t = row * nw + col;
                            cors.push(Corruption { kind: kind.clone(), edits: vec![(t, newval(a0.values[t], &mut r))],
                                desc: json!({"row": row, "col": col, "gate": common.gates[g].0.id()}) });
                        }
                    }
                }
            }
            "random_cell" => {
                for _ in 0..6 {
                    let row = r.gen_range(0..degree);
                    let col = r.gen_range(0..nw);
                    let t = row * nw + col;
                    cors.push(Corruption { kind: kind.clone(), edits: vec![(t, newval(a0.values[t], &mut r))],
                        desc: json!({"row": row, "col": col, "gate": gate_of_row[row].map(|g| common.gates[g].0.id())}) });
                }
            }
            "copy_member" => {
                for _ in 0..3.min(multi.len()) {
                    let m = multi[r.gen_range(0..multi.len())];
                    let t = m[r.gen_range(0..m.len())];
                    cors.push(Corruption { kind: kind.clone(), edits: vec![(t, newval(a0.values[t], &mut r))],
                        desc: json!({"row": t / nw, "col": t % nw, "class_size": m.len()}) });
                }
            }
            "copy_class" => {
                for _ in 0..2.min(multi.len()) {
                    let m = multi[r.gen_range(0..multi.len())];
                    let nv = newval(a0.values[m[0]], &mut r);
                    // the whole class, including non-wire members, consistently
                    let rp = rep[m[0]];
                    let edits: Vec<(usize, F)> = (0..rep.len()).filter(|&t| rep[t] == rp).map(|t| (t, nv)).collect();
                    cors.push(Corruption { kind: kind.clone(), edits, desc: json!({"row": m[0] / nw, "col": m[0] % nw, "class_size": m.len()}) });
                }
            }
            "public_input" => {
                if !prover.public_inputs.is_empty() {
                    for _ in 0..2 {
                        let k = r.gen_range(0..prover.public_inputs.len());
                        let t = a0.idx(prover.public_inputs[k]);
                        cors.push(Corruption { kind: kind.clone(), edits: vec![(t, newval(a0.values[t], &mut r))],
                            desc: json!({"pi": k, "virtual": matches!(prover.public_inputs[k], Target::VirtualTarget { .. })}) });
                    }
                }
            }
            "none" => cors.push(Corruption { kind: kind.clone(), edits: vec![], desc: json!({}) }),
            _ => {}
        }
    }
    if cors.len() > max_cells {
        // keep a seeded subset, always keeping the uncorrupted control
        let mut keep: Vec<Corruption> = vec![];
        let mut rest: Vec<Corruption> = vec![];
        for c in cors {
            if c.kind == "none" {
                keep.push(c)
            } else {
                rest.push(c)
            }
        }
        while keep.len() < max_cells && !rest.is_empty() {
            let k = r.gen_range(0..rest.len());
            keep.push(rest.swap_remove(k));
        }
        cors = keep;
    }
    let nch = common.config.num_challenges;
    for (ci, c) in cors.iter().enumerate() {
        let mut a = a0.clone();
        for (t, v) in &c.edits {
            a.values[*t] = *v;
        }
        let verdict = oracle::check(&a, prover, common, &constants);
        let violated = !verdict.satisfied();
        for st in strategies {
            if st == "zero_lookup" && common.luts.is_empty() {
                continue;
            }
            if c.kind == "none" && st != "plain" {
                continue;
            }
            // every corruption meets the plain prover; the degenerate strategies rotate over the
            // corruptions (all of them on every `full`-th one) to bound the number of proofs
            let others: Vec<&String> = strategies.iter().filter(|x| x.as_str() != "plain").collect();
            if st != "plain" && !others.is_empty() && ci % full != 0 && others[ci % others.len()] != st {
                continue;
            }
            let Some(k) = knobs_for(st, nch) else { continue };
            verif_knobs::set(k);
            let res = guarded(|| {
                let mut timing = TimingTree::default();
                prove_with_partition_witness(prover, common, a.to_partition(&identity), &mut timing)
            });
            verif_knobs::clear();
            let (stage, accepted, detail) = match res {
                Err(p) => ("prove_panic", false, p),
                Ok(Err(e)) => ("prove_err", false, format!("{e:#}")),
                Ok(Ok(proof)) => {
                    let proof = if selftest && violated {
                        // self-test: pretend the verifier accepted
                        return vec![json!({"id": id, "kind": c.kind, "strategy": st, "violated": true, "accepted": true,
                                           "stage": "selftest", "desc": c.desc})];
                    } else {
                        proof
                    };
                    match guarded(|| data.verify(proof)) {
                        Ok(Ok(())) => ("verify_ok", true, String::new()),
                        Ok(Err(e)) => ("verify_err", false, format!("{e:#}")),
                        Err(p) => ("verify_panic", false, p),
                    }
                }
            };
            out.push(json!({"id": id, "kind": c.kind, "strategy": st, "violated": violated, "accepted": accepted,
                "stage": stage, "detail": detail.chars().take(160).collect::<String>(), "desc": c.desc,
                "oracle": {"gate": verdict.gate_violations.len(), "copy": verdict.copy_violations.len(), "lookup": verdict.lookup_violations.len()},
                "edits": c.edits.iter().take(4).map(|(t, v)| json!([t, v.to_canonical_u64()])).collect::<Vec<_>>(),
                "uses_lookup": !common.luts.is_empty()}));
        }
    }
    out
}

fn run(args: &[String]) -> anyhow::Result<()> {
    let inp = opt(args, "--in").ok_or_else(|| anyhow::anyhow!("--in"))?;
    let max_cells = opt_usize(args, "--cells", 24);
    let selftest = args.iter().any(|a| a == "--selftest");
    let full = opt_usize(args, "--full-every", 5).max(1);
    let mut r = rng(2);
    for s in read_lines(inp)? {
        let prog: Program = serde_json::from_value(s["prog"].clone())?;
        let cfg: CfgSpec = serde_json::from_value(s["cfg"].clone())?;
        let classes: Vec<String> = serde_json::from_value(s["inputs"].clone())?;
        let kinds: Vec<String> = serde_json::from_value(s["kinds"].clone())?;
        let strategies: Vec<String> = serde_json::from_value(s["strategies"].clone())?;
        let inputs: Vec<u64> = match s.get("concrete") {
            Some(c) if c.is_array() => serde_json::from_value(c.clone())?,
            _ => classes.iter().map(|c| concretize(c, &mut r)).collect(),
        };
        let rows = if cfg.keccak {
            run_one::<KeccakGoldilocksConfig>(&s, &prog, &cfg, &inputs, &kinds, &strategies, max_cells, selftest, full)
        } else {
            run_one::<PoseidonGoldilocksConfig>(&s, &prog, &cfg, &inputs, &kinds, &strategies, max_cells, selftest, full)
        };
        for mut row in rows {
            row["concrete"] = json!(inputs);
            emit(&row);
        }
    }
    Ok(())
}

/// `forest --in scenarios.ndjson`: replay of spec/CopyForest.tla behaviours on the real builder:
/// connect sequences over a 2 x 2 grid of routed wires (two no-op rows) and two virtual targets;
/// the representative map must induce the expected classes and sigma one cycle per class.
fn forest(args: &[String]) -> anyhow::Result<()> {
    use plonky2::gates::noop::NoopGate;
    let inp = opt(args, "--in").ok_or_else(|| anyhow::anyhow!("--in"))?;
    let mut n = 0u64;
    let mut mism: Vec<Value> = vec![];
    for s in read_lines(inp)? {
        n += 1;
        let cols = s["cols"].as_u64().unwrap() as usize;
        let rows = s["rows"].as_u64().unwrap() as usize;
        let routed = s["routed"].as_u64().unwrap() as usize;
        let nv = s["nv"].as_u64().unwrap() as usize;
        let connects: Vec<Vec<usize>> = serde_json::from_value(s["connects"].clone())?;
        let expected: Vec<usize> = serde_json::from_value(s["expected"].clone())?;
        let res = guarded(|| {
            let mut b = CircuitBuilder::<F, D>::new(CfgSpec::standard().config());
            let real_rows: Vec<usize> = (0..rows).map(|_| b.add_gate(NoopGate, vec![])).collect();
            let virt: Vec<Target> = (0..nv).map(|_| b.add_virtual_target()).collect();
            let tgt = |t: usize| -> Target {
                if t < rows * cols {
                    Target::wire(real_rows[t / cols], t % cols)
                } else {
                    virt[t - rows * cols]
                }
            };
            for c in &connects {
                b.connect(tgt(c[0]), tgt(c[1]));
            }
            let data = b.build::<PoseidonGoldilocksConfig>();
            let nw = data.common.config.num_wires;
            let degree = data.common.degree();
            let rep = &data.prover_only.representative_map;
            let idx = |t: usize| tgt(t).index(nw, degree);
            let connectable: Vec<usize> = (0..rows * cols + nv).filter(|&t| t >= rows * cols || t % cols < routed).collect();
            // (1) classes
            for &a in &connectable {
                for &c in &connectable {
                    if (rep[idx(a)] == rep[idx(c)]) != (expected[a] == expected[c]) {
                        return Err(format!("classes differ for targets {a},{c}"));
                    }
                }
            }
            // (2) sigma: decode k_i * w^r back to (row, column)
            let k_is = &data.common.k_is;
            let sub = &data.prover_only.subgroup;
            let mut pos: std::collections::HashMap<u64, (usize, usize)> = Default::default();
            for (c, k) in k_is.iter().enumerate() {
                for (r, w) in sub.iter().enumerate() {
                    pos.insert((*k * *w).to_canonical_u64(), (r, c));
                }
            }
            let wires: Vec<usize> = (0..rows * cols).filter(|t| t % cols < routed).collect();
            for &t in &wires {
                let members: std::collections::BTreeSet<(usize, usize)> = wires.iter().filter(|&&u| expected[u] == expected[t])
                    .map(|&u| (real_rows[u / cols], u % cols)).collect();
                let mut orbit = std::collections::BTreeSet::new();
                let mut cur = (real_rows[t / cols], t % cols);
                while orbit.insert(cur) {
                    let sv = data.prover_only.sigmas[cur.0][cur.1].to_canonical_u64(); // stored row-major (transposed)
                    cur = *pos.get(&sv).ok_or_else(|| "sigma value is not a cell".to_string())?;
                }
                if orbit != members {
                    return Err(format!("sigma orbit of wire {t} is {orbit:?}, expected {members:?}"));
                }
            }
            Ok(())
        });
        match res {
            Ok(Ok(())) => {}
            Ok(Err(e)) => {
                if mism.len() < 10 {
                    mism.push(json!({"scenario": s, "detail": e}))
                }
            }
            Err(p) => {
                if mism.len() < 10 {
                    mism.push(json!({"scenario": s, "panic": p}))
                }
            }
        }
    }
    emit(&json!({"kind": "forest", "scenarios": n, "mismatches": mism}));
    Ok(())
}


/// `connectprobe`: the API-level meaning of `connect` at the boundary of the routed columns.  For every
/// row shape and column c in {routed-1, routed, routed+1, wires-1}: connect(Wire(row, c), public input).
/// Either the call is refused (panic: "isn't routable", the documented precondition) or the equality must be
/// enforced: an assignment in which the two differ must not yield an accepted proof.
fn connectprobe(_args: &[String]) -> anyhow::Result<()> {
    use plonky2::gates::noop::NoopGate;
    use plonky2::iop::witness::{PartialWitness, WitnessWrite};
    use plonky2::plonk::circuit_data::CircuitConfig;
    type C = PoseidonGoldilocksConfig;
    let mut rows = vec![];
    for (nw, nr) in [(135usize, 80usize), (135, 37), (234, 120), (135, 134)] {
        for c in [nr - 1, nr, nr + 1, nw - 1] {
            if c >= nw {
                continue;
            }
            let mut config = CircuitConfig::standard_recursion_config();
            config.num_wires = nw;
            config.num_routed_wires = nr;
            let mut b = CircuitBuilder::<F, D>::new(config);
            let pi = b.add_virtual_public_input();
            let row = b.add_gate(NoopGate, vec![]);
            let wire = Target::wire(row, c);
            let refused = guarded(move || {
                b.connect(wire, pi);
                b
            });
            let mut rec = json!({"nw": nw, "nr": nr, "col": c, "routed": c < nr});
            let b = match refused {
                Err(p) => {
                    rec["outcome"] = json!("refused");
                    rec["detail"] = json!(p);
                    rows.push(rec);
                    continue;
                }
                Ok(b) => b,
            };
            let data = match guarded(move || b.build::<C>()) {
                Ok(d) => d,
                Err(p) => {
                    rec["outcome"] = json!("build_panic");
                    rec["detail"] = json!(p);
                    rows.push(rec);
                    continue;
                }
            };
            let mut pw = PartialWitness::<F>::new();
            pw.set_target(pi, F::from_canonical_u64(7))?;
            let honest = match guarded(|| generate_partial_witness(pw, &data.prover_only, &data.common)) {
                Ok(Ok(w)) => w,
                other => {
                    rec["outcome"] = json!("witness_failed");
                    rec["detail"] = json!(format!("{:?}", other.map(|r| r.map(|_| ()).map_err(|e| e.to_string()))));
                    rows.push(rec);
                    continue;
                }
            };
            let a0 = Assignment::from_partition(&honest);
            rec["honest_wire_value"] = json!(a0.get(wire).to_canonical_u64());
            // the cheating prover: same assignment except that the connected wire holds another value
            let identity: Vec<usize> = (0..a0.values.len()).collect();
            let mut a = a0.clone();
            let i = a.idx(wire);
            a.values[i] = F::from_canonical_u64(8);
            let res = guarded(|| {
                let mut timing = TimingTree::default();
                prove_with_partition_witness(&data.prover_only, &data.common, a.to_partition(&identity), &mut timing)
            });
            let outcome = match res {
                Err(p) => format!("prove_panic: {}", &p[..p.len().min(120)]),
                Ok(Err(e)) => format!("prove_err: {e:#}"),
                Ok(Ok(proof)) => match guarded(|| data.verify(proof)) {
                    Ok(Ok(())) => "accepted".to_string(),
                    Ok(Err(e)) => format!("verify_err: {e:#}"),
                    Err(p) => format!("verify_panic: {}", &p[..p.len().min(120)]),
                },
            };
            rec["outcome"] = json!(if outcome == "accepted" { "forgery_accepted" } else { "enforced" });
            rec["detail"] = json!(outcome);
            rows.push(rec);
        }
    }
    emit(&json!({"connectprobe": rows}));
    Ok(())
}

fn main() -> std::process::ExitCode {
    run_main(|cmd, rest| match cmd {
        "run" => run(rest),
        "forest" => forest(rest),
        "connectprobe" => connectprobe(rest),
        other => Err(anyhow::anyhow!("unknown command {other}")),
    })
}
