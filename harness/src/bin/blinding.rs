//! Conformance of the zero-knowledge blinding schedule (spec/Blinding.tla) with real circuits: builds
//! zero-knowledge circuits of chosen sizes under a grid of FRI configurations and records, per circuit,
//! the gate count before `build`, the final degree and the schedule the circuit ended up with.  One
//! ndjson line per circuit on stdout (validated by TLC, spec/BlindingTrace.tla).
use plonky2::field::goldilocks_field::GoldilocksField;
use plonky2::field::types::Field;
use plonky2::fri::reduction_strategies::FriReductionStrategy;
use plonky2::iop::witness::{PartialWitness, WitnessWrite};
use plonky2::plonk::circuit_builder::CircuitBuilder;
use plonky2::plonk::circuit_data::CircuitConfig;
use plonky2::plonk::config::PoseidonGoldilocksConfig;
use serde_json::json;

type F = GoldilocksField;
type C = PoseidonGoldilocksConfig;
const D: usize = 2;

fn main() {
    let args: Vec<String> = std::env::args().collect();
    let prove = args.iter().any(|a| a == "--prove");
    // --dense: gate counts 1, 4, 7, .. 121 under the settings with few queries (degrees 2^8..2^12), so that the
    // recorded degrees cross every boundary of the blinding fixed point (build only)
    let dense = args.iter().any(|a| a == "--dense");
    // --big: the standard zero-knowledge configuration at the 2^17 / 2^18 boundary (build only)
    let big = args.iter().any(|a| a == "--big");
    let sizes: Vec<usize> = if big { vec![20 * 117_000, 20 * 118_100, 20 * 119_500, 20 * 120_400] } else if dense { (0..41).map(|k| 60 * k).collect() } else { vec![1, 40, 300, 2000] };
    let strategies: Vec<(serde_json::Value, FriReductionStrategy)> = vec![
        (json!({"kind": "Const", "a": 4, "f": 5}), FriReductionStrategy::ConstantArityBits(4, 5)),
        (json!({"kind": "Const", "a": 3, "f": 2}), FriReductionStrategy::ConstantArityBits(3, 2)),
        (json!({"kind": "Const", "a": 3, "f": 5}), FriReductionStrategy::ConstantArityBits(3, 5)),
        (json!({"kind": "MinSize", "max": -1}), FriReductionStrategy::MinSize(None)),
        (json!({"kind": "MinSize", "max": 3}), FriReductionStrategy::MinSize(Some(3))),
    ];
    for (sj, st) in strategies.iter() {
        for &(rb, cap, q) in &[(3usize, 4usize, 28usize), (3, 4, 2), (3, 0, 7), (3, 0, 1), (4, 4, 2), (3, 4, 1)] {
            if dense && q > 2 {
                continue;
            }
            if big && !(q == 28 && sj["kind"] == "Const" && sj["a"] == 4 && sj["f"] == 5) {
                continue;
            }
            for &mults in &sizes {
                let mut config = CircuitConfig::standard_recursion_zk_config();
                config.security_bits = 1;
                config.fri_config.rate_bits = rb;
                config.fri_config.cap_height = cap;
                config.fri_config.num_query_rounds = q;
                config.fri_config.proof_of_work_bits = 1;
                config.fri_config.reduction_strategy = st.clone();
                let mut b = CircuitBuilder::<F, D>::new(config.clone());
                let x = b.add_virtual_target();
                let mut acc = x;
                for _ in 0..mults {
                    // one arithmetic operation per gate slot; 20 operations per ArithmeticGate row
                    acc = b.mul(acc, x);
                }
                b.register_public_input(acc);
                let n0 = b.num_gates();
                let data = b.build::<C>();
                let fp = &data.common.fri_params;
                let mut accepted = serde_json::Value::Null;
                if prove && !dense && !big && data.common.degree_bits() <= 14 {
                    let mut pw = PartialWitness::new();
                    pw.set_target(x, F::from_canonical_u64(3));
                    let ok = data.prove(pw).and_then(|p| data.verify(p)).is_ok();
                    accepted = json!(ok);
                }
                println!(
                    "{}",
                    json!({"ev": "zkbuild", "s": sj, "rb": rb, "cap": cap, "q": q, "n0": n0,
                           "deg_bits": data.common.degree_bits(), "bits": fp.reduction_arity_bits,
                           "hiding": fp.hiding, "accepted": accepted.as_bool().unwrap_or(true), "proved": !accepted.is_null()})
                );
            }
        }
    }
}
