//! C19 — keys, deterministic intermediates and verdicts are independent of the process, the number
//! of worker threads, the compile-time hash seed and the vector instruction set of the build.
//!  `digest --programs f --out o --proofs dir` : builds every program circuit and prints digests of the
//!        verifier data, common data, circuit digest, gate order, prover data; digests of fixed-input
//!        intermediates (Merkle caps, transforms, polynomial batches, hashing, batched field
//!        arithmetic, a STARK transcript); writes one proof (+ compressed proof) per circuit and the
//!        STARK proofs to `dir`.
//!  `verify --programs f --proofs dirA,dirB --out o` : rebuilds the circuits under THIS condition and
//!        verifies the proof files produced under the other conditions.
//! This binary is run by bin/lib/c19.py in separate processes under different RAYON_NUM_THREADS and
//! from differently built target directories.
use std::marker::PhantomData;

use plonky2::field::batch_util::{batch_add_inplace, batch_multiply_inplace};
use plonky2::field::extension::{Extendable, FieldExtension};
use plonky2::field::polynomial::{PolynomialCoeffs, PolynomialValues};
use plonky2::field::ops::Square;
use plonky2::field::types::Field;
use plonky2::fri::oracle::PolynomialBatch;
use plonky2::hash::keccak::KeccakHash;
use plonky2::hash::merkle_tree::MerkleTree;
use plonky2::hash::poseidon::PoseidonHash;
use plonky2::iop::challenger::Challenger;
use plonky2::plonk::config::{GenericConfig, GenericHashOut, Hasher};
use plonky2::plonk::proof::{CompressedProofWithPublicInputs, ProofWithPublicInputs};
use plonky2::util::timing::TimingTree;
use serde_json::{json, Value};
use starky::config::StarkConfig;
use starky::proof::StarkProofWithPublicInputs;
use vh::cfgs::CfgSpec;
use vh::prog::{Program, D};
use vh::util::*;

#[path = "../c17c19_kit.rs"]
#[allow(dead_code)]
mod kit;
use kit::*;

// ---- 128 bits of FNV-1a (two offset bases); no external crates ---------------------------------
fn fnv(bytes: &[u8]) -> String {
    let mut a: u64 = 0xcbf29ce484222325;
    let mut b: u64 = 0x84222325cbf29ce4;
    for &x in bytes {
        a = (a ^ x as u64).wrapping_mul(0x100000001b3);
        b = (b ^ (x as u64).wrapping_add(0x9e)).wrapping_mul(0x100000001b3).rotate_left(5);
    }
    format!("{a:016x}{b:016x}")
}
fn fbytes(xs: &[F]) -> Vec<u8> {
    xs.iter().flat_map(|x| canon(*x).to_le_bytes()).collect()
}
fn fnv_f(xs: &[F]) -> String {
    fnv(&fbytes(xs))
}

/// deterministic pseudo-random field elements (splitmix64), independent of any library code
struct Mix(u64);
impl Mix {
    fn next(&mut self) -> u64 {
        self.0 = self.0.wrapping_add(0x9e3779b97f4a7c15);
        let mut z = self.0;
        z = (z ^ (z >> 30)).wrapping_mul(0xbf58476d1ce4e5b9);
        z = (z ^ (z >> 27)).wrapping_mul(0x94d049bb133111eb);
        z ^ (z >> 31)
    }
    fn f(&mut self) -> F {
        fc(self.next())
    }
    fn vec(&mut self, n: usize) -> Vec<F> {
        (0..n).map(|_| self.f()).collect()
    }
}

// ---- circuits -----------------------------------------------------------------------------------
struct Built<C: GenericConfig<D, F = F>> {
    circ: Circ<C>,
    fallback_used: bool,
}

fn build_line<C: GenericConfig<D, F = F>>(line: &Value, idx: usize) -> Result<Built<C>, String> {
    let prog: Program = serde_json::from_value(line["prog"].clone()).map_err(|e| e.to_string())?;
    let cfg: CfgSpec = serde_json::from_value(line["cfg"].clone()).map_err(|e| e.to_string())?;
    let classes: Vec<String> = serde_json::from_value(line["inputs"].clone()).map_err(|e| e.to_string())?;
    let fallback: Option<CfgSpec> = line.get("fallback").and_then(|f| serde_json::from_value(f.clone()).ok());
    // the inputs come from a stream that depends on the seed and the program index only
    let mut r = rng(1900 + idx as u64);
    let mut b = build_prog::<C>(&prog, &cfg, &classes, &mut r, false);
    let mut fallback_used = false;
    if let (Err(why), Some(fb)) = (&b, &fallback) {
        if !why.starts_with("unsat") {
            let mut r = rng(1900 + idx as u64);
            b = build_prog::<C>(&prog, fb, &classes, &mut r, false);
            fallback_used = b.is_ok();
        }
    }
    b.map(|circ| Built { circ, fallback_used })
}

fn digest_circuit<C: GenericConfig<D, F = F> + 'static>(line: &Value, idx: usize, dir: &str) -> Value {
    let b = match build_line::<C>(line, idx) {
        Ok(b) => b,
        Err(why) => return json!({"status": format!("skipped: {}", why.chars().take(200).collect::<String>())}),
    };
    let data = &b.circ.data;
    let id = line["id"].as_str().unwrap_or("?");
    let gs = GateSer4;
    let ws = GenSer4;
    let gate_ids: Vec<String> = data.common.gates.iter().map(|g| g.0.id()).collect();
    let mut out = json!({
        "status": "ok",
        "fallback_used": b.fallback_used,
        "degree_bits": data.common.degree_bits(),
        "zk": data.common.config.zero_knowledge,
        "gate_order": fnv(gate_ids.join("|").as_bytes()),
        "verifier_only": fnv(&data.verifier_only.to_bytes().unwrap()),
        "circuit_digest": fnv(&data.verifier_only.circuit_digest.to_bytes()),
    });
    match guarded(|| data.common.to_bytes(&gs)) {
        Ok(Ok(bytes)) => out["common"] = json!(fnv(&bytes)),
        _ => out["common"] = json!(format!("debug:{}", fnv(format!("{:?}", data.common).as_bytes()))),
    }
    match guarded(|| data.prover_only.to_bytes(&ws, &data.common)) {
        Ok(Ok(bytes)) => out["prover_only"] = json!(fnv(&bytes)),
        _ => out["prover_only"] = json!("unencodable"),
    }
    // a proof of the first input, written for the other conditions to verify
    match guarded(|| data.prove(b.circ.pws[0].clone())) {
        Ok(Ok(p)) => {
            out["public_inputs"] = json!(fnv_f(&p.public_inputs));
            let self_ok = matches!(guarded(|| data.verify(p.clone())), Ok(Ok(())));
            out["self_verify"] = json!(self_ok);
            let bytes = p.to_bytes();
            out["proof_len"] = json!(bytes.len());
            let _ = std::fs::write(format!("{dir}/{id}.proof"), &bytes);
            if let Ok(Ok(cp)) = guarded(|| data.compress(p.clone())) {
                let _ = std::fs::write(format!("{dir}/{id}.cproof"), cp.to_bytes());
            }
        }
        Ok(Err(e)) => out["prove_error"] = json!(format!("{e:#}")),
        Err(p) => out["prove_error"] = json!(format!("panic: {p}")),
    }
    out
}

// ---- fixed-input intermediates -------------------------------------------------------------------
fn merkle_fixed<H: Hasher<F>>(tag: &str, out: &mut Vec<(String, String)>) {
    let mut m = Mix(0xC19 + tag.len() as u64);
    for (h, cap, w) in [(0usize, 0usize, 3usize), (3, 0, 1), (3, 3, 7), (6, 2, 5), (10, 4, 9), (12, 1, 4), (13, 0, 20)] {
        let leaves: Vec<Vec<F>> = (0..1usize << h).map(|_| m.vec(w)).collect();
        let t = MerkleTree::<F, H>::new(leaves, cap);
        let mut bytes: Vec<u8> = t.cap.0.iter().flat_map(|d| d.to_bytes()).collect();
        for i in [0usize, (1 << h) / 3, (1 << h) - 1] {
            for s in t.prove(i).siblings {
                bytes.extend(s.to_bytes());
            }
        }
        bytes.extend(t.digests.iter().flat_map(|d| d.to_bytes()));
        out.push((format!("merkle_caps/{tag}/h{h}c{cap}w{w}"), fnv(&bytes)));
    }
}

fn transforms_fixed(out: &mut Vec<(String, String)>) {
    let mut m = Mix(0xFF7);
    for k in 0..=13usize {
        let v = m.vec(1 << k);
        let coeffs = PolynomialCoeffs::new(v.clone());
        let values = PolynomialValues::new(v.clone());
        out.push((format!("fft/fft/k{k}"), fnv_f(&coeffs.clone().fft().values)));
        out.push((format!("fft/ifft/k{k}"), fnv_f(&values.clone().ifft().coeffs)));
        out.push((format!("fft/coset_fft/k{k}"), fnv_f(&coeffs.coset_fft(F::MULTIPLICATIVE_GROUP_GENERATOR).values)));
        out.push((format!("fft/coset_ifft/k{k}"), fnv_f(&values.clone().coset_ifft(F::MULTIPLICATIVE_GROUP_GENERATOR).coeffs)));
        if k <= 11 {
            out.push((format!("lde/values/k{k}"), fnv_f(&values.lde(3).values)));
            out.push((format!("lde/coeffs/k{k}"), fnv_f(&coeffs.lde(2).coeffs)));
        }
    }
}

fn poly_batch_fixed<C: GenericConfig<D, F = F>>(tag: &str, out: &mut Vec<(String, String)>) {
    let mut m = Mix(0xBA7C4);
    for (k, npoly, rate, cap) in [(3usize, 2usize, 3usize, 0usize), (6, 5, 3, 2), (9, 83, 3, 4), (10, 9, 4, 1)] {
        let vals: Vec<PolynomialValues<F>> = (0..npoly).map(|_| PolynomialValues::new(m.vec(1 << k))).collect();
        let pb = PolynomialBatch::<F, C, D>::from_values(vals, rate, false, cap, &mut TimingTree::default(), None);
        let mut bytes: Vec<u8> = pb.merkle_tree.cap.0.iter().flat_map(|d| d.to_bytes()).collect();
        for p in &pb.polynomials {
            bytes.extend(fbytes(&p.coeffs));
        }
        for i in [0usize, 1, (1 << (k + rate)) - 1] {
            bytes.extend(fbytes(pb.get_lde_values(i, 1)));
        }
        out.push((format!("poly_batch/{tag}/k{k}n{npoly}r{rate}c{cap}"), fnv(&bytes)));
    }
}

fn hashing_fixed(out: &mut Vec<(String, String)>) {
    let mut m = Mix(0x4A54);
    let mut pb = vec![];
    let mut kb = vec![];
    for n in 0..40usize {
        let v = m.vec(n);
        pb.extend(PoseidonHash::hash_no_pad(&v).to_bytes());
        pb.extend(PoseidonHash::hash_or_noop(&v).to_bytes());
        kb.extend(GenericHashOut::<F>::to_bytes(&<KeccakHash<25> as Hasher<F>>::hash_no_pad(&v)));
    }
    let a = PoseidonHash::hash_no_pad(&m.vec(4));
    let b = PoseidonHash::hash_no_pad(&m.vec(5));
    pb.extend(PoseidonHash::two_to_one(a, b).to_bytes());
    let mut ch = Challenger::<F, PoseidonHash>::new();
    ch.observe_elements(&m.vec(17));
    let c1 = ch.get_n_challenges(9);
    ch.observe_hash::<PoseidonHash>(a);
    let c2 = ch.get_n_challenges(3);
    pb.extend(fbytes(&c1));
    pb.extend(fbytes(&c2));
    out.push(("hashing/poseidon".into(), fnv(&pb)));
    out.push(("hashing/keccak".into(), fnv(&kb)));
}

fn field_batch_fixed(out: &mut Vec<(String, String)>) {
    let mut m = Mix(0xF1E1D);
    let mut bytes = vec![];
    for n in [1usize, 2, 3, 4, 5, 7, 8, 9, 15, 16, 17, 31, 33, 64, 100, 1000] {
        let a = m.vec(n);
        let b = m.vec(n);
        let mut x = a.clone();
        batch_multiply_inplace(&mut x, &b);
        bytes.extend(fbytes(&x));
        let mut y = a.clone();
        batch_add_inplace(&mut y, &b);
        bytes.extend(fbytes(&y));
        let nz: Vec<F> = a.iter().map(|v| if v.is_zero() { F::ONE } else { *v }).collect();
        bytes.extend(fbytes(&F::batch_multiplicative_inverse(&nz)));
    }
    // boundary operands through the same batched (vectorised where available) paths
    let bw: Vec<F> = boundary_words().into_iter().map(f).collect();
    for sh in 0..bw.len().min(12) {
        let mut x = bw.clone();
        let mut rot = bw.clone();
        rot.rotate_left(sh);
        batch_multiply_inplace(&mut x, &rot);
        bytes.extend(fbytes(&x));
        let mut y = bw.clone();
        batch_add_inplace(&mut y, &rot);
        bytes.extend(fbytes(&y));
    }
    type FE = <F as Extendable<D>>::Extension;
    let mut e = <FE as FieldExtension<D>>::from_basefield_array([m.f(), m.f()]);
    for _ in 0..50 {
        let g = <FE as FieldExtension<D>>::from_basefield_array([m.f(), m.f()]);
        e = e * g + g.square();
        bytes.extend(fbytes(&<FE as FieldExtension<D>>::to_basefield_array(&e)));
    }
    bytes.extend(fbytes(&[m.f().exp_u64(0xDEADBEEF), m.f().inverse()]));
    out.push(("field_batch/ops".into(), fnv(&bytes)));
}

fn stark_fixed(dir: &str, out: &mut Vec<(String, String)>) {
    for (rows, cap, q, pow) in [(64usize, 2usize, 10usize, 8u32), (256, 4, 20, 10), (8, 0, 3, 6)] {
        let mut config = StarkConfig::standard_fast_config();
        config.fri_config.cap_height = cap;
        config.fri_config.num_query_rounds = q;
        config.fri_config.proof_of_work_bits = pow;
        let st = Fib::<F, D> { num_rows: rows, _p: PhantomData };
        let (x0, x1) = (F::from_canonical_u64(3), F::ONE);
        let pis = [x0, x1, fib_n(rows - 1, x0, x1)];
        let trace = st.trace(x0, x1);
        let r = guarded(|| starky::prover::prove::<F, PC, _, D>(st, &config, trace, &pis, None, &mut TimingTree::default()));
        let proof = match r {
            Ok(Ok(p)) => p,
            other => {
                out.push((format!("stark_transcript/fib{rows}"), format!("prove failed: {:?}", other.err())));
                continue;
            }
        };
        let p = &proof.proof;
        // everything the prover sends before grinding, and every challenge drawn before it
        let mut bytes: Vec<u8> = p.trace_cap.0.iter().flat_map(|d| d.to_bytes()).collect();
        if let Some(c) = &p.quotient_polys_cap {
            bytes.extend(c.0.iter().flat_map(|d| d.to_bytes()));
        }
        bytes.extend(serde_json::to_vec(&p.openings).unwrap());
        for c in &p.opening_proof.commit_phase_merkle_caps {
            bytes.extend(c.0.iter().flat_map(|d| d.to_bytes()));
        }
        bytes.extend(serde_json::to_vec(&p.opening_proof.final_poly).unwrap());
        let ch = proof.get_challenges(&st, &mut Challenger::new(), None, None, false, &config, None);
        bytes.extend(fbytes(&ch.stark_alphas));
        bytes.extend(format!("{:?}{:?}{:?}", ch.stark_zeta, ch.fri_challenges.fri_alpha, ch.fri_challenges.fri_betas).into_bytes());
        out.push((format!("stark_transcript/fib{rows}"), fnv(&bytes)));
        out.push((format!("stark_pow_witness/fib{rows}"), format!("{}", canon(p.opening_proof.pow_witness))));
        let _ = std::fs::write(format!("{dir}/stark{rows}.json"), serde_json::to_vec(&proof).unwrap());
    }
}

fn digest(args: &[String]) -> anyhow::Result<()> {
    let inp = opt(args, "--programs").ok_or_else(|| anyhow::anyhow!("--programs"))?;
    let outp = opt(args, "--out").ok_or_else(|| anyhow::anyhow!("--out"))?;
    let dir = opt(args, "--proofs").ok_or_else(|| anyhow::anyhow!("--proofs"))?;
    std::fs::create_dir_all(dir)?;
    let mut w = NdJson::create(outp)?;
    if !args.iter().any(|a| a == "--no-fixed") {
        let mut fixed: Vec<(String, String)> = vec![];
        merkle_fixed::<PoseidonHash>("poseidon", &mut fixed);
        merkle_fixed::<KeccakHash<25>>("keccak", &mut fixed);
        transforms_fixed(&mut fixed);
        poly_batch_fixed::<PC>("poseidon", &mut fixed);
        poly_batch_fixed::<KC>("keccak", &mut fixed);
        hashing_fixed(&mut fixed);
        field_batch_fixed(&mut fixed);
        stark_fixed(dir, &mut fixed);
        for (k, v) in fixed {
            w.put(&json!({"kind": "fixed", "name": k, "digest": v}));
        }
    }
    for (idx, line) in read_lines(inp)?.iter().enumerate() {
        let t0 = std::time::Instant::now();
        let keccak = line["cfg"]["keccak"].as_bool().unwrap_or(false);
        let mut o = if keccak { digest_circuit::<KC>(line, idx, dir) } else { digest_circuit::<PC>(line, idx, dir) };
        o["kind"] = json!("circuit");
        o["id"] = line["id"].clone();
        o["ms"] = json!(t0.elapsed().as_millis() as u64);
        w.put(&o);
    }
    let n = w.finish();
    // which order does this build's hashbrown iterate in? (the alternate CONST_RANDOM_SEED flavour must differ)
    let probe: Vec<u64> = (0..24u64).collect::<hashbrown::HashSet<u64>>().into_iter().collect();
    emit(&json!({"kind": "digest", "lines": n, "hash_iteration_probe": probe, "threads": plonky2_maybe_rayon::rayon::current_num_threads(),
                 "avx2": cfg!(target_feature = "avx2"), "avx512": cfg!(target_feature = "avx512f"),
                 "debug_assertions": cfg!(debug_assertions)}));
    Ok(())
}

fn verify_circuit<C: GenericConfig<D, F = F> + 'static>(line: &Value, idx: usize, dirs: &[&str]) -> Value {
    let b = match build_line::<C>(line, idx) {
        Ok(b) => b,
        Err(why) => return json!({"status": format!("skipped: {}", why.chars().take(200).collect::<String>())}),
    };
    let data = &b.circ.data;
    let id = line["id"].as_str().unwrap_or("?");
    let mut res = vec![];
    for d in dirs {
        for (ext, compressed) in [("proof", false), ("cproof", true)] {
            let path = format!("{d}/{id}.{ext}");
            let Ok(bytes) = std::fs::read(&path) else {
                res.push(json!({"dir": d, "form": ext, "status": "missing"}));
                continue;
            };
            let verdict: Result<(), String> = if compressed {
                match guarded(|| CompressedProofWithPublicInputs::<F, C, D>::from_bytes(bytes.clone(), &data.common)) {
                    Ok(Ok(p)) => match guarded(|| data.verify_compressed(p)) {
                        Ok(Ok(())) => Ok(()),
                        Ok(Err(e)) => Err(format!("rejected: {e:#}")),
                        Err(p) => Err(format!("panic: {p}")),
                    },
                    Ok(Err(e)) => Err(format!("undecodable: {e:#}")),
                    Err(p) => Err(format!("decode panic: {p}")),
                }
            } else {
                match guarded(|| ProofWithPublicInputs::<F, C, D>::from_bytes(bytes.clone(), &data.common)) {
                    Ok(Ok(p)) => match guarded(|| data.verify(p)) {
                        Ok(Ok(())) => Ok(()),
                        Ok(Err(e)) => Err(format!("rejected: {e:#}")),
                        Err(p) => Err(format!("panic: {p}")),
                    },
                    Ok(Err(e)) => Err(format!("undecodable: {e:#}")),
                    Err(p) => Err(format!("decode panic: {p}")),
                }
            };
            res.push(json!({"dir": d, "form": ext, "status": if verdict.is_ok() { "accepted" } else { "rejected" }, "err": verdict.err()}));
        }
    }
    json!({"status": "ok", "results": res})
}

fn verify(args: &[String]) -> anyhow::Result<()> {
    let inp = opt(args, "--programs").ok_or_else(|| anyhow::anyhow!("--programs"))?;
    let outp = opt(args, "--out").ok_or_else(|| anyhow::anyhow!("--out"))?;
    let dirs: Vec<&str> = opt(args, "--proofs").ok_or_else(|| anyhow::anyhow!("--proofs"))?.split(',').collect();
    let mut w = NdJson::create(outp)?;
    // STARK proofs of the other conditions
    for d in &dirs {
        for (rows, cap, q, pow) in [(64usize, 2usize, 10usize, 8u32), (256, 4, 20, 10), (8, 0, 3, 6)] {
            let mut config = StarkConfig::standard_fast_config();
            config.fri_config.cap_height = cap;
            config.fri_config.num_query_rounds = q;
            config.fri_config.proof_of_work_bits = pow;
            let st = Fib::<F, D> { num_rows: rows, _p: PhantomData };
            let status = match std::fs::read(format!("{d}/stark{rows}.json")) {
                Err(_) => json!({"status": "missing"}),
                Ok(bytes) => match serde_json::from_slice::<StarkProofWithPublicInputs<F, PC, D>>(&bytes) {
                    Err(e) => json!({"status": "rejected", "err": format!("undecodable: {e}")}),
                    Ok(p) => match guarded(|| starky::verifier::verify_stark_proof(st, p, &config, None)) {
                        Ok(Ok(())) => json!({"status": "accepted"}),
                        Ok(Err(e)) => json!({"status": "rejected", "err": format!("{e:#}")}),
                        Err(p) => json!({"status": "rejected", "err": format!("panic: {p}")}),
                    },
                },
            };
            let mut s = status;
            s["kind"] = json!("stark");
            s["id"] = json!(format!("stark{rows}"));
            s["dir"] = json!(d);
            w.put(&s);
        }
    }
    for (idx, line) in read_lines(inp)?.iter().enumerate() {
        let keccak = line["cfg"]["keccak"].as_bool().unwrap_or(false);
        let mut o = if keccak { verify_circuit::<KC>(line, idx, &dirs) } else { verify_circuit::<PC>(line, idx, &dirs) };
        o["kind"] = json!("circuit");
        o["id"] = line["id"].clone();
        w.put(&o);
    }
    let n = w.finish();
    emit(&json!({"kind": "verify", "lines": n, "threads": plonky2_maybe_rayon::rayon::current_num_threads()}));
    Ok(())
}

fn main() -> std::process::ExitCode {
    run_main(|cmd, rest| match cmd {
        "digest" => digest(rest),
        "verify" => verify(rest),
        other => Err(anyhow::anyhow!("unknown command {other}")),
    })
}
