//! C10 — STARK lookups (logUp) and cross-table lookups.
//!
//! Commands (JSON result lines on stdout):
//!   lookup     single-table `Lookup` declarations instantiated in the STARK family: honest and corrupted
//!              traces proved with the real prover and verified with `verify_stark_proof`; the expected
//!              verdict is the multiset predicate of spec/StarkLookup.tla evaluated on the concrete trace
//!   ctl        multi-table systems: a driver composed only of public functions (see `ctl_prove`,
//!              `ctl_verify`); expected verdict = the multiset predicate of spec/Ctl.tla
//!   eval17     the reference predicates on the small-field cases enumerated by TLC
use std::io::BufRead;

use hashbrown::HashMap;
use plonky2::field::types::{Field, PrimeField64};
use plonky2::fri::oracle::PolynomialBatch;
use plonky2::iop::challenger::Challenger;
use plonky2::util::timing::TimingTree;
use rand::seq::SliceRandom;
use rand::Rng;
use serde_json::{json, Value};
use starky::config::StarkConfig;
use starky::cross_table_lookup::{get_ctl_data, verify_cross_table_lookups, CrossTableLookup, CtlCheckVars, TableWithColumns};
use starky::lookup::{get_grand_product_challenge_set, GrandProductChallengeSet};
use starky::proof::StarkProofWithPublicInputs;
use starky::prover::{prove, prove_with_commitment};
use starky::stark::Stark;
use starky::verifier::{verify_stark_proof, verify_stark_proof_with_challenges};
use vh::util::*;

#[path = "../c09c10_kit.rs"]
#[macro_use]
mod kit;
use kit::*;

fn read_ndjson(path: &str) -> anyhow::Result<Vec<Value>> {
    let f = std::fs::File::open(path)?;
    let mut out = vec![];
    for line in std::io::BufReader::new(f).lines() {
        let line = line?;
        if !line.trim().is_empty() {
            out.push(serde_json::from_str(&line)?);
        }
    }
    Ok(out)
}

macro_rules! lk_dispatch {
    ($cols:expr, $f:ident, $($args:expr),*) => {
        match $cols {
            3 => $f::<3>($($args),*),
            5 => $f::<5>($($args),*),
            8 => $f::<8>($($args),*),
            c => panic!("no lookup family instance with {c} columns"),
        }
    };
}

struct Out {
    evaluated: u64,
    nontrivial: std::collections::BTreeSet<String>,
    accepted: u64,
    rejected: u64,
    panics: u64,
    weak_accepts: u64,
    violations: Vec<Value>,
    conflicts: Vec<Value>,
    samples: Vec<Value>,
    classes: std::collections::BTreeMap<String, u64>,
    notes: Vec<Value>,
    cells: std::collections::BTreeMap<String, u64>,
}
impl Out {
    fn new() -> Self {
        Out { evaluated: 0, nontrivial: Default::default(), accepted: 0, rejected: 0, panics: 0, weak_accepts: 0, violations: vec![], conflicts: vec![],
            samples: vec![], classes: Default::default(), notes: vec![], cells: Default::default() }
    }
    fn finish(self, kind: &str, extra: Value) {
        emit(&json!({"kind": kind, "evaluated": self.evaluated, "nontrivial": self.nontrivial.len(), "accepted": self.accepted, "rejected": self.rejected,
            "panics": self.panics, "weak_accepts": self.weak_accepts, "violations": self.violations, "conflicts": self.conflicts,
            "samples": self.samples, "classes": self.classes, "notes": self.notes, "cells": self.cells, "extra": extra}));
    }
    fn record(&mut self, prefix: &str, shape: &str, label: &str, case: &Value, expected_accept: bool, obs: Value, bits: usize, why: Value) {
        let accepted = obs["accepted"].as_bool().unwrap();
        self.evaluated += 1;
        self.nontrivial.insert(format!("{shape}/{label}/{}", case["config"]));
        *self.classes.entry(format!("{label}:{}", if accepted { "acc" } else { "rej" })).or_insert(0) += 1;
        if accepted {
            self.accepted += 1;
        } else {
            self.rejected += 1;
        }
        if obs.to_string().contains("panic") {
            self.panics += 1;
        }
        let rec = json!({"id": case["id"], "case": case, "shape": shape, "label": label, "expected_accept": expected_accept, "why": why,
            "observed": obs, "binding_bits": bits});
        if self.samples.len() < 3 {
            self.samples.push(rec.clone());
        }
        if expected_accept && !accepted {
            let mut v = rec;
            v["key"] = json!(format!("{prefix}/complete/{shape}/{label}"));
            v["detail"] = json!("the multiset condition holds but the system was not proved/accepted");
            self.violations.push(v);
        } else if !expected_accept && accepted {
            if bits >= 50 {
                let mut v = rec;
                v["key"] = json!(format!("{prefix}/sound/{shape}/{label}"));
                v["detail"] = json!("the multiset condition fails but the system was accepted");
                self.violations.push(v);
            } else {
                self.weak_accepts += 1;
            }
        }
    }
}

fn ce(lin: &[(usize, i64)], next: &[(usize, i64)], k: i64) -> ColExpr {
    ColExpr { lin: lin.to_vec(), next: next.to_vec(), k }
}
fn single(c: usize) -> ColExpr {
    ce(&[(c, 1)], &[], 0)
}

// ------------------------------------------------------------------------------------------
// single-table lookups
// ------------------------------------------------------------------------------------------
/// layout: source columns 0..K-1 (K = 1 | 2 | 4 for 3 | 5 | 8 columns), table column K, frequency
/// column K+1, then selector columns (none | 1 | 2).
fn layout(cols: usize) -> (usize, usize, usize, Vec<usize>) {
    match cols {
        3 => (1, 1, 2, vec![]),
        5 => (2, 2, 3, vec![4]),
        8 => (4, 4, 5, vec![6, 7]),
        _ => panic!("layout"),
    }
}
fn lookup_sys(cols: usize, k: usize, deg: usize, variant: &str) -> Sys {
    let (srcs, t, m, sels) = layout(cols);
    assert!(k <= srcs && k >= 1);
    let mut looking: Vec<ColExpr> = (0..k).map(single).collect();
    let mut filters: Vec<Option<ColExpr>> = vec![None; k];
    match variant {
        "plain" => {}
        "filter" => {
            for i in 0..k {
                if !sels.is_empty() && (i > 0 || k == 1) {
                    filters[i] = Some(single(sels[i % sels.len()]));
                }
            }
            if k >= 1 && !sels.is_empty() {
                filters[k - 1] = Some(single(sels[(k - 1) % sels.len()]));
            }
        }
        "lincomb" => {
            assert!(k >= 2);
            looking[0] = ce(&[(0, 1), (1, 2)], &[], 1);
        }
        "nextrow" => looking[0] = ce(&[], &[(0, 1)], 0),
        "mixed" => {
            assert!(k >= 2);
            looking[0] = ce(&[(1, 3)], &[(0, 1)], 5);
            if !sels.is_empty() {
                filters[1] = Some(single(sels[0]));
            }
        }
        "table_next" | "freq_next" => {}
        v => panic!("variant {v}"),
    }
    // probes: the table / frequency column declared on the NEXT row (permitted by the `Column` API)
    let table = if variant == "table_next" { ce(&[], &[(t, 1)], 0) } else { single(t) };
    let freq = if variant == "freq_next" { ce(&[], &[(m, 1)], 0) } else { single(m) };
    Sys { cols, npi: 0, deg, cons: vec![], lookups: vec![LookupDecl { looking, table, freq, filters }], ctl: false }
}

/// a trace satisfying the lookup of `sys` (checked by the caller with the reference predicate)
fn lookup_trace(sys: &Sys, n: usize, r: &mut impl Rng) -> Vec<Vec<u64>> {
    let cols = sys.cols;
    let (_, t, m, sels) = layout(cols);
    let l = &sys.lookups[0];
    let mut tr = vec![vec![0u64; cols]; n];
    let distinct = (n / 2).max(1);
    let base = 1000 + r.gen::<u64>() % 1000;
    for row in 0..n {
        for c in 0..cols {
            tr[row][c] = r.gen::<u64>() % P;
        }
        tr[row][t] = base + 7 * (row % distinct) as u64;
        tr[row][m] = 0;
        for &s in &sels {
            tr[row][s] = r.gen::<u64>() % 2;
        }
    }
    // choose targets for the looking expressions and solve for the source cells; expression i of the
    // templates depends on source i (current or next row) and on sources with a larger index
    let k = l.looking.len();
    let mut target = vec![vec![0u64; k]; n];
    for row in 0..n {
        for i in 0..k {
            target[row][i] = tr[r.gen::<usize>() % n][t];
        }
    }
    for i in (0..k).rev() {
        let e = &l.looking[i];
        for row in 0..n {
            // value of the expression without the term of source i
            let (own_next, own_coef) = if let Some(&(_, c)) = e.next.iter().find(|(col, _)| *col == i) {
                (true, c)
            } else {
                (false, e.lin.iter().find(|(col, _)| *col == i).map(|x| x.1).unwrap_or(1))
            };
            let mut rest = md(e.k, P);
            for &(col, c) in &e.lin {
                if col != i {
                    rest = addm(rest, mulm(md(c, P), tr[row][col], P), P);
                }
            }
            for &(col, c) in &e.next {
                if col != i {
                    rest = addm(rest, mulm(md(c, P), tr[(row + 1) % n][col], P), P);
                }
            }
            let want = addm(target[row][i], P - rest, P);
            let inv = F::from_canonical_u64(md(own_coef, P)).inverse().to_canonical_u64();
            let val = mulm(want, inv, P);
            if own_next {
                tr[(row + 1) % n][i] = val;
            } else {
                tr[row][i] = val;
            }
        }
    }
    // frequencies: all weight of a value on its first table row
    for row in 0..n {
        for (i, f) in l.filters.iter().enumerate() {
            let w = filter_ref(f, &tr, row, P);
            let v = colexpr_ref(&l.looking[i], &tr, row, P);
            if w != 0 {
                if let Some(first) = (0..n).find(|&q| colexpr_ref(&l.table, &tr, q, P) == v) {
                    // the row whose declared frequency expression is read at `first`
                    let fr_row = if l.freq.next.is_empty() { first } else { (first + 1) % n };
                    tr[fr_row][m] = addm(tr[fr_row][m], w, P);
                }
            }
        }
    }
    tr
}

fn prove_and_verify<const N: usize>(sys: &Sys, tr: &[Vec<u64>], config: &StarkConfig) -> Value {
    let stark = Fam::<N, 0>::new(sys);
    let proved = guarded(|| prove::<F, C, _, D>(stark.clone(), config, to_polys(tr), &[], None, &mut TimingTree::default()));
    let proof: StarkProofWithPublicInputs<F, C, D> = match proved {
        Ok(Ok(p)) => p,
        Ok(Err(e)) => return json!({"proved": false, "accepted": false, "prove_error": format!("{e:#}")}),
        Err(p) => return json!({"proved": false, "accepted": false, "prove_panic": p}),
    };
    match guarded(|| verify_stark_proof(stark.clone(), proof, config, None)) {
        Ok(Ok(())) => json!({"proved": true, "accepted": true}),
        Ok(Err(e)) => json!({"proved": true, "accepted": false, "verify_error": format!("{e:#}").chars().take(160).collect::<String>()}),
        Err(p) => json!({"proved": true, "accepted": false, "verify_panic": p}),
    }
}

fn hash_id(id: &str) -> u64 {
    let mut h = 0u64;
    for b in id.bytes() {
        h = h.wrapping_mul(1099511628211).wrapping_add(b as u64);
    }
    h | 1
}

// ---- several lookups in one STARK (8 columns) ------------------------------------------------
/// L = 1: A = looking c0,c1,c2 -> table c3, frequencies c4
/// L = 2: A as above, B = looking c5 -> table c6, frequencies c7          (helper counts differ: 3|4 vs 2)
/// L = 3: A = looking c0,c1 -> table c2, freq c3; B = looking c4 -> table c2 (shared), freq c5;
///        C = looking c6 -> table c2, freq c7
fn multi_sys(l: usize, deg: usize) -> Sys {
    let lk = |looking: &[usize], t: usize, m: usize| LookupDecl {
        looking: looking.iter().map(|&c| single(c)).collect(),
        table: single(t),
        freq: single(m),
        filters: vec![None; looking.len()],
    };
    let lookups = match l {
        1 => vec![lk(&[0, 1, 2], 3, 4)],
        2 => vec![lk(&[0, 1, 2], 3, 4), lk(&[5], 6, 7)],
        3 => vec![lk(&[0, 1], 2, 3), lk(&[4], 2, 5), lk(&[6], 2, 7)],
        _ => panic!("multi_sys: {l} lookups"),
    };
    Sys { cols: 8, npi: 0, deg, cons: vec![], lookups, ctl: false }
}
fn multi_trace(sys: &Sys, n: usize, r: &mut impl Rng) -> Vec<Vec<u64>> {
    let mut tr: Vec<Vec<u64>> = (0..n).map(|_| (0..sys.cols).map(|_| r.gen::<u64>() % P).collect()).collect();
    let distinct = (n / 2).max(1);
    let mut tcols: Vec<usize> = sys.lookups.iter().map(|l| l.table.lin[0].0).collect();
    tcols.sort();
    tcols.dedup();
    for (j, &t) in tcols.iter().enumerate() {
        let base = 1000 * (j as u64 + 1) + r.gen::<u64>() % 500;
        for row in 0..n {
            tr[row][t] = base + 7 * (row % distinct) as u64;
        }
    }
    for l in &sys.lookups {
        let (t, m) = (l.table.lin[0].0, l.freq.lin[0].0);
        for row in 0..n {
            tr[row][m] = 0;
        }
        for c in &l.looking {
            for row in 0..n {
                tr[row][c.lin[0].0] = tr[r.gen::<usize>() % n][t];
            }
        }
        for c in &l.looking {
            for row in 0..n {
                let v = tr[row][c.lin[0].0];
                let first = (0..n).find(|&q| tr[q][t] == v).unwrap();
                tr[first][m] = addm(tr[first][m], 1, P);
            }
        }
    }
    tr
}
/// case: {id, cols: 8, multi: L, deg, n_bits, config (nc = number of challenges), action: {kind: none|looking_out|freq, lookup: k}}
fn multi_case(case: &Value, out: &mut Out, flip: bool) {
    let l = case["multi"].as_u64().unwrap() as usize;
    let deg = case["deg"].as_u64().unwrap() as usize;
    let sys = multi_sys(l, deg);
    let n = 1usize << case["n_bits"].as_u64().unwrap();
    let config = config_from(&case["config"]);
    let id = case["id"].as_str().unwrap_or("?");
    let mut r = rng(hash_id(id));
    let mut tr = multi_trace(&sys, n, &mut r);
    if !lookups_ok(&sys, &tr, P) {
        out.conflicts.push(json!({"id": id, "what": "the generated honest multi-lookup trace does not satisfy the multiset predicate"}));
        return;
    }
    let act = case["action"]["kind"].as_str().unwrap_or("none");
    let k = case["action"]["lookup"].as_u64().unwrap_or(0) as usize;
    let row = r.gen::<usize>() % n;
    match act {
        "none" => {}
        "looking_out" => {
            let cols = &sys.lookups[k].looking;
            let c = cols[r.gen::<usize>() % cols.len()].lin[0].0;
            tr[row][c] = addm(tr[row][c], 1 + r.gen::<u64>() % (P - 1), P);
        }
        "freq" => {
            let m = sys.lookups[k].freq.lin[0].0;
            tr[row][m] = addm(tr[row][m], 1, P);
        }
        x => panic!("unknown multi-lookup action {x}"),
    }
    let bad: Vec<usize> = sys.lookups.iter().map(|lk| lookup_bad_values(lk, &tr, P).len()).collect();
    let mut expected = bad.iter().all(|&b| b == 0);
    if act != "none" && (expected || bad.iter().enumerate().any(|(i, &b)| (b != 0) != (i == k))) {
        out.conflicts.push(json!({"id": id, "what": "the corruption of lookup k did not break exactly lookup k", "bad": bad, "k": k}));
        return;
    }
    if flip {
        expected = !expected;
    }
    let obs = prove_and_verify::<8>(&sys, &tr, &config);
    let label = if act == "none" { "none".to_string() } else { format!("{act}@{k}") };
    let cell = format!("L{l}C{}d{deg}", config.num_challenges);
    *out.cells.entry(format!("{cell}/{label}:{}", if obs["accepted"] == json!(true) { "acc" } else { "rej" })).or_insert(0) += 1;
    let shape = format!("M{l}c{}d{deg}n{}", config.num_challenges, case["n_bits"]);
    out.record("C10/lookup", &shape, &label, case, expected, obs, binding_bits(&config), json!({"bad_values_per_lookup": bad}));
}

/// case: {id, cols, k, deg, variant, n_bits, config, action: {kind, ...}}
fn lookup_case<const N: usize>(case: &Value, out: &mut Out, flip: bool) {
    let k = case["k"].as_u64().unwrap() as usize;
    let deg = case["deg"].as_u64().unwrap() as usize;
    let variant = case["variant"].as_str().unwrap();
    let sys = lookup_sys(N, k, deg, variant);
    let n = 1usize << case["n_bits"].as_u64().unwrap();
    let config = config_from(&case["config"]);
    let id = case["id"].as_str().unwrap_or("?");
    let mut r = rng(hash_id(id));
    let mut tr = lookup_trace(&sys, n, &mut r);
    if !lookups_ok(&sys, &tr, P) {
        out.conflicts.push(json!({"id": id, "what": "the generated honest trace does not satisfy the multiset predicate"}));
        return;
    }
    let (_, t, m, sels) = layout(N);
    let l = &sys.lookups[0];
    let act = case["action"]["kind"].as_str().unwrap_or("none");
    let row = r.gen::<usize>() % n;
    match act {
        "none" => {}
        // a looking source cell gets a random delta: the looking value leaves the table (if counted)
        "looking_out" => {
            let i = r.gen::<usize>() % k;
            tr[row][i] = addm(tr[row][i], 1 + r.gen::<u64>() % (P - 1), P);
        }
        // a counted looking value is moved to another table value: frequencies no longer match
        "looking_swap" => {
            let i = k - 1; // the last looking expression of every template is a plain column
            let cur = tr[row][i];
            if let Some(other) = (0..n).map(|q| tr[q][t]).find(|&v| v != cur) {
                tr[row][i] = other;
            } else {
                tr[row][i] = addm(cur, 1, P);
            }
        }
        "freq" => tr[row][m] = addm(tr[row][m], 1 + r.gen::<u64>() % 5, P),
        "table_used" => {
            let q = (0..n).find(|&q| tr[q][m] != 0).unwrap_or(0);
            tr[q][t] = addm(tr[q][t], 1 + r.gen::<u64>() % (P - 1), P);
        }
        "table_unused" => {
            if let Some(q) = (0..n).find(|&q| tr[q][m] == 0) {
                tr[q][t] = addm(tr[q][t], 1 + r.gen::<u64>() % (P - 1), P);
            }
        }
        "filter_flip" => {
            if sels.is_empty() {
                return;
            }
            let s = sels[r.gen::<usize>() % sels.len()];
            tr[row][s] = 1 - tr[row][s];
        }
        // move frequency between two rows holding the same table value: still the same multiset
        "freq_move" => {
            if let Some(q) = (0..n).find(|&q| tr[q][m] != 0) {
                if let Some(q2) = (0..n).find(|&x| x != q && tr[x][t] == tr[q][t]) {
                    tr[q][m] = addm(tr[q][m], P - 1, P);
                    tr[q2][m] = addm(tr[q2][m], 1, P);
                }
            }
        }
        x => panic!("unknown action {x}"),
    }
    let bad = lookup_bad_values(l, &tr, P);
    let mut expected = bad.is_empty();
    if flip {
        expected = !expected;
    }
    let obs = prove_and_verify::<N>(&sys, &tr, &config);
    let shape = format!("L{N}k{k}d{deg}{variant}n{}", case["n_bits"]);
    out.record("C10/lookup", &shape, act, case, expected, obs, binding_bits(&config), json!({"bad_values": bad.len(), "first": bad.first()}));
}

fn cmd_lookup(args: &[String]) -> anyhow::Result<()> {
    let cases = read_ndjson(opt(args, "--scen").ok_or_else(|| anyhow::anyhow!("--scen"))?)?;
    let flip = opt(args, "--flip-expect").and_then(|s| s.parse::<usize>().ok());
    let mut out = Out::new();
    for (i, c) in cases.iter().enumerate() {
        if c.get("multi").is_some() {
            multi_case(c, &mut out, flip == Some(i));
            continue;
        }
        let cols = c["cols"].as_u64().unwrap() as usize;
        lk_dispatch!(cols, lookup_case, c, &mut out, flip == Some(i));
    }
    out.finish("lookup", json!({"cases": cases.len()}));
    Ok(())
}

// ------------------------------------------------------------------------------------------
// multi-table driver (public functions only)
// ------------------------------------------------------------------------------------------
type Tbl = Fam<3, 0>;
type Proof = StarkProofWithPublicInputs<F, C, D>;

fn table_sys(deg: usize, binary_filter: bool) -> Sys {
    // columns [a, b, f]; optionally f (f - 1) = 0 on every row
    let mut cons = vec![];
    if binary_filter {
        cons.push(Con { kind: Kind::All, terms: vec![Term { c: 1, vars: vec![V::L(2), V::L(2)] }, Term { c: -1, vars: vec![V::L(2)] }] });
    }
    Sys { cols: 3, npi: 0, deg, cons, lookups: vec![], ctl: true }
}

fn to_twc(s: &CtlSide) -> TableWithColumns<F> {
    TableWithColumns::new(s.table, s.cols.iter().map(to_column).collect(), to_filter(&s.filter))
}
fn to_ctls(decls: &[CtlDecl]) -> Vec<CrossTableLookup<F>> {
    decls.iter().map(|d| CrossTableLookup::new(d.looking.iter().map(to_twc).collect(), to_twc(&d.looked))).collect()
}

/// Prover side.  All trace caps are observed first, then the CTL challenges are drawn
/// (`get_ctl_data`), then every table is proved with `prove_with_commitment` from a copy of the common
/// challenger state; `prove_with_commitment` does not absorb the configuration whereas the verifier's
/// `get_challenges` does, so the driver absorbs it per table.
fn ctl_prove<const NT: usize>(starks: &[Tbl], traces: &[Vec<Vec<u64>>], ctls: &[CrossTableLookup<F>], config: &StarkConfig, deg: usize) -> anyhow::Result<Vec<Proof>> {
    let mut timing = TimingTree::default();
    let polys: [Vec<_>; NT] = core::array::from_fn(|i| to_polys(&traces[i]));
    let commits: Vec<PolynomialBatch<F, C, D>> = polys
        .iter()
        .map(|p| PolynomialBatch::<F, C, D>::from_values(p.clone(), config.fri_config.rate_bits, false, config.fri_config.cap_height, &mut timing, None))
        .collect();
    let mut ch = Challenger::<F, H>::new();
    for c in &commits {
        ch.observe_cap(&c.merkle_tree.cap);
    }
    let (ctl_challenges, ctl_data) = get_ctl_data::<F, C, D, NT>(config, &polys, ctls, &mut ch, deg);
    let mut proofs = vec![];
    for i in 0..NT {
        let mut chi = ch.clone();
        config.observe(&mut chi);
        let p = prove_with_commitment(&starks[i], config, &polys[i], &commits[i], Some(&ctl_data[i]), Some(&ctl_challenges), &mut chi, &[], None, None, &mut timing)?;
        proofs.push(p);
    }
    Ok(proofs)
}

/// Verifier side: returns (per-table verdicts, cross-table verdict).
fn ctl_verify<const NT: usize>(starks: &[Tbl], proofs: &[Proof], ctls: &[CrossTableLookup<F>], extra: &HashMap<usize, Vec<Vec<u64>>>, config: &StarkConfig, deg: usize)
    -> (Vec<Result<(), String>>, Result<(), String>) {
    let mut ch = Challenger::<F, H>::new();
    for p in proofs {
        ch.observe_cap(&p.proof.trace_cap);
    }
    let ctl_challenges: GrandProductChallengeSet<F> = get_grand_product_challenge_set(&mut ch, config.num_challenges);
    let mut verdicts = vec![];
    for i in 0..NT {
        let (n_helpers, _n_zs, helpers_by_ctl) = CrossTableLookup::num_ctl_helpers_zs_all(ctls, i, config.num_challenges, deg);
        let v = (|| -> anyhow::Result<()> {
            let ctl_vars = CtlCheckVars::from_proof::<C>(i, &proofs[i].proof, ctls, &ctl_challenges, starks[i].num_lookup_helper_columns(config), n_helpers, &helpers_by_ctl);
            let mut chi = ch.clone();
            let challenges = proofs[i].proof.get_challenges(&starks[i], &[], &mut chi, Some(&ctl_challenges), Some(&ctl_vars), true, config, None);
            verify_stark_proof_with_challenges(&starks[i], &proofs[i].proof, &challenges, Some(&ctl_vars), &[], config)
        })();
        verdicts.push(v.map_err(|e| format!("{e:#}").chars().take(140).collect::<String>()));
    }
    // sums of the extra looking values: sum_j 1/combine(extra_j) per challenge
    let mut extra_sums: HashMap<usize, Vec<F>> = HashMap::new();
    for (idx, rows) in extra {
        let sums = ctl_challenges
            .challenges
            .iter()
            .map(|c| {
                rows.iter()
                    .map(|row| {
                        let vals: Vec<F> = row.iter().map(|&x| F::from_canonical_u64(x)).collect();
                        c.combine::<F, F, _, 1>(vals.iter()).inverse()
                    })
                    .sum::<F>()
            })
            .collect();
        extra_sums.insert(*idx, sums);
    }
    let firsts: Result<Vec<Vec<F>>, String> = proofs
        .iter()
        .map(|p| p.proof.openings.ctl_zs_first.clone().ok_or_else(|| "ctl_zs_first missing".to_string()))
        .collect();
    let cross = match firsts {
        Err(e) => Err(e),
        Ok(v) => {
            let arr: [Vec<F>; NT] = core::array::from_fn(|i| v[i].clone());
            verify_cross_table_lookups::<F, D, NT>(ctls, arr, &extra_sums, config).map_err(|e| format!("{e:#}"))
        }
    };
    (verdicts, cross)
}

/// honest traces of a multi-table system: every looking side gets a few active rows (filter 1) with
/// tuples from a small pool, the looked side lists exactly the multiset of active looking tuples plus
/// the extra tuples.  Sides are simple column pairs here; linear-combination sides are produced by
/// the catalogue as column permutations / sums that the generator can invert (see `side_value_cells`).
fn ctl_traces(decls: &[CtlDecl], n_bits: &[usize], r: &mut impl Rng) -> Vec<Vec<Vec<u64>>> {
    let mut traces: Vec<Vec<Vec<u64>>> = n_bits
        .iter()
        .map(|&b| (0..1usize << b).map(|_| vec![r.gen::<u64>() % P, r.gen::<u64>() % P, 0u64]).collect())
        .collect();
    // looking rows: per table, rows 0..active get filter 1 and tuple values from a pool (duplicates wanted)
    let pool: Vec<(u64, u64)> = (0..5).map(|_| (r.gen::<u64>() % 1000, r.gen::<u64>() % 1000)).collect();
    let mut looking_tables: Vec<usize> = decls.iter().flat_map(|d| d.looking.iter().map(|s| s.table)).collect();
    looking_tables.sort();
    looking_tables.dedup();
    for &t in &looking_tables {
        let n = traces[t].len();
        let active = 1 + r.gen::<usize>() % n.min(6);
        let mut rows: Vec<usize> = (0..n).collect();
        rows.shuffle(r);
        for &row in rows.iter().take(active) {
            let (a, b) = pool[r.gen::<usize>() % pool.len()];
            traces[t][row] = vec![a, b, 1];
        }
    }
    // looked sides: fill from the top with the tuples the reference evaluator reports as unmatched
    for d in decls {
        let t = d.looked.table;
        let mut need: Vec<Vec<u64>> = vec![];
        // the multiset still unmatched on the looked side (weights are small counts here)
        let mut w: std::collections::BTreeMap<Vec<u64>, i64> = Default::default();
        for s in &d.looking {
            for row in 0..traces[s.table].len() {
                let f = filter_ref(&s.filter, &traces[s.table], row, P);
                if f != 0 {
                    let tup: Vec<u64> = s.cols.iter().map(|c| colexpr_ref(c, &traces[s.table], row, P)).collect();
                    *w.entry(tup).or_insert(0) += f as i64;
                }
            }
        }
        for x in &d.extra {
            *w.entry(x.clone()).or_insert(0) += 1;
        }
        for row in 0..traces[t].len() {
            let f = filter_ref(&d.looked.filter, &traces[t], row, P);
            if f != 0 {
                let tup: Vec<u64> = d.looked.cols.iter().map(|c| colexpr_ref(c, &traces[t], row, P)).collect();
                *w.entry(tup).or_insert(0) -= f as i64;
            }
        }
        for (tup, cnt) in w {
            for _ in 0..cnt.max(0) {
                need.push(tup.clone());
            }
        }
        need.shuffle(r);
        let free: Vec<usize> = (0..traces[t].len()).filter(|&row| traces[t][row][2] == 0).collect();
        for (tup, &row) in need.iter().zip(free.iter()) {
            // looked sides of the catalogue are the plain pair (a, b) or the swapped pair (b, a)
            let swapped = d.looked.cols[0].lin.first().map(|x| x.0) == Some(1);
            traces[t][row] = if swapped { vec![tup[1], tup[0], 1] } else { vec![tup[0], tup[1], 1] };
        }
    }
    traces
}

/// a table that looks into itself: tuples (a), looking rows have f = 1 (column 2), looked rows have b = 1 (column 1)
fn self_ctl_traces(n_bits: &[usize], r: &mut impl Rng) -> Vec<Vec<Vec<u64>>> {
    n_bits
        .iter()
        .map(|&b| {
            let n = 1usize << b;
            let k = (n / 2).min(3);
            let vals: Vec<u64> = (0..k).map(|_| r.gen::<u64>() % 1000).collect();
            (0..n)
                .map(|row| {
                    if row < k {
                        vec![vals[row], 0, 1]
                    } else if row < 2 * k {
                        vec![vals[row - k], 1, 0]
                    } else {
                        vec![r.gen::<u64>() % P, 0, 0]
                    }
                })
                .collect()
        })
        .collect()
}

/// case: {id, n_bits: [..], deg, binary, config, ctls: [..], action}
fn ctl_case<const NT: usize>(case: &Value, out: &mut Out, flip: bool) {
    let decls: Vec<CtlDecl> = case["ctls"].as_array().unwrap().iter().map(CtlDecl::from_json).collect();
    let n_bits: Vec<usize> = case["n_bits"].as_array().unwrap().iter().map(|x| x.as_u64().unwrap() as usize).collect();
    assert_eq!(n_bits.len(), NT);
    let deg = case["deg"].as_u64().unwrap_or(3) as usize;
    let binary = case["binary"].as_bool().unwrap_or(false);
    let config = config_from(&case["config"]);
    let id = case["id"].as_str().unwrap_or("?");
    let mut r = rng(hash_id(id));
    let mut traces = if case["shape"].as_str() == Some("S1") { self_ctl_traces(&n_bits, &mut r) } else { ctl_traces(&decls, &n_bits, &mut r) };
    let honest_bad: usize = decls.iter().map(|d| ctl_bad_tuples(d, &traces, P).len()).sum();
    if honest_bad != 0 && case["allow_unsat"].as_bool() != Some(true) {
        out.conflicts.push(json!({"id": id, "what": "the generated honest traces do not satisfy the multiset predicate", "bad": honest_bad}));
        return;
    }
    let act = case["action"]["kind"].as_str().unwrap_or("none");
    let d0 = &decls[r.gen::<usize>() % decls.len()];
    let look_t = d0.looking[r.gen::<usize>() % d0.looking.len()].table;
    let looked_t = d0.looked.table;
    let pick = |tr: &Vec<Vec<u64>>, f: u64, r: &mut dyn rand::RngCore| -> Option<usize> {
        let rows: Vec<usize> = (0..tr.len()).filter(|&q| tr[q][2] == f).collect();
        if rows.is_empty() { None } else { Some(rows[(r.next_u64() as usize) % rows.len()]) }
    };
    let mut extra: HashMap<usize, Vec<Vec<u64>>> = HashMap::new();
    let mut decls_v = decls.clone();
    match act {
        "none" => {}
        "looking_value" => {
            if let Some(q) = pick(&traces[look_t], 1, &mut r) {
                traces[look_t][q][0] = addm(traces[look_t][q][0], 1 + r.gen::<u64>() % (P - 1), P);
            }
        }
        "looked_value" => {
            if let Some(q) = pick(&traces[looked_t], 1, &mut r) {
                traces[looked_t][q][1] = addm(traces[looked_t][q][1], 1 + r.gen::<u64>() % (P - 1), P);
            }
        }
        "extra_looked_row" => {
            if let Some(q) = pick(&traces[looked_t], 0, &mut r) {
                traces[looked_t][q][2] = 1;
            }
        }
        "missing_looking_row" => {
            if let Some(q) = pick(&traces[look_t], 1, &mut r) {
                traces[look_t][q][2] = 0;
            }
        }
        "missing_looked_row" => {
            if let Some(q) = pick(&traces[looked_t], 1, &mut r) {
                traces[looked_t][q][2] = 0;
            }
        }
        "extra_looking_row" => {
            if let Some(q) = pick(&traces[look_t], 0, &mut r) {
                traces[look_t][q][2] = 1;
            }
        }
        "inactive_value" => {
            if let Some(q) = pick(&traces[look_t], 0, &mut r) {
                traces[look_t][q][0] = addm(traces[look_t][q][0], 1 + r.gen::<u64>() % (P - 1), P);
            }
        }
        // a filter of weight 2 on a looking row (non-binary filter)
        "filter_two" => {
            if let Some(q) = pick(&traces[look_t], 1, &mut r) {
                traces[look_t][q][2] = 2;
            }
        }
        // the verifier is given a wrong / missing extra value
        "extra_dropped" => {
            for d in decls_v.iter_mut() {
                d.extra.pop();
            }
        }
        "extra_altered" => {
            for d in decls_v.iter_mut() {
                if let Some(x) = d.extra.last_mut() {
                    x[0] = addm(x[0], 1, P);
                }
            }
        }
        x => panic!("unknown action {x}"),
    }
    for (i, d) in decls_v.iter().enumerate() {
        if !d.extra.is_empty() {
            extra.insert(i, d.extra.clone());
        }
    }
    let bad: usize = decls_v.iter().map(|d| ctl_bad_tuples(d, &traces, P).len()).sum();
    let local_bad = binary && traces.iter().any(|t| t.iter().any(|row| row[2] > 1));
    let mut expected = bad == 0 && !local_bad;
    if flip {
        expected = !expected;
    }
    let sys = table_sys(deg, binary);
    let starks: Vec<Tbl> = (0..NT).map(|_| Tbl::new(&sys)).collect();
    let ctls = to_ctls(&decls);
    let obs = match guarded(|| ctl_prove::<NT>(&starks, &traces, &ctls, &config, deg)) {
        Err(p) => json!({"proved": false, "accepted": false, "prove_panic": p}),
        Ok(Err(e)) => json!({"proved": false, "accepted": false, "prove_error": format!("{e:#}")}),
        Ok(Ok(proofs)) => match guarded(|| ctl_verify::<NT>(&starks, &proofs, &ctls, &extra, &config, deg)) {
            Err(p) => json!({"proved": true, "accepted": false, "verify_panic": p}),
            Ok((tables, cross)) => json!({"proved": true, "accepted": tables.iter().all(|v| v.is_ok()) && cross.is_ok(),
                "tables": tables.iter().map(|v| match v { Ok(()) => json!("ok"), Err(e) => json!(e) }).collect::<Vec<_>>(),
                "cross": match &cross { Ok(()) => json!("ok"), Err(e) => json!(e) }}),
        },
    };
    let shape = format!("T{NT}-{}", case["shape"].as_str().unwrap_or("?"));
    out.record("C10/ctl", &shape, act, case, expected, obs, binding_bits(&config), json!({"bad_tuples": bad, "local_bad": local_bad}));
}

fn cmd_ctl(args: &[String]) -> anyhow::Result<()> {
    let cases = read_ndjson(opt(args, "--scen").ok_or_else(|| anyhow::anyhow!("--scen"))?)?;
    let flip = opt(args, "--flip-expect").and_then(|s| s.parse::<usize>().ok());
    let mut out = Out::new();
    for (i, c) in cases.iter().enumerate() {
        match c["n_bits"].as_array().unwrap().len() {
            1 => ctl_case::<1>(c, &mut out, flip == Some(i)),
            2 => ctl_case::<2>(c, &mut out, flip == Some(i)),
            3 => ctl_case::<3>(c, &mut out, flip == Some(i)),
            n => anyhow::bail!("{n} tables not instantiated"),
        }
    }
    out.finish("ctl", json!({"cases": cases.len()}));
    Ok(())
}

// ------------------------------------------------------------------------------------------
// the reference predicates on TLC's small-field cases
// ------------------------------------------------------------------------------------------
fn rows_of(v: &Value) -> Vec<Vec<u64>> {
    v.as_array().unwrap().iter().map(|row| row.as_array().unwrap().iter().map(|x| x.as_u64().unwrap()).collect()).collect()
}
fn cmd_eval17(args: &[String]) -> anyhow::Result<()> {
    let cases = read_ndjson(opt(args, "--cases").ok_or_else(|| anyhow::anyhow!("--cases"))?)?;
    let corrupt = opt(args, "--corrupt").and_then(|s| s.parse::<usize>().ok());
    let mut compared = 0u64;
    let mut mismatches = vec![];
    for (i, c) in cases.iter().enumerate() {
        let m = c["p"].as_u64().unwrap();
        let ok = match c["what"].as_str().unwrap() {
            "lookup" => {
                let sys = Sys::from_json(&json!({"cols": c["cols"], "npi": 0, "deg": 3, "cons": [], "lookups": [c["decl"].clone()]}));
                let mut tr = rows_of(&c["trace"]);
                if corrupt == Some(i) {
                    let col = sys.lookups[0].freq.lin[0].0;
                    tr[0][col] = (tr[0][col] + 1) % m;
                }
                lookups_ok(&sys, &tr, m)
            }
            "ctl" => {
                let d = CtlDecl::from_json(&c["decl"]);
                let mut traces: Vec<Vec<Vec<u64>>> = c["traces"].as_array().unwrap().iter().map(rows_of).collect();
                if corrupt == Some(i) {
                    let t = d.looked.table;
                    traces[t][0][2] = (traces[t][0][2] + 1) % m;
                }
                ctl_bad_tuples(&d, &traces, m).is_empty()
            }
            w => anyhow::bail!("unknown case kind {w}"),
        };
        compared += 1;
        if Some(ok) != c["ok"].as_bool() && mismatches.len() < 10 {
            mismatches.push(json!({"index": i, "case": c, "harness_ok": ok}));
        }
    }
    emit(&json!({"kind": "eval17", "compared": compared, "mismatches": mismatches}));
    Ok(())
}

fn main() -> std::process::ExitCode {
    run_main(|cmd, args| match cmd {
        "lookup" => cmd_lookup(args),
        "ctl" => cmd_ctl(args),
        "eval17" => cmd_eval17(args),
        _ => anyhow::bail!("unknown command {cmd}"),
    })
}
