//! C09 — STARK proofs are accepted exactly for satisfying traces.
//!
//! Commands (all print JSON result lines on stdout):
//!   forge      adversarial prover `omit_quotient_cap` (see `forge_one`)
//!   rowsem17   the reference row-level evaluator on the F_17 cases enumerated by TLC
//!   replay     scenario lines (system, trace length, config, action, expected verdict)
//!   bulk       random instances x corruptions, oracle = reference row-level evaluator
//!   tamper     every element of accepted proofs modified through serde_json reflection
use std::io::BufRead;

use plonky2::field::polynomial::PolynomialCoeffs;
use plonky2::field::types::Field;
use plonky2::fri::oracle::PolynomialBatch;
use plonky2::iop::challenger::Challenger;
use plonky2::util::timing::TimingTree;
use plonky2_util::log2_ceil;
use rand::Rng;
use serde_json::{json, Value};
use starky::config::StarkConfig;
use starky::constraint_consumer::ConstraintConsumer;
use starky::evaluation_frame::StarkEvaluationFrame;
use starky::proof::{StarkOpeningSet, StarkProof, StarkProofWithPublicInputs};
use starky::prover::prove;
use starky::stark::Stark;
use starky::verifier::verify_stark_proof;
use vh::util::*;

#[path = "../c09c10_kit.rs"]
#[macro_use]
mod kit;
use kit::*;

fn read_ndjson(path: &str) -> anyhow::Result<Vec<Value>> {
    let f = std::fs::File::open(path)?;
    let mut out = vec![];
    for line in std::io::BufReader::new(f).lines() {
        let line = line?;
        if !line.trim().is_empty() {
            out.push(serde_json::from_str(&line)?);
        }
    }
    Ok(out)
}

// ------------------------------------------------------------------------------------------
// pieces of the protocol re-implemented from public items only (the adversary's view)
// ------------------------------------------------------------------------------------------
/// `eval_l_0_and_l_last` of starky/src/vanishing_poly.rs (crate-private there).
fn l0_llast(log_n: usize, x: FE2) -> (FE2, FE2) {
    let n = FE2::from_canonical_usize(1 << log_n);
    let g = ext(F::primitive_root_of_unity(log_n));
    let z_x = x.exp_power_of_2(log_n) - FE2::ONE;
    (z_x / (n * (x - FE2::ONE)), z_x / (n * (g * x - FE2::ONE)))
}

/// the combined constraint values at `zeta` (one per alpha) from purported openings — what the
/// verifier computes in `verify_stark_proof_with_challenges` for a STARK without lookups/CTLs.
fn vanishing_at<S: Stark<F, D>>(stark: &S, local: &[FE2], next: &[FE2], pis: &[F], alphas: &[F], zeta: FE2, degree_bits: usize) -> Vec<FE2> {
    let (l_0, l_last) = l0_llast(degree_bits, zeta);
    let last = F::primitive_root_of_unity(degree_bits).inverse();
    let z_last = zeta - ext(last);
    let mut consumer = ConstraintConsumer::<FE2>::new(alphas.iter().map(|&a| ext(a)).collect(), z_last, l_0, l_last);
    let vars = S::EvaluationFrame::<FE2, FE2, D>::from_values(local, next, &pis.iter().map(|&p| ext(p)).collect::<Vec<_>>());
    stark.eval_ext(&vars, &mut consumer);
    consumer.accumulators()
}

/// the simulated opening set of the constraint-binding step (`get_dummy_polys`).
fn dummy_evals(challenger: &mut Challenger<F, H>, cols: usize, deg: usize) -> (Vec<FE2>, Vec<FE2>) {
    let pow_degree = core::cmp::max(2, deg + 1);
    let num_extension_powers = core::cmp::max(1, 50 / log2_ceil(pow_degree) - 1);
    let total = cols * 2;
    let zs = challenger.get_n_extension_challenges::<D>(total.div_ceil(num_extension_powers));
    let per = core::cmp::min(num_extension_powers + 1, total);
    let ev: Vec<FE2> = zs
        .into_iter()
        .flat_map(|z| core::iter::successors(Some(z), move |p| Some(p.exp_u64(pow_degree as u64))).take(per))
        .collect();
    (ev[..cols].to_vec(), ev[cols..2 * cols].to_vec())
}

/// Adversarial prover `omit_quotient_cap`.
///
/// For a trace (or public inputs) VIOLATING the constraints: commit to the trace honestly, derive
/// the challenges exactly as the verifier will for a proof whose `quotient_polys_cap` is `None`
/// (nothing is absorbed between the alphas and zeta), read zeta, open the trace at zeta / g zeta,
/// compute what the verifier will compute as vanishing(zeta) for every alpha, and choose the
/// "quotient" AFTER zeta is known: per challenge, chunk 0 is the linear polynomial a + b X with
/// a + b zeta = vanishing(zeta) / Z_H(zeta) (a, b in the base field, solvable because zeta is not
/// in the base field), the other chunks are zero.  These low-degree polynomials are put into a
/// `PolynomialBatch` so that the honest `prove_openings` produces a valid FRI proof for the oracles
/// [trace, fake quotient]; the proof is assembled with `quotient_polys_cap: None`.
/// `with_cap = true` is the control: the same fake quotient but with its cap included in the proof.
fn forge_one<const N: usize, const NPI: usize>(sys: &Sys, n_bits: usize, config: &StarkConfig, viol: &str, with_cap: bool, stream: u64) -> Value {
    let stark = Fam::<N, NPI>::new(sys);
    let n = 1usize << n_bits;
    let mut r = rng(stream);
    let (mut tr, mut pis) = trace_a(sys, n, P, &mut r);
    match viol {
        "first" => tr[0][0] = addm(tr[0][0], 1 + r.gen::<u64>() % 1000, P),
        "last" => tr[n - 1][0] = addm(tr[n - 1][0], 1 + r.gen::<u64>() % 1000, P),
        "interior" => tr[n / 2][0] = addm(tr[n / 2][0], 1 + r.gen::<u64>() % 1000, P),
        "all" => {
            for row in tr.iter_mut() {
                for x in row.iter_mut() {
                    *x = r.gen::<u64>() % P;
                }
            }
        }
        "pi" => pis[0] = addm(pis[0], 1, P),
        "none" => {}
        _ => panic!("unknown violation {viol}"),
    }
    let failing = rowsem(sys, &tr, &pis, P);
    let pis_f: Vec<F> = pis.iter().map(|&p| F::from_canonical_u64(p)).collect();
    let rate_bits = config.fri_config.rate_bits;
    let cap_height = config.fri_config.cap_height;
    let mut timing = TimingTree::default();
    let res = guarded(|| -> Result<Value, String> {
        let trace_commitment = PolynomialBatch::<F, C, D>::from_values(to_polys(&tr), rate_bits, false, cap_height, &mut timing, None);
        let trace_cap = trace_commitment.merkle_tree.cap.clone();
        let mut ch = Challenger::<F, H>::new();
        ch.observe_elements(&pis_f);
        config.observe(&mut ch);
        ch.observe_cap(&trace_cap);
        let alphas_prime = ch.get_n_challenges(config.num_challenges);
        let (dl, dn) = dummy_evals(&mut ch, N, sys.deg);
        let zeta_prime = ch.get_extension_challenge::<D>();
        let bind = vanishing_at(&stark, &dl, &dn, &pis_f, &alphas_prime, zeta_prime, n_bits);
        ch.observe_extension_elements::<D>(&bind);
        let alphas = ch.get_n_challenges(config.num_challenges);
        // the fake quotient is chosen after zeta; with_cap: it cannot be (its cap precedes zeta), so the
        // control first derives zeta WITHOUT the cap, and then includes the cap in the proof
        let zeta = {
            let mut probe = ch.clone();
            probe.get_extension_challenge::<D>()
        };
        let g = F::primitive_root_of_unity(n_bits);
        let o0 = StarkOpeningSet::<F, D>::new::<C>(zeta, g, &trace_commitment, None, None, 0, false, &[]);
        let van = vanishing_at(&stark, &o0.local_values, &o0.next_values, &pis_f, &alphas, zeta, n_bits);
        let z_h = zeta.exp_power_of_2(n_bits) - FE2::ONE;
        let qdf = stark.quotient_degree_factor();
        if qdf == 0 {
            return Err("the STARK has no quotient polynomials".into());
        }
        let [z0, z1] = ext_arr(zeta);
        let mut chunks = vec![];
        for v in &van {
            let target = *v / z_h;
            let [t0, t1] = ext_arr(target);
            let b = t1 / z1;
            let a = t0 - b * z0;
            let mut c0 = vec![F::ZERO; n];
            c0[0] = a;
            c0[1] = b;
            chunks.push(PolynomialCoeffs::new(c0));
            for _ in 1..qdf {
                chunks.push(PolynomialCoeffs::new(vec![F::ZERO; n]));
            }
        }
        let fake_q = PolynomialBatch::<F, C, D>::from_coeffs(chunks, rate_bits, false, cap_height, &mut timing, None);
        if with_cap {
            ch.observe_cap(&fake_q.merkle_tree.cap);
        }
        let zeta2 = ch.get_extension_challenge::<D>();
        let openings = StarkOpeningSet::<F, D>::new::<C>(zeta2, g, &trace_commitment, None, Some(&fake_q), 0, false, &[]);
        ch.observe_extension_elements::<D>(&[openings.local_values.clone(), openings.quotient_polys.clone().unwrap()].concat());
        ch.observe_extension_elements::<D>(&openings.next_values);
        let fri_params = config.fri_params(n_bits);
        let opening_proof = PolynomialBatch::<F, C, D>::prove_openings(
            &stark.fri_instance(zeta2, g, 0, vec![], config),
            &[&trace_commitment, &fake_q],
            &mut ch,
            &fri_params,
            None,
            None,
            &mut timing,
        );
        let proof = StarkProofWithPublicInputs::<F, C, D> {
            proof: StarkProof {
                trace_cap,
                auxiliary_polys_cap: None,
                quotient_polys_cap: if with_cap { Some(fake_q.merkle_tree.cap.clone()) } else { None },
                openings,
                opening_proof,
            },
            public_inputs: pis_f.clone(),
        };
        // self-check of the re-implemented transcript against the verifier's own derivation
        let mut vch = Challenger::<F, H>::new();
        let chal = proof.get_challenges(&stark, &mut vch, None, None, false, config, None);
        let in_sync = chal.stark_alphas == alphas && (with_cap || chal.stark_zeta == zeta);
        let verdict = verify_stark_proof(stark.clone(), proof, config, None);
        Ok(json!({"in_sync": in_sync, "accepted": verdict.is_ok(), "error": verdict.err().map(|e| format!("{e:#}"))}))
    });
    let (obs, panic) = match res {
        Ok(Ok(v)) => (v, Value::Null),
        Ok(Err(e)) => (json!({"skipped": e}), Value::Null),
        Err(p) => (json!({"accepted": false}), json!(p)),
    };
    json!({"kind": "forge", "strategy": if with_cap { "fake_quotient_with_cap(control)" } else { "omit_quotient_cap" },
        "cols": N, "npi": NPI, "deg": sys.deg, "n_bits": n_bits, "viol": viol, "failing_constraints": failing.len(),
        "first_failing": failing.first().map(|(c, r)| json!({"constraint": c, "row": r})),
        "binding_bits": binding_bits(config), "observed": obs, "panic": panic})
}

fn cmd_forge(args: &[String]) -> anyhow::Result<()> {
    let cases: Vec<Value> = match opt(args, "--cases") {
        Some(p) => read_ndjson(p)?,
        None => vec![json!({"cols": opt_usize(args, "--cols", 2), "npi": opt_usize(args, "--npi", 2), "deg": opt_usize(args, "--deg", 2),
            "n_bits": opt_usize(args, "--n-bits", 5), "viol": opt(args, "--viol").unwrap_or("interior"), "config": {}})],
    };
    for (i, c) in cases.iter().enumerate() {
        let cols = c["cols"].as_u64().unwrap() as usize;
        let npi = c["npi"].as_u64().unwrap() as usize;
        let sys = template_a(cols, npi, c["deg"].as_u64().unwrap() as usize);
        let cfg = config_from(&c["config"]);
        let n_bits = c["n_bits"].as_u64().unwrap() as usize;
        let viol = c["viol"].as_str().unwrap().to_string();
        for with_cap in [false, true] {
            let mut out = fam_dispatch!(cols, npi, forge_one, &sys, n_bits, &cfg, &viol, with_cap, 9000 + i as u64);
            out["case"] = c.clone();
            emit(&out);
        }
    }
    Ok(())
}

// ------------------------------------------------------------------------------------------
// outcome bookkeeping
// ------------------------------------------------------------------------------------------
struct Out {
    evaluated: u64,
    nontrivial: std::collections::BTreeSet<String>,
    accepted: u64,
    rejected: u64,
    panics: u64,
    weak_accepts: u64,
    violations: Vec<Value>,
    conflicts: Vec<Value>,
    samples: Vec<Value>,
    classes: std::collections::BTreeMap<String, u64>,
    deg_classes: std::collections::BTreeMap<String, u64>,
}
impl Out {
    fn new() -> Self {
        Out { evaluated: 0, nontrivial: Default::default(), accepted: 0, rejected: 0, panics: 0, weak_accepts: 0, violations: vec![], conflicts: vec![],
            samples: vec![], classes: Default::default(), deg_classes: Default::default() }
    }
    fn finish(self, kind: &str, extra: Value) {
        emit(&json!({"kind": kind, "evaluated": self.evaluated, "nontrivial": self.nontrivial.len(), "accepted": self.accepted, "rejected": self.rejected,
            "panics": self.panics, "weak_accepts": self.weak_accepts, "violations": self.violations, "conflicts": self.conflicts,
            "samples": self.samples, "classes": self.classes, "deg_classes": self.deg_classes, "extra": extra}));
    }
}

/// prove with the real prover (a panic or an error = no proof), verify with the real verifier
fn prove_and_verify<const N: usize, const NPI: usize>(sys: &Sys, tr: &[Vec<u64>], pis: &[u64], config: &StarkConfig, knobs: Option<plonky2::verif_knobs::Knobs>)
    -> (Value, Option<StarkProofWithPublicInputs<F, C, D>>) {
    let stark = Fam::<N, NPI>::new(sys);
    let pis_f: Vec<F> = pis.iter().map(|&p| F::from_canonical_u64(p)).collect();
    let polys = to_polys(tr);
    let lenient = !stark.quotient_degree_factor().is_power_of_two() && stark.quotient_degree_factor() > 0;
    let mut k = knobs.clone().unwrap_or_default();
    k.lenient_trim = k.lenient_trim || lenient;
    let use_knobs = knobs.is_some() || lenient;
    if use_knobs {
        plonky2::verif_knobs::set(k);
    }
    let proved = guarded(|| prove::<F, C, _, D>(stark.clone(), config, polys, &pis_f, None, &mut TimingTree::default()));
    if use_knobs {
        plonky2::verif_knobs::clear();
    }
    let proof = match proved {
        Ok(Ok(p)) => p,
        Ok(Err(e)) => return (json!({"proved": false, "accepted": false, "prove_error": format!("{e:#}")}), None),
        Err(p) => return (json!({"proved": false, "accepted": false, "prove_panic": p}), None),
    };
    let keep = proof.clone();
    match guarded(|| verify_stark_proof(stark.clone(), proof, config, None)) {
        Ok(Ok(())) => (json!({"proved": true, "accepted": true}), Some(keep)),
        Ok(Err(e)) => (json!({"proved": true, "accepted": false, "verify_error": format!("{e:#}").chars().take(160).collect::<String>()}), Some(keep)),
        Err(p) => (json!({"proved": true, "accepted": false, "verify_panic": p}), Some(keep)),
    }
}

fn row_of(class: &str, n: usize, r: &mut impl Rng) -> Option<usize> {
    match class {
        "first" => Some(0),
        "last" => Some(n - 1),
        "second" => (n >= 2).then_some(1),
        "interior" => (n >= 3).then(|| 1 + r.gen::<usize>() % (n - 2)),
        _ => class.parse::<usize>().ok().filter(|&x| x < n),
    }
}

/// one case: {id, cols, npi, deg, n_bits, config, action: {kind: none|cell|pi|knob, row: class, col, knob, arg}, expect}
fn run_case<const N: usize, const NPI: usize>(case: &Value, out: &mut Out, flip: bool) {
    let sys = template_a(N, NPI, case["deg"].as_u64().unwrap() as usize);
    let n_bits = case["n_bits"].as_u64().unwrap() as usize;
    let n = 1usize << n_bits;
    let config = config_from(&case["config"]);
    let id = case["id"].as_str().unwrap_or("?").to_string();
    let mut h = 0u64;
    for b in id.bytes() {
        h = h.wrapping_mul(1099511628211).wrapping_add(b as u64);
    }
    let mut r = rng(h | 1);
    let (mut tr, mut pis) = trace_a(&sys, n, P, &mut r);
    let act = &case["action"];
    let kind = act["kind"].as_str().unwrap_or("none");
    let mut knobs = None;
    let mut label = kind.to_string();
    match kind {
        "none" => {}
        "cell" => {
            let class = act["row"].as_str().map(|s| s.to_string()).unwrap_or_else(|| act["row"].to_string());
            let Some(row) = row_of(&class, n, &mut r) else { return };
            let col = act["col"].as_u64().unwrap() as usize;
            if col >= N {
                return;
            }
            let delta = match act["delta"].as_u64() {
                Some(d) => d,
                None => 1 + r.gen::<u64>() % (P - 1),
            };
            tr[row][col] = addm(tr[row][col], delta, P);
            label = format!("cell:{class}:c{col}");
        }
        "pi" => {
            let i = act["col"].as_u64().unwrap() as usize;
            if i >= NPI {
                return;
            }
            pis[i] = addm(pis[i], 1 + r.gen::<u64>() % (P - 1), P);
            label = format!("pi:{i}");
        }
        "knob" => {
            let mut k = plonky2::verif_knobs::Knobs::default();
            let arg = act["arg"].as_u64().unwrap_or(0);
            match act["knob"].as_str().unwrap() {
                "fri_layer_delta" => k.fri_layer_delta = Some((arg as usize, 1 + r.gen::<u64>() % 1000)),
                "fri_final_poly_delta" => k.fri_final_poly_delta = Some((arg as usize, 1 + r.gen::<u64>() % 1000)),
                "pow_witness" => k.pow_witness = Some(r.gen::<u64>() % P),
                x => panic!("unknown knob {x}"),
            }
            label = format!("knob:{}", act["knob"].as_str().unwrap());
            knobs = Some(k);
        }
        x => panic!("unknown action {x}"),
    }
    let failing = rowsem(&sys, &tr, &pis, P);
    let mut oracle_accept = failing.is_empty() && kind != "knob";
    // the scenario's own expectation (derived by TLC for the position class) must agree with the evaluator
    match case["expect"].as_str() {
        Some("accept") if !oracle_accept => out.conflicts.push(json!({"id": id, "expect": "accept", "failing": failing.len()})),
        Some("reject") if oracle_accept => out.conflicts.push(json!({"id": id, "expect": "reject"})),
        _ => {}
    }
    if flip {
        oracle_accept = !oracle_accept;
    }
    let (obs, _) = prove_and_verify::<N, NPI>(&sys, &tr, &pis, &config, knobs);
    let accepted = obs["accepted"].as_bool().unwrap();
    out.evaluated += 1;
    let shape = format!("{N}x{NPI}d{}n{n_bits}", sys.deg);
    out.nontrivial.insert(format!("{shape}/{label}/{}", case["config"]));
    *out.classes.entry(format!("{}:{}", label.split(":c").next().unwrap(), if accepted { "acc" } else { "rej" })).or_insert(0) += 1;
    // per declared constraint degree and expectation (vacuity guards of the driver)
    *out.deg_classes.entry(format!("d{}/{}:expect_{}:{}", sys.deg, label.split(":c").next().unwrap(), if oracle_accept { "acc" } else { "rej" },
        if accepted { "acc" } else { "rej" })).or_insert(0) += 1;
    if accepted {
        out.accepted += 1;
    } else {
        out.rejected += 1;
    }
    if obs.get("prove_panic").is_some() || obs.get("verify_panic").is_some() {
        out.panics += 1;
    }
    let bits = binding_bits(&config);
    let rec = json!({"id": id, "case": case, "shape": shape, "label": label, "failing": failing.iter().take(4).map(|(c, r)| json!([c, r])).collect::<Vec<_>>(),
        "expected_accept": oracle_accept, "observed": obs, "binding_bits": bits});
    if out.samples.len() < 3 {
        out.samples.push(rec.clone());
    }
    if oracle_accept && !accepted {
        let mut v = rec.clone();
        v["key"] = json!(format!("C09/complete/{shape}/{label}"));
        v["detail"] = json!("a satisfying trace (row-level semantics) was not proved/accepted");
        out.violations.push(v);
    } else if !oracle_accept && accepted {
        if bits >= 50 {
            let mut v = rec.clone();
            v["key"] = json!(format!("C09/sound/{shape}/{label}"));
            v["detail"] = json!("a violating trace / mismatching public input / deviating prover led to an accepted proof");
            out.violations.push(v);
        } else {
            out.weak_accepts += 1;
        }
    }
}

fn dispatch_case(case: &Value, out: &mut Out, flip: bool) {
    let cols = case["cols"].as_u64().unwrap() as usize;
    let npi = case["npi"].as_u64().unwrap() as usize;
    fam_dispatch!(cols, npi, run_case, case, out, flip)
}

fn cmd_replay(args: &[String]) -> anyhow::Result<()> {
    let cases = read_ndjson(opt(args, "--scen").ok_or_else(|| anyhow::anyhow!("--scen"))?)?;
    let flip = opt(args, "--flip-expect").and_then(|s| s.parse::<usize>().ok());
    let mut out = Out::new();
    for (i, c) in cases.iter().enumerate() {
        dispatch_case(c, &mut out, flip == Some(i));
    }
    out.finish("replay", json!({"cases": cases.len()}));
    Ok(())
}

// ------------------------------------------------------------------------------------------
// bulk: random instances of the family x corruptions, oracle = reference evaluator
// ------------------------------------------------------------------------------------------
fn random_config(r: &mut impl Rng, deg: usize, n_bits: usize, strong: bool) -> Value {
    let min_rate = if deg <= 3 { 1 } else { 2 };
    let rate = min_rate + r.gen::<usize>() % (4 - min_rate);
    let lde = n_bits + rate;
    let (queries, pow) = if strong {
        // >= 50 bits
        let pow = [10usize, 16][r.gen::<usize>() % 2];
        ((50 - pow).div_ceil(rate) + r.gen::<usize>() % 3, pow)
    } else {
        ([1usize, 2, 5, 10][r.gen::<usize>() % 4], [0usize, 3, 8][r.gen::<usize>() % 3])
    };
    let cap = r.gen::<usize>() % (lde.min(4) + 1);
    let room = lde - cap;
    let strategy = match r.gen::<usize>() % 4 {
        0 => {
            // ConstantArityBits(a, f) is admissible for every degree only if f >= a - 1 (FriReductionStrategy asserts
            // degree_bits >= arity_bits while degree_bits > final_poly_bits)
            let a = 1 + r.gen::<usize>() % 3;
            json!(["const", a, a - 1 + r.gen::<usize>() % (7 - a)])
        }
        1 => json!(["const", 4, 5]),
        2 => {
            let mut left = room.min(n_bits);
            let mut v = vec![];
            while left > 0 && r.gen::<usize>() % 3 != 0 {
                let a = 1 + r.gen::<usize>() % left.min(3);
                v.push(a);
                left -= a;
            }
            json!(["fixed", v])
        }
        _ => json!(["min", if r.gen::<bool>() { Value::Null } else { json!(1 + r.gen::<usize>() % 4) }]),
    };
    json!({"rate": rate, "cap": cap, "pow": pow, "queries": queries, "nc": 1 + r.gen::<usize>() % 3, "strategy": strategy,
           "security": if strong { 50 } else { 1 }})
}

fn cmd_bulk(args: &[String]) -> anyhow::Result<()> {
    let instances = opt_usize(args, "--instances", 20);
    let corruptions = opt_usize(args, "--corruptions", 6);
    let max_bits = opt_usize(args, "--max-bits", 8);
    let mut r = rng(77);
    let mut out = Out::new();
    let colset = [1usize, 2, 3, 5, 8];
    for i in 0..instances {
        let cols = colset[r.gen::<usize>() % colset.len()];
        let npi = [0usize, 2][r.gen::<usize>() % 2];
        let strong = i % 3 != 2;
        let deg = if cols == 1 { [0usize, 2, 3][r.gen::<usize>() % 3] } else { [0usize, 1, 2, 2, 3, 3, 4, 5][r.gen::<usize>() % 8] };
        let n_bits = 1 + r.gen::<usize>() % max_bits;
        let config = random_config(&mut r, deg, n_bits, strong);
        let base = json!({"cols": cols, "npi": npi, "deg": deg, "n_bits": n_bits, "config": config});
        let mut mk = |tag: String, action: Value| {
            let mut c = base.clone();
            c["id"] = json!(format!("bulk-{i}-{tag}"));
            c["action"] = action;
            c["expect"] = json!("rowsem");
            c
        };
        dispatch_case(&mk("honest".into(), json!({"kind": "none"})), &mut out, false);
        let rows = ["first", "last", "interior", "second", "last", "first", "interior"];
        for k in 0..corruptions {
            let action = if npi > 0 && k % 5 == 4 {
                json!({"kind": "pi", "col": r.gen::<usize>() % npi})
            } else {
                json!({"kind": "cell", "row": rows[(k + i) % rows.len()], "col": r.gen::<usize>() % cols})
            };
            dispatch_case(&mk(format!("c{k}"), action), &mut out, false);
        }
    }
    out.finish("bulk", json!({"instances": instances, "corruptions": corruptions}));
    Ok(())
}

// ------------------------------------------------------------------------------------------
// the reference evaluator on TLC's F_17 cases
// ------------------------------------------------------------------------------------------
fn cmd_rowsem17(args: &[String]) -> anyhow::Result<()> {
    let syss = read_ndjson(opt(args, "--sys").ok_or_else(|| anyhow::anyhow!("--sys"))?)?;
    let cases = read_ndjson(opt(args, "--cases").ok_or_else(|| anyhow::anyhow!("--cases"))?)?;
    let corrupt = opt(args, "--corrupt").and_then(|s| s.parse::<usize>().ok());
    let mut table = std::collections::HashMap::new();
    let mut sys_drift = vec![];
    let mut modulus = 17u64;
    for s in &syss {
        let sys = Sys::from_json(&s["sys"]);
        modulus = s["p"].as_u64().unwrap();
        let tpl = template_a(sys.cols, sys.npi, sys.deg);
        if tpl != sys {
            sys_drift.push(json!({"sid": s["sid"], "spec": sys.to_json(), "harness": tpl.to_json()}));
        }
        table.insert(s["sid"].as_u64().unwrap(), sys);
    }
    let mut compared = 0u64;
    let mut mismatches = vec![];
    let mut classes: std::collections::BTreeMap<String, (u64, u64)> = Default::default();
    for (i, c) in cases.iter().enumerate() {
        let sid = c["sid"].as_u64().unwrap();
        let sys = &table[&sid];
        let mut tr: Vec<Vec<u64>> = c["trace"].as_array().unwrap().iter().map(|row| row.as_array().unwrap().iter().map(|x| x.as_u64().unwrap()).collect()).collect();
        let pis: Vec<u64> = c["pis"].as_array().map(|a| a.iter().map(|x| x.as_u64().unwrap()).collect()).unwrap_or_default();
        if corrupt == Some(i) {
            tr[0][0] = (tr[0][0] + 1) % modulus;
        }
        let mut got: Vec<(usize, usize)> = rowsem(sys, &tr, &pis, modulus);
        got.sort();
        let mut want: Vec<(usize, usize)> = c["failing"].as_array().unwrap().iter().map(|p| (p[0].as_u64().unwrap() as usize, p[1].as_u64().unwrap() as usize)).collect();
        want.sort();
        compared += 1;
        if got != want || c["ok"].as_bool() != Some(got.is_empty()) {
            if mismatches.len() < 10 {
                mismatches.push(json!({"index": i, "case": c, "harness_failing": got.iter().map(|(a, b)| json!([a, b])).collect::<Vec<_>>()}));
            }
        }
        // position classes (for the scenario catalogue): verdicts per (sid, kind, row class, col)
        let n = tr.len();
        let kind = c["kind"].as_str().unwrap_or("");
        if kind == "cell" || kind == "pi" || kind == "none" {
            let row = c["row"].as_u64().unwrap_or(0) as usize;
            let rc = if kind != "cell" { "-" } else if row == 0 { "first" } else if row + 1 == n { "last" } else { "interior" };
            let e = classes.entry(format!("{sid}|{kind}|{rc}|{}", c["col"])).or_insert((0, 0));
            if want.is_empty() {
                e.0 += 1;
            } else {
                e.1 += 1;
            }
        }
    }
    emit(&json!({"kind": "rowsem17", "compared": compared, "mismatches": mismatches, "sys_drift": sys_drift, "modulus": modulus,
        "classes": classes.iter().map(|(k, v)| json!({"class": k, "ok": v.0, "failing": v.1})).collect::<Vec<_>>()}));
    Ok(())
}

// ------------------------------------------------------------------------------------------
// tamper: every element of accepted proofs modified through serde_json reflection
// ------------------------------------------------------------------------------------------
#[derive(Clone, Debug)]
enum Seg {
    K(String),
    I(usize),
}
fn path_str(p: &[Seg]) -> String {
    p.iter().map(|s| match s { Seg::K(k) => format!(".{k}"), Seg::I(i) => format!("[{i}]") }).collect()
}
fn walk(v: &Value, cur: &mut Vec<Seg>, leaves: &mut Vec<Vec<Seg>>, arrays: &mut Vec<Vec<Seg>>, options: &mut Vec<Vec<Seg>>) {
    match v {
        Value::Number(_) => leaves.push(cur.clone()),
        Value::Null => options.push(cur.clone()),
        Value::Array(a) => {
            arrays.push(cur.clone());
            for (i, x) in a.iter().enumerate() {
                cur.push(Seg::I(i));
                walk(x, cur, leaves, arrays, options);
                cur.pop();
            }
        }
        Value::Object(o) => {
            for (k, x) in o {
                cur.push(Seg::K(k.clone()));
                walk(x, cur, leaves, arrays, options);
                cur.pop();
            }
        }
        _ => {}
    }
}
fn at_mut<'a>(v: &'a mut Value, p: &[Seg]) -> &'a mut Value {
    let mut x = v;
    for s in p {
        x = match s {
            Seg::K(k) => &mut x[k.as_str()],
            Seg::I(i) => &mut x[*i],
        };
    }
    x
}
/// generic path: indices inside the per-query-round part are replaced by '*' (coverage classes)
fn generic(p: &[Seg]) -> String {
    p.iter().map(|s| match s { Seg::K(k) => format!(".{k}"), Seg::I(_) => "[*]".to_string() }).collect()
}

fn tamper_one<const N: usize, const NPI: usize>(case: &Value, out: &mut Out, sample_rounds: usize, inject: bool) -> Value {
    let sys = template_a(N, NPI, case["deg"].as_u64().unwrap() as usize);
    let stark = Fam::<N, NPI>::new(&sys);
    let n_bits = case["n_bits"].as_u64().unwrap() as usize;
    let config = config_from(&case["config"]);
    let mut r = rng(4242 + n_bits as u64 * 16 + N as u64);
    let (tr, pis) = trace_a(&sys, 1 << n_bits, P, &mut r);
    let (obs, proof) = prove_and_verify::<N, NPI>(&sys, &tr, &pis, &config, None);
    let shape = format!("{N}x{NPI}d{}n{n_bits}", sys.deg);
    if obs["accepted"] != json!(true) {
        out.violations.push(json!({"key": format!("C09/complete/{shape}/tamper-base"), "detail": "honest proof not accepted", "observed": obs, "case": case}));
        return json!({"shape": shape, "positions": 0});
    }
    let proof = proof.unwrap();
    let base = serde_json::to_value(&proof).unwrap();
    let (mut leaves, mut arrays, mut options) = (vec![], vec![], vec![]);
    walk(&base, &mut vec![], &mut leaves, &mut arrays, &mut options);
    let rounds = config.fri_config.num_query_rounds;
    let keep_round = |p: &[Seg]| -> bool {
        // .proof.opening_proof.query_round_proofs[k]... : all rounds when sample_rounds == 0, else the first, the last and
        // sample_rounds-2 seeded ones
        if let (Some(Seg::K(a)), Some(Seg::I(k))) = (p.get(2), p.get(3)) {
            if a == "query_round_proofs" && sample_rounds > 0 && rounds > sample_rounds {
                return *k == 0 || *k == rounds - 1 || (*k * 2654435761usize + seed() as usize) % rounds < sample_rounds.saturating_sub(2);
            }
        }
        true
    };
    let bits = binding_bits(&config);
    let tried = std::cell::Cell::new(0u64);
    let mut generic_seen = std::collections::BTreeSet::new();
    // a mutation that leaves every field element unchanged modulo p (the prover may emit the non-canonical
    // representation p of 0) is not a modification of the proof
    fn canon_json(v: &Value) -> Value {
        match v {
            Value::Number(n) => n.as_u64().map(|x| json!(x % P)).unwrap_or_else(|| v.clone()),
            Value::Array(a) => Value::Array(a.iter().map(canon_json).collect()),
            Value::Object(o) => Value::Object(o.iter().map(|(k, x)| (k.clone(), canon_json(x))).collect()),
            _ => v.clone(),
        }
    }
    let base_canon = canon_json(&base);
    let noncanonical = std::cell::Cell::new(0u64);
    let pi_mut: std::cell::RefCell<std::collections::BTreeMap<usize, u64>> = Default::default();
    let mut check = |mutated: Value, what: String, gpath: String, out: &mut Out| {
        if mutated == base {
            return;
        }
        if canon_json(&mutated) == base_canon {
            noncanonical.set(noncanonical.get() + 1);
            return;
        }
        if let Some(rest) = what.split("@.public_inputs[").nth(1) {
            if let Ok(i) = rest.trim_end_matches(']').parse::<usize>() {
                *pi_mut.borrow_mut().entry(i).or_insert(0) += 1;
            }
        }
        tried.set(tried.get() + 1);
        out.evaluated += 1;
        generic_seen.insert(gpath.clone());
        out.nontrivial.insert(format!("{shape}/{gpath}/{}", what.split('@').next().unwrap()));
        let verdict: Result<Result<(), String>, String> = match serde_json::from_value::<StarkProofWithPublicInputs<F, C, D>>(mutated) {
            Err(e) => Ok(Err(format!("decode: {e}"))),
            Ok(p) => guarded(|| verify_stark_proof(stark.clone(), p, &config, None).map_err(|e| format!("{e:#}"))),
        };
        let accepted = matches!(verdict, Ok(Ok(())));
        if let Err(_) = &verdict {
            out.panics += 1;
        }
        if accepted {
            out.accepted += 1;
            if bits >= 50 {
                out.violations.push(json!({"key": format!("C09/tamper/{shape}/{gpath}"), "detail": "a modified accepted proof / public input was accepted",
                    "mutation": what, "case": case, "binding_bits": bits}));
            } else {
                out.weak_accepts += 1;
            }
        } else {
            out.rejected += 1;
        }
    };
    if inject {
        // binding canary: the unmodified proof presented as a "mutation" must surface as accepted
        let mut m = base.clone();
        m["__canary"] = json!(1);
        let mm = { let mut x = m.clone(); x.as_object_mut().unwrap().remove("__canary"); x };
        let p: StarkProofWithPublicInputs<F, C, D> = serde_json::from_value(mm).unwrap();
        if verify_stark_proof(stark.clone(), p, &config, None).is_ok() {
            out.violations.push(json!({"key": format!("C09/tamper/{shape}/canary-identity"), "detail": "identity mutation accepted (canary)"}));
        }
    }
    for p in &leaves {
        if !keep_round(p) {
            continue;
        }
        let v = super_get(&base, p).as_u64().unwrap();
        let g = generic(p);
        for (what, nv) in [("plus1", if v == u64::MAX { 0 } else { v + 1 }), ("zero", 0u64), ("rand", r.gen::<u64>() % P)] {
            let mut m = base.clone();
            *at_mut(&mut m, p) = json!(nv);
            check(m, format!("{what}@{}", path_str(p)), g.clone(), out);
        }
    }
    for p in &arrays {
        if !keep_round(p) || p.is_empty() {
            continue;
        }
        let g = generic(p);
        let len = super_get(&base, p).as_array().unwrap().len();
        // drop last, duplicate last, swap first two, empty
        if len > 0 {
            let mut m = base.clone();
            at_mut(&mut m, p).as_array_mut().unwrap().pop();
            check(m, format!("pop@{}", path_str(p)), g.clone(), out);
            let mut m = base.clone();
            let a = at_mut(&mut m, p).as_array_mut().unwrap();
            let last = a[len - 1].clone();
            a.push(last);
            check(m, format!("dup@{}", path_str(p)), g.clone(), out);
        }
        if len > 1 {
            let mut m = base.clone();
            at_mut(&mut m, p).as_array_mut().unwrap().swap(0, 1);
            check(m, format!("swap@{}", path_str(p)), g.clone(), out);
        }
    }
    // optional components: Some -> None and None -> Some(copy of a sibling cap / vector)
    for key in ["auxiliary_polys_cap", "quotient_polys_cap"] {
        let mut m = base.clone();
        let other = base["proof"]["trace_cap"].clone();
        let cur = m["proof"][key].clone();
        m["proof"][key] = if cur.is_null() { other } else { Value::Null };
        check(m, format!("toggle@.proof.{key}"), format!(".proof.{key}"), out);
    }
    for key in ["auxiliary_polys", "auxiliary_polys_next", "ctl_zs_first", "quotient_polys"] {
        let mut m = base.clone();
        let cur = m["proof"]["openings"][key].clone();
        m["proof"]["openings"][key] = if cur.is_null() { if key == "ctl_zs_first" { json!([1]) } else { base["proof"]["openings"]["local_values"].clone() } } else { Value::Null };
        check(m, format!("toggle@.proof.openings.{key}"), format!(".proof.openings.{key}"), out);
    }
    let _ = options;
    json!({"shape": shape, "config": case["config"], "binding_bits": bits, "positions": leaves.len(), "arrays": arrays.len(), "mutations": tried.get(), "skipped_same_field_elements": noncanonical.get(), "npi": NPI, "unreferenced_pis": unreferenced_pis(&sys),
           "pi_value_mutations": pi_mut.borrow().iter().map(|(i, n)| json!([i, n])).collect::<Vec<_>>(),
           "generic_paths": generic_seen.len()})
}
fn super_get<'a>(v: &'a Value, p: &[Seg]) -> &'a Value {
    let mut x = v;
    for s in p {
        x = match s {
            Seg::K(k) => &x[k.as_str()],
            Seg::I(i) => &x[*i],
        };
    }
    x
}

fn cmd_tamper(args: &[String]) -> anyhow::Result<()> {
    let cases = read_ndjson(opt(args, "--cases").ok_or_else(|| anyhow::anyhow!("--cases"))?)?;
    let sample_rounds = opt_usize(args, "--sample-rounds", 0);
    let inject = args.iter().any(|a| a == "--canary");
    let mut out = Out::new();
    let mut per = vec![];
    for c in &cases {
        let cols = c["cols"].as_u64().unwrap() as usize;
        let npi = c["npi"].as_u64().unwrap() as usize;
        per.push(fam_dispatch!(cols, npi, tamper_one, c, &mut out, sample_rounds, inject));
    }
    out.finish("tamper", json!({"proofs": per}));
    Ok(())
}

fn main() -> std::process::ExitCode {
    run_main(|cmd, args| match cmd {
        "forge" => cmd_forge(args),
        "replay" => cmd_replay(args),
        "bulk" => cmd_bulk(args),
        "rowsem17" => cmd_rowsem17(args),
        "tamper" => cmd_tamper(args),
        _ => anyhow::bail!("unknown command {cmd}"),
    })
}
