//! C04 — dependency-matrix replay: for real PLONK and STARK proofs every transcript component
//! (statement parameters, digest, public inputs, every cap entry element, every opening
//! coefficient, every commit-phase cap, every final-polynomial coefficient, the pow witness) is
//! perturbed in turn, the Fiat-Shamir challenges are recomputed with the library's own
//! `get_challenges`, and the set of challenges that changed is reported per component class.
//! The driver compares it with the matrix TLC derives from spec/Transcript.tla and
//! spec/StarkTranscript.tla.  With `--programs file` the exact observe/squeeze program printed by
//! TLC is additionally re-executed on a fresh `Challenger` over the real proof data and compared
//! with the library's challenges (implementation-shaped check, DRIFT level).
use std::collections::BTreeMap;
use std::marker::PhantomData;
use std::sync::Arc;

use plonky2::field::extension::{Extendable, FieldExtension};
use plonky2::field::packed::PackedField;
use plonky2::field::polynomial::PolynomialValues;
use plonky2::field::types::{Field, PrimeField64};
use plonky2::fri::reduction_strategies::FriReductionStrategy;
use plonky2::fri::FriConfig;
use plonky2::gates::noop::NoopGate;
use plonky2::hash::hash_types::RichField;
use plonky2::hash::merkle_tree::MerkleCap;
use plonky2::iop::challenger::Challenger;
use plonky2::iop::ext_target::ExtensionTarget;
use plonky2::iop::witness::{PartialWitness, WitnessWrite};
use plonky2::plonk::circuit_builder::CircuitBuilder;
use plonky2::plonk::circuit_data::{CircuitConfig, CommonCircuitData};
use plonky2::plonk::config::{GenericConfig, GenericHashOut, Hasher, KeccakGoldilocksConfig, PoseidonGoldilocksConfig};
use plonky2::plonk::proof::ProofWithPublicInputs;
use plonky2::util::timing::TimingTree;
use serde_json::{json, Value};
use starky::config::StarkConfig;
use starky::constraint_consumer::{ConstraintConsumer, RecursiveConstraintConsumer};
use starky::evaluation_frame::{StarkEvaluationFrame, StarkFrame};
use starky::proof::StarkProofWithPublicInputs;
use starky::stark::Stark;

use vh::util::*;

const D: usize = 2;
type PC = PoseidonGoldilocksConfig;
type KC = KeccakGoldilocksConfig;
type FE = <F as Extendable<D>>::Extension;
type Chal = BTreeMap<String, Vec<u64>>;

fn ext_words(e: &FE) -> Vec<u64> {
    let a: [F; D] = <FE as FieldExtension<D>>::to_basefield_array(e);
    a.iter().map(|x| x.to_canonical_u64()).collect()
}
fn bump(x: F) -> F {
    x + F::ONE
}
fn bump_ext(e: &mut FE, coeff: usize) {
    let mut a: [F; D] = <FE as FieldExtension<D>>::to_basefield_array(e);
    a[coeff] = bump(a[coeff]);
    *e = <FE as FieldExtension<D>>::from_basefield_array(a);
}
/// number of perturbation positions of a digest: the 4 field elements of a Poseidon digest, EVERY byte of a
/// byte digest (Keccak-25: 3 full 7-byte chunks and the last 4 bytes all reach the transcript)
fn hash_atoms<H: GenericHashOut<F>>(h: &H) -> usize {
    let n = h.to_bytes().len();
    if n == 32 { 4 } else { n }
}
/// change position `e` of a digest (flip one bit; which bit of a field element varies with e and the seed)
fn flip_hash<H: GenericHashOut<F>>(h: &H, e: usize) -> H {
    let mut b = h.to_bytes();
    if b.len() == 32 {
        // low 4 bytes of the element only: the result stays a canonical field element
        let byte = (e + seed() as usize) % 4;
        b[e * 8 + byte] ^= 1 << ((e * 3 + seed() as usize) % 8);
    } else {
        b[e] ^= 1 << ((e + seed() as usize) % 8);
    }
    H::from_bytes(&b)
}
fn strat_name(s: &FriReductionStrategy) -> &'static str {
    match s {
        FriReductionStrategy::Fixed(_) => "fixed",
        FriReductionStrategy::ConstantArityBits(_, _) => "cab",
        FriReductionStrategy::MinSize(_) => "minsize",
    }
}
/// SEMANTIC neighbours of a reduction strategy, independent of how the crate serialises it: every entry is a
/// DIFFERENT `FriReductionStrategy` value, i.e. a different statement parameter.  (name of the altered
/// parameter, the altered strategy)
fn strategy_perturbations(s: &FriReductionStrategy) -> Vec<(String, FriReductionStrategy)> {
    use FriReductionStrategy::*;
    let mut v: Vec<(String, FriReductionStrategy)> = vec![];
    match s.clone() {
        ConstantArityBits(a, b) => {
            v.push(("cab.arity_bits+1".into(), ConstantArityBits(a + 1, b)));
            if a > 0 {
                v.push(("cab.arity_bits-1".into(), ConstantArityBits(a - 1, b)));
            }
            v.push(("cab.final_poly_bits+1".into(), ConstantArityBits(a, b + 1)));
            if b > 0 {
                v.push(("cab.final_poly_bits-1".into(), ConstantArityBits(a, b - 1)));
            }
            v.push(("variant->fixed".into(), Fixed(vec![a, b])));
            v.push(("variant->minsize".into(), MinSize(Some(a.max(1)))));
        }
        Fixed(xs) => {
            for i in 0..xs.len() {
                let mut y = xs.clone();
                y[i] += 1;
                v.push((format!("fixed.arity[{i}]+1"), Fixed(y)));
                if xs[i] > 0 {
                    let mut y = xs.clone();
                    y[i] -= 1;
                    v.push((format!("fixed.arity[{i}]-1"), Fixed(y)));
                }
            }
            let mut y = xs.clone();
            y.push(1);
            v.push(("fixed.append".into(), Fixed(y)));
            if !xs.is_empty() {
                let mut y = xs.clone();
                y.pop();
                v.push(("fixed.remove_last".into(), Fixed(y)));
            }
            v.push(("variant->cab".into(), ConstantArityBits(xs.first().copied().unwrap_or(1), xs.get(1).copied().unwrap_or(1))));
            v.push(("variant->minsize".into(), MinSize(Some(xs.first().copied().unwrap_or(1).max(1)))));
        }
        MinSize(o) => {
            match o {
                None => {
                    v.push(("minsize.none<->some".into(), MinSize(Some(3))));
                    v.push(("minsize.none<->some(1)".into(), MinSize(Some(1))));
                }
                Some(k) => {
                    v.push(("minsize.none<->some".into(), MinSize(None)));
                    v.push(("minsize.k+1".into(), MinSize(Some(k + 1))));
                    if k > 1 {
                        v.push(("minsize.k-1".into(), MinSize(Some(k - 1))));
                    }
                }
            }
            v.push(("variant->cab".into(), ConstantArityBits(o.unwrap_or(2).max(1), 1)));
            v.push(("variant->fixed".into(), Fixed(vec![o.unwrap_or(2)])));
        }
    }
    v.retain(|(_, t)| t != s);
    v
}
/// strategies that are different values but are serialised identically by the crate (reported, see c04.py)
fn strategy_encoding_probe() -> Value {
    use FriReductionStrategy::*;
    let a = MinSize(None).serialize::<F>();
    let b = MinSize(Some(0)).serialize::<F>();
    json!({"MinSize(None) vs MinSize(Some(0)) serialise identically": a == b})
}
fn perturb_strategy(s: &mut FriReductionStrategy, i: usize) -> bool {
    match strategy_perturbations(s).into_iter().nth(i) {
        Some((_, t)) => {
            *s = t;
            true
        }
        None => false,
    }
}
fn perturb_fri_config(c: &mut FriConfig, class: &str, i: usize) -> bool {
    match class {
        "fri.rate_bits" => c.rate_bits += 1,
        "fri.cap_height" => c.cap_height += 1,
        "fri.proof_of_work_bits" => c.proof_of_work_bits += 1,
        "fri.num_query_rounds" => c.num_query_rounds += 1,
        "fri.reduction_strategy" => return perturb_strategy(&mut c.reduction_strategy, i),
        _ => return false,
    }
    true
}
fn fri_chal(out: &mut Chal, fc: &plonky2::fri::proof::FriChallenges<F, D>) {
    out.insert("fri_alpha".into(), ext_words(&fc.fri_alpha));
    for (l, b) in fc.fri_betas.iter().enumerate() {
        out.insert(format!("fri_betas.{}", l + 1), ext_words(b));
    }
    out.insert("fri_pow_response".into(), vec![fc.fri_pow_response.to_canonical_u64()]);
    out.insert("fri_query_indices".into(), fc.fri_query_indices.iter().map(|x| *x as u64).collect());
}

// =============================================================================================
// PLONK
// =============================================================================================
struct Ti<C: GenericConfig<D, F = F>> {
    common: CommonCircuitData<F, D>,
    digest: <C::Hasher as Hasher<F>>::Hash,
    pi_hash: Option<<C::InnerHasher as Hasher<F>>::Hash>, // None: recomputed from the public inputs
    proof: ProofWithPublicInputs<F, C, D>,
}
impl<C: GenericConfig<D, F = F>> Clone for Ti<C> {
    fn clone(&self) -> Self {
        Self { common: self.common.clone(), digest: self.digest, pi_hash: self.pi_hash, proof: self.proof.clone() }
    }
}

fn plonk_challenges<C: GenericConfig<D, F = F>>(ti: &Ti<C>) -> Result<Chal, String> {
    let r = guarded(|| {
        let pih = ti.pi_hash.unwrap_or_else(|| ti.proof.get_public_inputs_hash());
        ti.proof.get_challenges(pih, &ti.digest, &ti.common).map_err(|e| format!("{e:#}"))
    });
    let c = match r {
        Ok(Ok(c)) => c,
        Ok(Err(e)) => return Err(format!("err: {e}")),
        Err(p) => return Err(format!("panic: {p}")),
    };
    let mut out = Chal::new();
    let fs = |v: &Vec<F>| v.iter().map(|x| x.to_canonical_u64()).collect::<Vec<u64>>();
    out.insert("plonk_betas".into(), fs(&c.plonk_betas));
    out.insert("plonk_gammas".into(), fs(&c.plonk_gammas));
    out.insert("plonk_alphas".into(), fs(&c.plonk_alphas));
    if !c.plonk_deltas.is_empty() {
        out.insert("plonk_deltas".into(), fs(&c.plonk_deltas));
    }
    out.insert("plonk_zeta".into(), ext_words(&c.plonk_zeta));
    fri_chal(&mut out, &c.fri_challenges);
    Ok(out)
}

fn opening_vec<'a>(o: &'a mut plonky2::plonk::proof::OpeningSet<F, D>, name: &str) -> Option<&'a mut Vec<FE>> {
    Some(match name {
        "constants" => &mut o.constants,
        "plonk_sigmas" => &mut o.plonk_sigmas,
        "wires" => &mut o.wires,
        "plonk_zs" => &mut o.plonk_zs,
        "partial_products" => &mut o.partial_products,
        "quotient_polys" => &mut o.quotient_polys,
        "lookup_zs" => &mut o.lookup_zs,
        "plonk_zs_next" => &mut o.plonk_zs_next,
        "lookup_zs_next" => &mut o.lookup_zs_next,
        _ => return None,
    })
}
const PLONK_OPENINGS: [&str; 9] = ["constants", "plonk_sigmas", "wires", "plonk_zs", "partial_products", "quotient_polys",
                                   "lookup_zs", "plonk_zs_next", "lookup_zs_next"];

/// the component classes of a PLONK transcript with their number of atoms (field elements)
fn plonk_classes<C: GenericConfig<D, F = F>>(ti: &Ti<C>) -> Vec<(String, usize)> {
    let fp = &ti.common.fri_params;
    let mut v: Vec<(String, usize)> = vec![
        ("fri.rate_bits".into(), 1), ("fri.cap_height".into(), 1), ("fri.proof_of_work_bits".into(), 1),
        ("fri.reduction_strategy".into(), strategy_perturbations(&fp.config.reduction_strategy).len()),
        ("fri.num_query_rounds".into(), 1), ("fri.hiding".into(), 1), ("fri.degree_bits".into(), 1),
        ("fri.reduction_arity_bits".into(), fp.reduction_arity_bits.len()),
        ("circuit_digest".into(), hash_atoms(&ti.digest)), ("public_inputs_hash".into(), 4),
        ("public_input".into(), ti.proof.public_inputs.len()),
        ("wires_cap".into(), cap_atoms(&ti.proof.proof.wires_cap)),
        ("plonk_zs_partial_products_cap".into(), cap_atoms(&ti.proof.proof.plonk_zs_partial_products_cap)),
        ("quotient_polys_cap".into(), cap_atoms(&ti.proof.proof.quotient_polys_cap)),
    ];
    let mut o = ti.proof.proof.openings.clone();
    for n in PLONK_OPENINGS {
        v.push((format!("openings.{n}"), opening_vec(&mut o, n).unwrap().len() * D));
    }
    for (l, c) in ti.proof.proof.opening_proof.commit_phase_merkle_caps.iter().enumerate() {
        v.push((format!("commit_cap.{}", l + 1), cap_atoms(c)));
    }
    v.push(("final_poly".into(), ti.proof.proof.opening_proof.final_poly.coeffs.len() * D));
    v.push(("pow_witness".into(), 1));
    v
}

fn cap_atoms<H: Hasher<F>>(cap: &MerkleCap<F, H>) -> usize {
    cap.0.first().map_or(0, |h| hash_atoms(h)) * cap.0.len()
}
fn perturb_cap<H: Hasher<F>>(cap: &mut MerkleCap<F, H>, i: usize) {
    let n = hash_atoms(&cap.0[0]);
    cap.0[i / n] = flip_hash(&cap.0[i / n], i % n);
}

fn plonk_perturb<C: GenericConfig<D, F = F>>(ti: &mut Ti<C>, class: &str, i: usize) -> bool {
    let p = &mut ti.proof.proof;
    match class {
        "fri.rate_bits" | "fri.cap_height" | "fri.proof_of_work_bits" | "fri.num_query_rounds" | "fri.reduction_strategy" => {
            // one logical parameter, stored twice: FriParams.config is the copy that is ABSORBED, CircuitConfig.fri_config
            // is what fri_challenges reads for the number / range of query indices.  The judged perturbation edits the
            // absorbed copy only (the consistent edit of both is reported under not_components).
            return perturb_fri_config(&mut ti.common.fri_params.config, class, i);
        }
        "fri.hiding" => ti.common.fri_params.hiding = !ti.common.fri_params.hiding,
        "fri.degree_bits" => ti.common.fri_params.degree_bits += 1,
        "fri.reduction_arity_bits" => ti.common.fri_params.reduction_arity_bits[i] += 1,
        "circuit_digest" => ti.digest = flip_hash(&ti.digest, i),
        "public_inputs_hash" => {
            let h = ti.pi_hash.unwrap_or_else(|| ti.proof.get_public_inputs_hash());
            ti.pi_hash = Some(flip_hash(&h, i));
        }
        "public_input" => ti.proof.public_inputs[i] = bump(ti.proof.public_inputs[i]),
        "wires_cap" => perturb_cap(&mut p.wires_cap, i),
        "plonk_zs_partial_products_cap" => perturb_cap(&mut p.plonk_zs_partial_products_cap, i),
        "quotient_polys_cap" => perturb_cap(&mut p.quotient_polys_cap, i),
        "final_poly" => bump_ext(&mut p.opening_proof.final_poly.coeffs[i / D], i % D),
        "pow_witness" => p.opening_proof.pow_witness = bump(p.opening_proof.pow_witness),
        _ => {
            if let Some(n) = class.strip_prefix("openings.") {
                match opening_vec(&mut p.openings, n) {
                    Some(v) => bump_ext(&mut v[i / D], i % D),
                    None => return false,
                }
            } else if let Some(l) = class.strip_prefix("commit_cap.") {
                let l: usize = l.parse().unwrap_or(0);
                if l == 0 || l > p.opening_proof.commit_phase_merkle_caps.len() {
                    return false;
                }
                perturb_cap(&mut p.opening_proof.commit_phase_merkle_caps[l - 1], i);
            } else {
                return false;
            }
        }
    }
    true
}

/// field elements of a component class as the transcript sees them
fn plonk_elements<C: GenericConfig<D, F = F>>(ti: &Ti<C>, class: &str) -> Option<Vec<F>> {
    let fp = &ti.common.fri_params;
    let p = &ti.proof.proof;
    let us = |x: usize| vec![F::from_canonical_usize(x)];
    let cap = |c: &MerkleCap<F, C::Hasher>| c.0.iter().flat_map(|h| h.to_vec()).collect::<Vec<F>>();
    let exts = |v: &Vec<FE>| v.iter().flat_map(|e| <FE as FieldExtension<D>>::to_basefield_array(e).to_vec()).collect::<Vec<F>>();
    Some(match class {
        "fri.rate_bits" => us(fp.config.rate_bits),
        "fri.cap_height" => us(fp.config.cap_height),
        "fri.proof_of_work_bits" => us(fp.config.proof_of_work_bits as usize),
        "fri.reduction_strategy" => fp.config.reduction_strategy.serialize::<F>(),
        "fri.num_query_rounds" => us(fp.config.num_query_rounds),
        "fri.hiding" => vec![F::from_bool(fp.hiding)],
        "fri.degree_bits" => us(fp.degree_bits),
        "fri.reduction_arity_bits" => fp.reduction_arity_bits.iter().map(|x| F::from_canonical_usize(*x)).collect(),
        "circuit_digest" => ti.digest.to_vec(),
        "public_inputs_hash" => ti.pi_hash.unwrap_or_else(|| ti.proof.get_public_inputs_hash()).to_vec(),
        "wires_cap" => cap(&p.wires_cap),
        "plonk_zs_partial_products_cap" => cap(&p.plonk_zs_partial_products_cap),
        "quotient_polys_cap" => cap(&p.quotient_polys_cap),
        "final_poly" => exts(&p.opening_proof.final_poly.coeffs),
        "pow_witness" => vec![p.opening_proof.pow_witness],
        _ => {
            if let Some(n) = class.strip_prefix("openings.") {
                let mut o = p.openings.clone();
                exts(opening_vec(&mut o, n)?)
            } else if let Some(l) = class.strip_prefix("commit_cap.") {
                let l: usize = l.parse().ok()?;
                cap(p.opening_proof.commit_phase_merkle_caps.get(l.checked_sub(1)?)?)
            } else {
                return None;
            }
        }
    })
}

/// Re-execute TLC's program (spec/Transcript.tla `FullSchedule`) on a fresh challenger.
fn run_program<H: Hasher<F>>(prog: &Value, elements: &dyn Fn(&str) -> Option<Vec<F>>, lde_size: usize) -> Result<Chal, Value> {
    let mut ch = Challenger::<F, H>::new();
    let mut out = Chal::new();
    for s in prog.as_array().ok_or_else(|| json!({"program_error": "no program"}))? {
        let class = s["class"].as_str().unwrap_or("");
        let n = s["n"].as_u64().unwrap_or(0) as usize;
        if n == 0 {
            continue;
        }
        if s["k"] == "O" {
            let els = elements(class).ok_or_else(|| json!({"program_error": format!("program observes unknown class {class}")}))?;
            if els.len() != n {
                // the specification absorbs n elements of this component, the code (its own serialisation) m
                return Err(json!({"count_mismatch": {"class": class, "specification": n, "code": els.len()}}));
            }
            ch.observe_elements(&els);
        } else {
            let v: Vec<u64> = (0..n).map(|_| ch.get_challenge().to_canonical_u64()).collect();
            let v = if class == "fri_query_indices" { v.iter().map(|x| (*x as usize % lde_size) as u64).collect() } else { v };
            out.entry(class.to_string()).or_default().extend(v);
        }
    }
    Ok(out)
}

struct PlonkCase {
    name: &'static str,
    config: CircuitConfig,
    log_rows: usize,
    lookups: bool,
    npi: usize,
}

fn plonk_cases(thorough: bool) -> Vec<PlonkCase> {
    let std = CircuitConfig::standard_recursion_config();
    let mut v = vec![];
    // standard recursion config: nc 2, cap 4, rate 3, ConstantArityBits(4,5), 28 queries, 2 FRI layers
    v.push(PlonkCase { name: "std", config: std.clone(), log_rows: 12, lookups: false, npi: 3 });
    // one challenge, zero knowledge (hiding), binary folding, small caps.  (zk needs a strategy whose final
    // polynomial does not grow with the degree: with Fixed([..]) `blinding_counts` never reaches its fixed point)
    let mut c = CircuitConfig::standard_recursion_zk_config();
    c.num_challenges = 1;
    c.fri_config = FriConfig { rate_bits: 3, cap_height: 1, proof_of_work_bits: 6, reduction_strategy: FriReductionStrategy::ConstantArityBits(1, 3), num_query_rounds: 12 };
    v.push(PlonkCase { name: "nc1-zk-cab13", config: c, log_rows: 8, lookups: false, npi: 2 });
    // explicit arities
    let mut c = std.clone();
    c.fri_config = FriConfig { rate_bits: 3, cap_height: 1, proof_of_work_bits: 6, reduction_strategy: FriReductionStrategy::Fixed(vec![1, 2, 1]), num_query_rounds: 12 };
    v.push(PlonkCase { name: "fixed-121", config: c, log_rows: 8, lookups: false, npi: 2 });
    // three challenges, lookups, MinSize
    let mut c = std.clone();
    c.num_challenges = 3;
    c.fri_config = FriConfig { rate_bits: 3, cap_height: 2, proof_of_work_bits: 8, reduction_strategy: FriReductionStrategy::MinSize(None), num_query_rounds: 16 };
    v.push(PlonkCase { name: "nc3-lookup-minsize", config: c, log_rows: 9, lookups: true, npi: 1 });
    // no FRI commit layers, cap height 0, no public inputs
    let mut c = std.clone();
    c.fri_config = FriConfig { rate_bits: 4, cap_height: 0, proof_of_work_bits: 4, reduction_strategy: FriReductionStrategy::Fixed(vec![]), num_query_rounds: 10 };
    v.push(PlonkCase { name: "nolayers-cap0-nopi", config: c, log_rows: 5, lookups: false, npi: 0 });
    // lookups with the standard parameters
    v.push(PlonkCase { name: "std-lookup", config: std.clone(), log_rows: 10, lookups: true, npi: 4 });
    if thorough {
        let mut c = std.clone();
        c.zero_knowledge = true;
        c.fri_config.reduction_strategy = FriReductionStrategy::MinSize(Some(3));
        v.push(PlonkCase { name: "zk-lookup-minsize3", config: c, log_rows: 11, lookups: true, npi: 2 });
        let mut c = std.clone();
        c.num_challenges = 3;
        // (rate_bits >= log2(quotient degree factor 8), otherwise the prover's FFT panics on its root table)
        c.fri_config = FriConfig { rate_bits: 3, cap_height: 3, proof_of_work_bits: 10, reduction_strategy: FriReductionStrategy::ConstantArityBits(2, 3), num_query_rounds: 30 };
        v.push(PlonkCase { name: "nc3-cab23", config: c, log_rows: 10, lookups: false, npi: 5 });
        let mut c = std.clone();
        c.num_challenges = 1;
        c.fri_config = FriConfig { rate_bits: 5, cap_height: 5, proof_of_work_bits: 12, reduction_strategy: FriReductionStrategy::Fixed(vec![3, 3]), num_query_rounds: 9 };
        v.push(PlonkCase { name: "nc1-rate5-cap5", config: c, log_rows: 9, lookups: true, npi: 1 });
        v.push(PlonkCase { name: "std-large", config: std.clone(), log_rows: 13, lookups: false, npi: 8 });
    }
    v
}

fn build_and_prove<C: GenericConfig<D, F = F>>(case: &PlonkCase, salt: u64) -> anyhow::Result<Ti<C>> {
    // the builder asserts q * rate_bits + pow_bits >= security_bits: declare what the parameters give
    let mut config = case.config.clone();
    let fc_ = &config.fri_config;
    config.security_bits = config.security_bits.min(fc_.num_query_rounds * fc_.rate_bits + fc_.proof_of_work_bits as usize);
    let mut b = CircuitBuilder::<F, D>::new(config);
    let mut pw = PartialWitness::<F>::new();
    let mut r = rng(400 + salt);
    use rand::Rng;
    let x = b.add_virtual_target();
    pw.set_target(x, fc(r.gen()))?;
    let mut acc = x;
    for k in 0..case.npi {
        acc = b.mul(acc, x);
        let c = b.constant(fc(k as u64 + 3));
        acc = b.add(acc, c);
        b.register_public_input(acc);
    }
    if case.lookups {
        let table: Arc<Vec<(u16, u16)>> = Arc::new((0..32u16).map(|i| (i, (i * 7 + 3) % 61)).collect());
        let idx = b.add_lookup_table_from_pairs(table);
        for k in 0..5u64 {
            let t = b.add_virtual_target();
            pw.set_target(t, fc((k * 5 + salt) % 32))?;
            let o = b.add_lookup_from_index(t, idx);
            acc = b.add(acc, o);
        }
        let _ = acc;
    }
    let target_rows = 1usize << case.log_rows;
    while b.num_gates() + 8 < target_rows {
        b.add_gate(NoopGate, vec![]);
    }
    let data = b.build::<C>();
    let proof = data.prove(pw)?;
    data.verify(proof.clone())?;
    Ok(Ti { common: data.common.clone(), digest: data.verifier_only.circuit_digest, pi_hash: None, proof })
}

fn matrix_of<T: Clone>(
    base: &T,
    classes: &[(String, usize)],
    chal: &dyn Fn(&T) -> Result<Chal, String>,
    perturb: &dyn Fn(&mut T, &str, usize) -> bool,
    label: &dyn Fn(&T, &str, usize) -> Option<String>,
) -> Result<(Value, Chal, u64, u64), String> {
    let c0 = chal(base)?;
    let names: Vec<String> = c0.keys().cloned().collect();
    let mut comps = serde_json::Map::new();
    let (mut evals, mut nontrivial) = (0u64, 0u64);
    for (class, n) in classes {
        let mut unchanged: BTreeMap<String, u64> = names.iter().map(|k| (k.clone(), 0)).collect();
        let mut changed: BTreeMap<String, u64> = names.iter().map(|k| (k.clone(), 0)).collect();
        let mut example: BTreeMap<String, u64> = BTreeMap::new();
        let (mut done, mut errors, mut skipped) = (0u64, 0u64, 0u64);
        let mut first_err = Value::Null;
        let mut params: Vec<Value> = vec![];
        for i in 0..*n {
            let mut t = base.clone();
            let lab = label(base, class, i);
            if !perturb(&mut t, class, i) {
                skipped += 1;
                continue;
            }
            evals += 1;
            match chal(&t) {
                Err(e) => {
                    errors += 1;
                    if let Some(l) = &lab {
                        params.push(json!({"param": l, "comparable": false, "error": e}));
                    }
                    if first_err.is_null() {
                        first_err = json!(e);
                    }
                }
                Ok(c1) => {
                    done += 1;
                    nontrivial += 1;
                    if let Some(l) = &lab {
                        let un: Vec<&String> = names.iter().filter(|k| c1.get(*k) == c0.get(*k)).collect();
                        params.push(json!({"param": l, "comparable": true, "unchanged": un}));
                    }
                    for k in &names {
                        if c1.get(k) == c0.get(k) {
                            *unchanged.get_mut(k).unwrap() += 1;
                            example.entry(k.clone()).or_insert(i as u64);
                        } else {
                            *changed.get_mut(k).unwrap() += 1;
                        }
                    }
                }
            }
        }
        comps.insert(class.clone(), json!({"atoms": n, "perturbed": done, "not_comparable": errors, "skipped": skipped,
            "first_error": first_err, "unchanged": unchanged, "changed": changed, "unchanged_example_atom": example,
            "params": params}));
    }
    Ok((json!({"challenges": names, "components": comps}), c0, evals, nontrivial))
}

fn plonk_cfg_record<C: GenericConfig<D, F = F>>(ti: &Ti<C>) -> Value {
    let fp = &ti.common.fri_params;
    let o = &ti.proof.proof.openings;
    json!({
        "nc": ti.common.config.num_challenges,
        "lookups": ti.common.num_lookup_polys != 0,
        "layers": ti.proof.proof.opening_proof.commit_phase_merkle_caps.len(),
        "capn": ti.proof.proof.wires_cap.0.len(),
        "strat": strat_name(&fp.config.reduction_strategy),
        "narity": fp.reduction_arity_bits.len(),
        "npi": ti.proof.public_inputs.len(),
        "q": ti.common.config.fri_config.num_query_rounds,
        "nfinal": ti.proof.proof.opening_proof.final_poly.coeffs.len(),
        "nconst": o.constants.len(), "nsigma": o.plonk_sigmas.len(), "nwires": o.wires.len(), "nzs": o.plonk_zs.len(),
        "npp": o.partial_products.len(), "nquot": o.quotient_polys.len(), "nlook": o.lookup_zs.len(),
    })
}

fn plonk_one<C: GenericConfig<D, F = F>>(case: &PlonkCase, hasher: &str, programs: &[Value], only_cfg: bool, salt: u64) -> anyhow::Result<Value> {
    let ti = build_and_prove::<C>(case, salt)?;
    let cfg = plonk_cfg_record(&ti);
    let lde_bits = ti.common.fri_params.degree_bits + ti.common.fri_params.config.rate_bits;
    let mut out = json!({"kind": "c04-case", "system": "plonk", "config": format!("{}/{}", case.name, hasher), "cfg": cfg,
                         "lde_bits": lde_bits, "degree_bits": ti.common.fri_params.degree_bits});
    if only_cfg {
        return Ok(out);
    }
    let classes = plonk_classes(&ti);
    let (m, c0, evals, nontrivial) = matrix_of(&ti, &classes, &|t| plonk_challenges(t), &|t, c, i| plonk_perturb(t, c, i),
        &|t, c, i| if c == "fri.reduction_strategy" { strategy_perturbations(&t.common.fri_params.config.reduction_strategy).get(i).map(|x| x.0.clone()) } else { None }).map_err(|e| anyhow::anyhow!(e))?;
    out["matrix"] = m;
    out["evaluations"] = json!(evals);
    out["nontrivial"] = json!(nontrivial);
    // fields that are NOT transcript components (reported, never judged): the second copy of the FRI
    // configuration and the circuit configuration outside it
    let mut info = serde_json::Map::new();
    for (what, edit) in [
        ("config.num_challenges+1", Box::new(|t: &mut Ti<C>| t.common.config.num_challenges += 1) as Box<dyn Fn(&mut Ti<C>)>),
        ("config.fri_config.rate_bits+1 (unabsorbed copy only)", Box::new(|t: &mut Ti<C>| t.common.config.fri_config.rate_bits += 1)),
        ("config.fri_config.num_query_rounds+1 (unabsorbed copy only)", Box::new(|t: &mut Ti<C>| t.common.config.fri_config.num_query_rounds += 1)),
        ("rate_bits+1 in both copies", Box::new(|t: &mut Ti<C>| { t.common.fri_params.config.rate_bits += 1; t.common.config.fri_config.rate_bits += 1 })),
        ("num_query_rounds+1 in both copies", Box::new(|t: &mut Ti<C>| { t.common.fri_params.config.num_query_rounds += 1; t.common.config.fri_config.num_query_rounds += 1 })),
        ("config.security_bits+1", Box::new(|t: &mut Ti<C>| t.common.config.security_bits += 1)),
        ("config.zero_knowledge flipped", Box::new(|t: &mut Ti<C>| t.common.config.zero_knowledge = !t.common.config.zero_knowledge)),
        ("num_public_inputs+1", Box::new(|t: &mut Ti<C>| t.common.num_public_inputs += 1)),
        ("quotient_degree_factor+1", Box::new(|t: &mut Ti<C>| t.common.quotient_degree_factor += 1)),
    ] {
        let mut t = ti.clone();
        edit(&mut t);
        let v = match plonk_challenges(&t) {
            Ok(c1) => json!({"changed": c0.keys().filter(|k| c1.get(*k) != c0.get(*k)).collect::<Vec<_>>()}),
            Err(e) => json!({"not_comparable": e}),
        };
        info.insert(what.to_string(), v);
    }
    out["not_components"] = Value::Object(info);
    // implementation-shaped: TLC's program on the real data
    if let Some(p) = programs.iter().find(|p| p["system"] == "plonk" && p["cfg"] == out["cfg"]) {
        let got = run_program::<C::Hasher>(&p["program"], &|c| plonk_elements(&ti, c), 1usize << lde_bits);
        let mut diffs = vec![];
        match got {
            Err(e) => diffs.push(e),
            Ok(g) => {
                for (k, v) in &c0 {
                    let want: Vec<u64> = if k == "plonk_deltas" { v[2 * ti.common.config.num_challenges..].to_vec() } else { v.clone() };
                    if g.get(k) != Some(&want) {
                        diffs.push(json!({"challenge": k, "library": want, "program": g.get(k)}));
                    }
                }
            }
        }
        out["program_replayed"] = json!(true);
        out["program_diffs"] = json!(diffs);
    } else {
        out["program_replayed"] = json!(false);
    }
    Ok(out)
}

// =============================================================================================
// STARK
// =============================================================================================
macro_rules! fib_stark {
    ($name:ident, $npi:expr, $with_pi:expr) => {
        #[derive(Copy, Clone)]
        struct $name<F2: RichField + Extendable<D2>, const D2: usize> {
            _p: PhantomData<F2>,
        }
        impl<F2: RichField + Extendable<D2>, const D2: usize> Stark<F2, D2> for $name<F2, D2> {
            type EvaluationFrame<FE2, P, const D3: usize>
                = StarkFrame<P, P::Scalar, 2, $npi>
            where
                FE2: FieldExtension<D3, BaseField = F2>,
                P: PackedField<Scalar = FE2>;
            type EvaluationFrameTarget = StarkFrame<ExtensionTarget<D2>, ExtensionTarget<D2>, 2, $npi>;

            fn eval_packed_generic<FE2, P, const D3: usize>(&self, vars: &Self::EvaluationFrame<FE2, P, D3>, yield_constr: &mut ConstraintConsumer<P>)
            where
                FE2: FieldExtension<D3, BaseField = F2>,
                P: PackedField<Scalar = FE2>,
            {
                let lv = vars.get_local_values();
                let nv = vars.get_next_values();
                if $with_pi {
                    let pi = vars.get_public_inputs();
                    yield_constr.constraint_first_row(lv[0] - pi[0]);
                    yield_constr.constraint_first_row(lv[1] - pi[1]);
                    yield_constr.constraint_last_row(lv[1] - pi[2]);
                } else {
                    yield_constr.constraint_first_row(lv[0]);
                    yield_constr.constraint_first_row(lv[1] - P::ONES);
                }
                yield_constr.constraint_transition(nv[0] - lv[1]);
                yield_constr.constraint_transition(nv[1] - lv[0] - lv[1]);
            }
            fn eval_ext_circuit(&self, _b: &mut CircuitBuilder<F2, D2>, _v: &Self::EvaluationFrameTarget, _y: &mut RecursiveConstraintConsumer<F2, D2>) {
                unimplemented!("not used by the native prover / verifier")
            }
            fn constraint_degree(&self) -> usize {
                2
            }
        }
    };
}
fib_stark!(FibPi, 3, true);
fib_stark!(FibNoPi, 0, false);
// a fourth public input (a "tag") that occurs in NO constraint: only the observe of the public inputs binds it
fib_stark!(FibTag, 4, true);

/// starky's permutation / logUp example: columns 0 and 1 are permutations of each other (lookup argument),
/// no other constraint, and ONE public input that occurs in no constraint.  Exposes the lookup challenges,
/// the first challenges drawn after the statement and the trace cap.
#[derive(Copy, Clone)]
struct PermStark<F2: RichField + Extendable<D2>, const D2: usize> {
    _p: PhantomData<F2>,
}
impl<F2: RichField + Extendable<D2>, const D2: usize> Stark<F2, D2> for PermStark<F2, D2> {
    type EvaluationFrame<FE2, P, const D3: usize>
        = StarkFrame<P, P::Scalar, 3, 1>
    where
        FE2: FieldExtension<D3, BaseField = F2>,
        P: PackedField<Scalar = FE2>;
    type EvaluationFrameTarget = StarkFrame<ExtensionTarget<D2>, ExtensionTarget<D2>, 3, 1>;
    fn constraint_degree(&self) -> usize {
        0
    }
    fn lookups(&self) -> Vec<starky::lookup::Lookup<F2>> {
        vec![starky::lookup::Lookup {
            columns: vec![starky::lookup::Column::single(0)],
            table_column: starky::lookup::Column::single(1),
            frequencies_column: starky::lookup::Column::single(2),
            filter_columns: vec![Default::default()],
        }]
    }
    fn eval_packed_generic<FE2, P, const D3: usize>(&self, _v: &Self::EvaluationFrame<FE2, P, D3>, _y: &mut ConstraintConsumer<P>)
    where
        FE2: FieldExtension<D3, BaseField = F2>,
        P: PackedField<Scalar = FE2>,
    {
    }
    fn eval_ext_circuit(&self, _b: &mut CircuitBuilder<F2, D2>, _v: &Self::EvaluationFrameTarget, _y: &mut RecursiveConstraintConsumer<F2, D2>) {}
}
fn perm_trace(rows: usize, x0: F) -> Vec<PolynomialValues<F>> {
    let mut c0 = vec![];
    let mut c1 = vec![];
    for i in 0..rows {
        c0.push(x0 + F::from_canonical_usize(i));
        c1.push(x0 + F::from_canonical_usize(i + 1));
    }
    c1[rows - 1] = x0;
    vec![PolynomialValues::new(c0), PolynomialValues::new(c1), PolynomialValues::new(vec![F::ONE; rows])]
}

#[derive(Clone, Copy, PartialEq, Eq, Debug)]
enum Kind {
    FibPi,
    FibNoPi,
    FibTag,
    Perm,
}
impl Kind {
    /// public inputs that occur in no constraint (trailing)
    fn npifree(self) -> usize {
        match self {
            Kind::FibTag | Kind::Perm => 1,
            _ => 0,
        }
    }
    fn constraint_degree(self) -> usize {
        if self == Kind::Perm { 0 } else { 2 }
    }
}
macro_rules! with_stark {
    ($kind:expr, $s:ident, $body:expr) => {
        match $kind {
            Kind::FibPi => { let $s = FibPi::<F, D> { _p: PhantomData }; $body }
            Kind::FibNoPi => { let $s = FibNoPi::<F, D> { _p: PhantomData }; $body }
            Kind::FibTag => { let $s = FibTag::<F, D> { _p: PhantomData }; $body }
            Kind::Perm => { let $s = PermStark::<F, D> { _p: PhantomData }; $body }
        }
    };
}

fn fib_trace(rows: usize, x0: F, x1: F) -> (Vec<PolynomialValues<F>>, F) {
    let mut c0 = Vec::with_capacity(rows);
    let mut c1 = Vec::with_capacity(rows);
    let (mut a, mut b) = (x0, x1);
    for _ in 0..rows {
        c0.push(a);
        c1.push(b);
        let t = a + b;
        a = b;
        b = t;
    }
    let last = c1[rows - 1];
    (vec![PolynomialValues::new(c0), PolynomialValues::new(c1)], last)
}

#[derive(Clone)]
struct Si {
    config: StarkConfig,
    proof: StarkProofWithPublicInputs<F, PC, D>,
    kind: Kind,
    /// variable-degree recursion mode: the transcript is padded to the shape of this verifier circuit
    vparams: Option<plonky2::fri::FriParams>,
}

fn stark_challenges(si: &Si) -> Result<Chal, String> {
    let r = guarded(|| {
        let mut ch = Challenger::<F, <PC as GenericConfig<D>>::Hasher>::new();
        // the library's own StarkProofWithPublicInputs::get_challenges (observes the public inputs itself)
        with_stark!(si.kind, st, si.proof.get_challenges(&st, &mut ch, None, None, false, &si.config, si.vparams.clone()))
    });
    let c = r.map_err(|p| format!("panic: {p}"))?;
    let mut out = Chal::new();
    if let Some(l) = &c.lookup_challenge_set {
        out.insert("lookup_challenges".into(), l.challenges.iter().flat_map(|g| [g.beta.to_canonical_u64(), g.gamma.to_canonical_u64()]).collect());
    }
    out.insert("stark_alphas".into(), c.stark_alphas.iter().map(|x| x.to_canonical_u64()).collect());
    out.insert("stark_zeta".into(), ext_words(&c.stark_zeta));
    fri_chal(&mut out, &c.fri_challenges);
    Ok(out)
}

fn stark_classes(si: &Si) -> Vec<(String, usize)> {
    let p = &si.proof.proof;
    let mut v: Vec<(String, usize)> = vec![
        ("public_input".into(), si.proof.public_inputs.len()),
        ("cfg.security_bits".into(), 1), ("cfg.num_challenges".into(), 1),
        ("fri.rate_bits".into(), 1), ("fri.cap_height".into(), 1), ("fri.proof_of_work_bits".into(), 1),
        ("fri.reduction_strategy".into(), strategy_perturbations(&si.config.fri_config.reduction_strategy).len()),
        ("fri.num_query_rounds".into(), 1),
        ("trace_cap".into(), p.trace_cap.0.len() * 4),
        ("degree_bits".into(), 1),
        ("auxiliary_polys_cap".into(), p.auxiliary_polys_cap.as_ref().map_or(0, |c| c.0.len() * 4)),
        ("quotient_polys_cap".into(), p.quotient_polys_cap.as_ref().map_or(0, |c| c.0.len() * 4)),
        ("openings.local_values".into(), p.openings.local_values.len() * D),
        ("openings.next_values".into(), p.openings.next_values.len() * D),
        ("openings.auxiliary_polys".into(), p.openings.auxiliary_polys.as_ref().map_or(0, |q| q.len() * D)),
        ("openings.auxiliary_polys_next".into(), p.openings.auxiliary_polys_next.as_ref().map_or(0, |q| q.len() * D)),
        ("openings.quotient_polys".into(), p.openings.quotient_polys.as_ref().map_or(0, |q| q.len() * D)),
    ];
    for (l, c) in p.opening_proof.commit_phase_merkle_caps.iter().enumerate() {
        v.push((format!("commit_cap.{}", l + 1), c.0.len() * 4));
    }
    v.push(("final_poly".into(), p.opening_proof.final_poly.coeffs.len() * D));
    v.push(("pow_witness".into(), 1));
    v
}

fn stark_perturb(si: &mut Si, class: &str, i: usize) -> bool {
    let p = &mut si.proof.proof;
    match class {
        "public_input" => si.proof.public_inputs[i] = bump(si.proof.public_inputs[i]),
        "cfg.security_bits" => si.config.security_bits += 1,
        // (with a lookup argument one challenge MORE makes get_challenges index past the helper columns of the
        // proof - a panic on an inconsistent statement, not comparable; one challenge fewer stays computable)
        "cfg.num_challenges" => {
            if si.kind == Kind::Perm && si.config.num_challenges > 1 {
                si.config.num_challenges -= 1
            } else {
                si.config.num_challenges += 1
            }
        }
        "fri.rate_bits" | "fri.cap_height" | "fri.proof_of_work_bits" | "fri.num_query_rounds" | "fri.reduction_strategy" => {
            return perturb_fri_config(&mut si.config.fri_config, class, i)
        }
        "trace_cap" => perturb_cap(&mut p.trace_cap, i),
        // the trace length is not a field of the proof: the verifier recovers it from the length of the first
        // Merkle path.  One more sibling = degree_bits + 1.
        "degree_bits" => {
            let path = &mut p.opening_proof.query_round_proofs[0].initial_trees_proof.evals_proofs[0].1;
            let h = path.siblings[0];
            path.siblings.push(h);
        }
        "quotient_polys_cap" => match p.quotient_polys_cap.as_mut() {
            Some(c) => perturb_cap(c, i),
            None => return false,
        },
        "auxiliary_polys_cap" => match p.auxiliary_polys_cap.as_mut() {
            Some(c) => perturb_cap(c, i),
            None => return false,
        },
        "openings.auxiliary_polys" => match p.openings.auxiliary_polys.as_mut() {
            Some(q) => bump_ext(&mut q[i / D], i % D),
            None => return false,
        },
        "openings.auxiliary_polys_next" => match p.openings.auxiliary_polys_next.as_mut() {
            Some(q) => bump_ext(&mut q[i / D], i % D),
            None => return false,
        },
        "openings.local_values" => bump_ext(&mut p.openings.local_values[i / D], i % D),
        "openings.next_values" => bump_ext(&mut p.openings.next_values[i / D], i % D),
        "openings.quotient_polys" => match p.openings.quotient_polys.as_mut() {
            Some(q) => bump_ext(&mut q[i / D], i % D),
            None => return false,
        },
        "final_poly" => bump_ext(&mut p.opening_proof.final_poly.coeffs[i / D], i % D),
        "pow_witness" => p.opening_proof.pow_witness = bump(p.opening_proof.pow_witness),
        _ => {
            if let Some(l) = class.strip_prefix("commit_cap.") {
                let l: usize = l.parse().unwrap_or(0);
                if l == 0 || l > p.opening_proof.commit_phase_merkle_caps.len() {
                    return false;
                }
                perturb_cap(&mut p.opening_proof.commit_phase_merkle_caps[l - 1], i);
            } else {
                return false;
            }
        }
    }
    true
}

struct StarkCase {
    name: &'static str,
    config: StarkConfig,
    log_rows: usize,
    kind: Kind,
    /// degree bits of the verifier circuit the proof is padded for (variable-degree mode)
    verifier_degree_bits: Option<usize>,
}
fn stark_cases(thorough: bool) -> Vec<StarkCase> {
    let fast = StarkConfig::standard_fast_config();
    let mut v = vec![
        StarkCase { name: "fib-pi/fast", config: fast.clone(), log_rows: 8, kind: Kind::FibPi, verifier_degree_bits: None },
        StarkCase { name: "fib-nopi/fast", config: fast.clone(), log_rows: 7, kind: Kind::FibNoPi, verifier_degree_bits: None },
        // public inputs outside every constraint; the logUp STARK also exposes the lookup challenges
        StarkCase { name: "fib-tag/fast", config: fast.clone(), log_rows: 6, kind: Kind::FibTag, verifier_degree_bits: None },
        StarkCase { name: "perm-logup/fast", config: fast.clone(), log_rows: 6, kind: Kind::Perm, verifier_degree_bits: None },
        StarkCase {
            name: "perm-logup/nc1",
            config: StarkConfig::new(40, 1, FriConfig { rate_bits: 2, cap_height: 1, proof_of_work_bits: 5, reduction_strategy: FriReductionStrategy::ConstantArityBits(1, 3), num_query_rounds: 18 }),
            log_rows: 6,
            kind: Kind::Perm,
            verifier_degree_bits: None,
        },
        StarkCase {
            name: "fib-pi/nc1-fixed",
            config: StarkConfig::new(40, 1, FriConfig { rate_bits: 2, cap_height: 1, proof_of_work_bits: 5, reduction_strategy: FriReductionStrategy::Fixed(vec![1, 2]), num_query_rounds: 18 }),
            log_rows: 7,
            kind: Kind::FibPi,
            verifier_degree_bits: None,
        },
        StarkCase {
            name: "fib-nopi/nolayers",
            config: StarkConfig::new(30, 3, FriConfig { rate_bits: 3, cap_height: 0, proof_of_work_bits: 3, reduction_strategy: FriReductionStrategy::Fixed(vec![]), num_query_rounds: 10 }),
            log_rows: 5,
            kind: Kind::FibNoPi,
            verifier_degree_bits: None,
        },
    ];
    // variable-degree mode (ConstantArityBits only; final polynomial of the verifier circuit = 2^(1 + final bits)):
    // degree 6 under a degree-8 verifier lacks one commit layer (zero-cap padding), degree 7 has a shorter final
    // polynomial (zero-coefficient padding)
    let vd = StarkConfig::new(80, 2, FriConfig { rate_bits: 1, cap_height: 4, proof_of_work_bits: 16, reduction_strategy: FriReductionStrategy::ConstantArityBits(2, 3), num_query_rounds: 84 });
    v.push(StarkCase { name: "fib-pi/vardeg-6of8", config: vd.clone(), log_rows: 6, kind: Kind::FibPi, verifier_degree_bits: Some(8) });
    v.push(StarkCase { name: "fib-nopi/vardeg-7of8", config: vd, log_rows: 7, kind: Kind::FibNoPi, verifier_degree_bits: Some(8) });
    // MinSize with and without a maximal arity (every strategy variant occurs in the quick tier)
    v.push(StarkCase {
        name: "fib-pi/minsize",
        config: StarkConfig::new(60, 2, FriConfig { rate_bits: 2, cap_height: 3, proof_of_work_bits: 10, reduction_strategy: FriReductionStrategy::MinSize(Some(3)), num_query_rounds: 25 }),
        log_rows: if thorough { 10 } else { 8 },
        kind: Kind::FibPi,
        verifier_degree_bits: None,
    });
    v.push(StarkCase {
        name: "fib-tag/minsize-none",
        config: StarkConfig::new(40, 1, FriConfig { rate_bits: 2, cap_height: 2, proof_of_work_bits: 6, reduction_strategy: FriReductionStrategy::MinSize(None), num_query_rounds: 20 }),
        log_rows: 7,
        kind: Kind::FibTag,
        verifier_degree_bits: None,
    });
    if thorough {
        v.push(StarkCase {
            name: "fib-nopi/cab",
            config: StarkConfig::new(50, 1, FriConfig { rate_bits: 1, cap_height: 2, proof_of_work_bits: 8, reduction_strategy: FriReductionStrategy::ConstantArityBits(2, 2), num_query_rounds: 42 }),
            log_rows: 9,
            kind: Kind::FibNoPi,
            verifier_degree_bits: None,
        });
    }
    v
}

fn stark_one(case: &StarkCase, only_cfg: bool, salt: u64) -> anyhow::Result<Value> {
    let rows = 1usize << case.log_rows;
    let mut timing = TimingTree::default();
    let vparams = case.verifier_degree_bits.map(|d| case.config.fri_params(d));
    let (trace, pis): (Vec<PolynomialValues<F>>, Vec<F>) = match case.kind {
        Kind::FibPi => {
            let (t, last) = fib_trace(rows, fc(3 + salt), fc(5));
            (t, vec![fc(3 + salt), fc(5), last])
        }
        Kind::FibTag => {
            let (t, last) = fib_trace(rows, fc(3 + salt), fc(5));
            (t, vec![fc(3 + salt), fc(5), last, fc(1000 + salt)])
        }
        Kind::FibNoPi => (fib_trace(rows, F::ZERO, F::ONE).0, vec![]),
        Kind::Perm => (perm_trace(rows, fc(7 + salt)), vec![fc(1000 + salt)]),
    };
    let proof = with_stark!(case.kind, st, {
        let p = starky::prover::prove::<F, PC, _, D>(st, &case.config, trace, &pis, vparams.clone(), &mut timing)?;
        starky::verifier::verify_stark_proof(st, p.clone(), &case.config, vparams.clone())?;
        p
    });
    let si = Si { config: case.config.clone(), proof, kind: case.kind, vparams: vparams.clone() };
    let p = &si.proof.proof;
    let fc_ = &si.config.fri_config;
    let degree_bits = p.recover_degree_bits(&si.config);
    let strat = &fc_.reduction_strategy;
    let narity = match strat {
        FriReductionStrategy::Fixed(v) => v.len(),
        _ => p.opening_proof.commit_phase_merkle_caps.len(),
    };
    let naux = p.openings.auxiliary_polys.as_ref().map_or(0, |q| q.len());
    // get_dummy_polys: number of simulating zetas
    let pow_degree = std::cmp::max(2, case.kind.constraint_degree() + 1);
    let nep = std::cmp::max(1, 50 / plonky2::util::log2_ceil(pow_degree) - 1);
    let nsimz = (2 * p.openings.local_values.len() + 2 * naux).div_ceil(nep);
    let cfg = json!({
        "nc": si.config.num_challenges, "npi": si.proof.public_inputs.len(), "capn": p.trace_cap.0.len(),
        "layers": p.opening_proof.commit_phase_merkle_caps.len(), "strat": strat_name(strat), "narity": narity,
        "q": fc_.num_query_rounds, "nfinal": p.opening_proof.final_poly.coeffs.len(),
        "ncols": p.openings.local_values.len(), "naux": naux,
        "nquot": p.openings.quotient_polys.as_ref().map_or(0, |q| q.len()),
        "lookups": p.auxiliary_polys_cap.is_some(), "nsimz": nsimz, "npifree": case.kind.npifree(),
        "padcaps": vparams.as_ref().map_or(0, |v| v.reduction_arity_bits.len() - p.opening_proof.commit_phase_merkle_caps.len()),
        "padfinal": vparams.as_ref().map_or(0, |v| plonky2::fri::prover::final_poly_coeff_len(v.degree_bits, &v.reduction_arity_bits)
                                                   - p.opening_proof.final_poly.coeffs.len()),
    });
    let mut out = json!({"kind": "c04-case", "system": "stark", "config": case.name, "cfg": cfg,
                         "lde_bits": degree_bits + fc_.rate_bits, "degree_bits": degree_bits});
    if only_cfg {
        return Ok(out);
    }
    let classes = stark_classes(&si);
    let (m, _c0, evals, nontrivial) = matrix_of(&si, &classes, &stark_challenges, &|t, c, i| stark_perturb(t, c, i),
        &|t, c, i| if c == "fri.reduction_strategy" { strategy_perturbations(&t.config.fri_config.reduction_strategy).get(i).map(|x| x.0.clone()) } else { None }).map_err(|e| anyhow::anyhow!(e))?;
    out["matrix"] = m;
    out["evaluations"] = json!(evals);
    out["nontrivial"] = json!(nontrivial);
    out["program_replayed"] = json!(false);
    out["strategy_encoding_probe"] = strategy_encoding_probe();
    Ok(out)
}

fn cases(args: &[String], only_cfg: bool) -> anyhow::Result<()> {
    let thorough = opt(args, "--tier") == Some("thorough");
    let reps = opt_usize(args, "--reps", 1);
    let programs: Vec<Value> = match opt(args, "--programs") {
        Some(p) => std::fs::read_to_string(p)?.lines().filter(|l| !l.trim().is_empty()).map(serde_json::from_str).collect::<Result<_, _>>()?,
        None => vec![],
    };
    let only = opt(args, "--only");
    for rep in 0..reps as u64 {
        for case in plonk_cases(thorough) {
            if only.is_some() && only != Some(case.name) {
                continue;
            }
            eprintln!("[c04] plonk case {}", case.name);
            emit(&plonk_one::<PC>(&case, "poseidon", &programs, only_cfg, rep)?);
            if case.name == "std" || case.name == "nc3-lookup-minsize" || (thorough && case.name == "nc1-zk-cab13") {
                emit(&plonk_one::<KC>(&case, "keccak", &programs, only_cfg, rep)?);
            }
            if only_cfg && rep > 0 {
                break;
            }
        }
        for case in stark_cases(thorough) {
            if only.is_some() && only != Some(case.name) {
                continue;
            }
            eprintln!("[c04] stark case {}", case.name);
            emit(&stark_one(&case, only_cfg, rep)?);
        }
        if only_cfg {
            break;
        }
    }
    Ok(())
}

fn main() -> std::process::ExitCode {
    vh::util::run_main(|cmd, rest| match cmd {
        "cfgs" => cases(rest, true),
        "matrix" => cases(rest, false),
        other => Err(anyhow::anyhow!("unknown command {other}")),
    })
}
