//! C07 — every value a gate computes is pinned by its constraints.
//!
//! `gates --cat <catalogue.ndjson>`: for every catalogue entry printed by spec/MCGates (gate kind,
//! parameters, layout / counts / roles derived by the specification) the REAL gate is built, its
//! own generators are run on boundary-rich inputs (the written set is what the generators
//! actually wrote), all evaluators (extension, base batch / packed, in-circuit) are evaluated on the
//! honest row, on every single-wire perturbation of a generator-written (or builder-filled) wire
//! and on random rows, the number of constraints is compared with `num_constraints()` and the
//! degree measured along random lines (finite differences).  Constraint vectors of the cheap gates
//! are logged as events for TLC (spec/GateLogTrace.tla).
use std::sync::Arc;

use plonky2::field::extension::quadratic::QuadraticExtension;
use plonky2::field::extension::FieldExtension;
use plonky2::field::types::{Field, PrimeField64};
use plonky2::gates::arithmetic_base::ArithmeticGate;
use plonky2::gates::arithmetic_extension::ArithmeticExtensionGate;
use plonky2::gates::base_sum::BaseSumGate;
use plonky2::gates::constant::ConstantGate;
use plonky2::gates::coset_interpolation::CosetInterpolationGate;
use plonky2::gates::exponentiation::ExponentiationGate;
use plonky2::gates::gate::GateRef;
use plonky2::gates::lookup::LookupGate;
use plonky2::gates::lookup_table::LookupTableGate;
use plonky2::gates::multiplication_extension::MulExtensionGate;
use plonky2::gates::noop::NoopGate;
use plonky2::gates::poseidon::PoseidonGate;
use plonky2::gates::poseidon_mds::PoseidonMdsGate;
use plonky2::gates::public_input::PublicInputGate;
use plonky2::gates::random_access::RandomAccessGate;
use plonky2::gates::reducing::ReducingGate;
use plonky2::gates::reducing_extension::ReducingExtensionGate;
use plonky2::hash::hash_types::{HashOut, HashOutTarget};
use plonky2::iop::ext_target::ExtensionTarget;
use plonky2::iop::generator::{generate_partial_witness, GeneratedValues};
use plonky2::iop::target::Target;
use plonky2::iop::wire::Wire;
use plonky2::iop::witness::{PartialWitness, PartitionWitness, Witness, WitnessWrite};
use plonky2::plonk::circuit_builder::CircuitBuilder;
use plonky2::plonk::circuit_data::{CircuitConfig, CircuitData};
use plonky2::plonk::config::PoseidonGoldilocksConfig;
use plonky2::plonk::vars::{EvaluationTargets, EvaluationVars, EvaluationVarsBaseBatch};
use rand::Rng;
use rand_chacha::ChaCha8Rng;
use serde_json::{json, Value};

use vh::util::*;

const D: usize = 2;
type C = PoseidonGoldilocksConfig;
type FE = QuadraticExtension<F>;
type G = GateRef<F, D>;

fn gu(g: &Value, k: &str) -> usize {
    g[k].as_u64().unwrap_or(0) as usize
}

fn lut_twin() -> Arc<Vec<(u16, u16)>> {
    Arc::new((0..5u16).map(|i| (i * 3 + 2, i * 7 + 1)).collect())
}

macro_rules! base_sum {
    ($b:expr, $l:expr, $($B:literal),*) => {
        match $b { $($B => Some(GateRef::new(BaseSumGate::<$B>::new($l))),)* _ => None }
    };
}

/// the real gate for a catalogue entry
fn make_gate(g: &Value) -> Result<G, String> {
    let kind = g["kind"].as_str().unwrap_or("");
    let n = gu(g, "n");
    Ok(match kind {
        "arith" => GateRef::new(ArithmeticGate { num_ops: n }),
        "arithext" => GateRef::new(ArithmeticExtensionGate::<D> { num_ops: n }),
        "mulext" => GateRef::new(MulExtensionGate::<D> { num_ops: n }),
        "basesum" => base_sum!(gu(g, "b"), gu(g, "l"), 2, 3, 4, 8, 16).ok_or("unsupported base")?,
        "constant" => GateRef::new(ConstantGate::new(n)),
        "expo" => GateRef::new(ExponentiationGate::<F, D>::new(n)),
        "ra" => {
            let (bits, copies, extra) = (gu(g, "bits"), gu(g, "copies"), gu(g, "extra"));
            let vs = 1usize << bits;
            let mut cfg = CircuitConfig::standard_recursion_config();
            cfg.num_routed_wires = (2 + vs) * copies + extra;
            cfg.num_wires = (2 + vs + bits) * copies + extra;
            cfg.num_constants = extra;
            let gate = RandomAccessGate::<F, D>::new_from_config(&cfg, bits);
            if gate.bits != bits || gate.num_copies != copies || gate.num_extra_constants != extra {
                return Err(format!("new_from_config gave bits={} copies={} extra={}", gate.bits, gate.num_copies, gate.num_extra_constants));
            }
            GateRef::new(gate)
        }
        "reducing" => GateRef::new(ReducingGate::<D>::new(n)),
        "reducingext" => GateRef::new(ReducingExtensionGate::<D>::new(n)),
        "mds" => {
            if gu(g, "w") != 12 {
                return Err("the real PoseidonMdsGate has width 12".into());
            }
            GateRef::new(PoseidonMdsGate::<F, D>::new())
        }
        "pi" => GateRef::new(PublicInputGate),
        "noop" => GateRef::new(NoopGate),
        "lookup" => {
            let mut cfg = CircuitConfig::standard_recursion_config();
            cfg.num_routed_wires = 2 * gu(g, "slots");
            GateRef::new(LookupGate::new_from_table(&cfg, lut_twin()))
        }
        "lookuptable" => {
            let mut cfg = CircuitConfig::standard_recursion_config();
            cfg.num_routed_wires = 3 * gu(g, "slots");
            // last_lut_row is chosen so that row 0 holds the first slots of the table
            let rows = lut_twin().len().div_ceil(gu(g, "slots"));
            let _ = rows;
            GateRef::new(LookupTableGate::new_from_table(&cfg, lut_twin(), 0))
        }
        "coset" => {
            let mut gate = CosetInterpolationGate::<F, D>::new(gu(g, "bits"));
            gate.degree = gu(g, "deg");
            GateRef::new(gate)
        }
        "poseidon" => {
            if (gu(g, "w"), gu(g, "hf"), gu(g, "np"), gu(g, "blk"), gu(g, "alpha")) != (12, 4, 22, 4, 7) {
                return Err("the real PoseidonGate is (12, 4, 22, 4, x^7)".into());
            }
            GateRef::new(PoseidonGate::<F, D>::new())
        }
        _ => return Err(format!("unknown kind {kind}")),
    })
}

// ------------------------------------------------------------------------------------------
// value classes
// ------------------------------------------------------------------------------------------
const BOUNDARY: [u64; 8] = [0, 1, P - 1, 1 << 32, (1 << 32) - 1, P - 2, 2, (1 << 63) + 5];

fn any_value(rng: &mut ChaCha8Rng, class: usize) -> F {
    match class % 10 {
        k if k < 6 => fc(BOUNDARY[k]),
        6 => fc(BOUNDARY[rng.gen_range(0..BOUNDARY.len())]),
        _ => fc(rng.gen::<u64>()),
    }
}

/// b^l capped at p (the admissible sums of a base-sum gate are 0 .. min(b^l, p) - 1)
fn pow_cap(b: u64, l: u64) -> u64 {
    let mut acc: u128 = 1;
    for _ in 0..l {
        acc *= b as u128;
        if acc >= P as u128 {
            return P;
        }
    }
    acc as u64
}

fn input_value(rng: &mut ChaCha8Rng, spec: &Value, gate: &Value, style: usize, pos: usize) -> F {
    let dom = spec["dom"].as_str().unwrap_or("any");
    let below = |rng: &mut ChaCha8Rng, n: u64, style: usize| -> F {
        match style % 4 {
            0 => F::ZERO,
            1 => fc(n - 1),
            _ => fc(rng.gen_range(0..n)),
        }
    };
    match dom {
        "bool" => match style % 5 {
            0 => F::ZERO,
            1 => F::ONE,
            _ => fc(rng.gen_range(0..2u64)),
        },
        "nz" => match style % 5 {
            0 => F::ONE,
            1 => fc(P - 1),
            2 => fc(1 << 32),
            3 => F::MULTIPLICATIVE_GROUP_GENERATOR,
            _ => fc(rng.gen_range(1..P)),
        },
        "lt" => below(rng, spec["n"].as_u64().unwrap_or(1), style + pos),
        "ltpow" => below(rng, pow_cap(gu(gate, "b") as u64, spec["n"].as_u64().unwrap_or(1)), style),
        "lut" => {
            let l = lut_twin();
            fc(l[(style + pos) % l.len()].0 as u64)
        }
        _ => match style {
            0 => F::ZERO,
            1 => F::ONE,
            2 => fc(P - 1),
            _ => { let k = rng.gen_range(0..10); any_value(rng, k) }
        },
    }
}

// ------------------------------------------------------------------------------------------
// running the gate's own generators on one row
// ------------------------------------------------------------------------------------------
struct Generated {
    row: Vec<F>,
    written: Vec<usize>,
    unfinished: usize,
    errors: Vec<String>,
}

fn run_generators(gate: &G, consts: &[F], inputs: &[(usize, F)], filled: &[(usize, F)]) -> Generated {
    let nw = gate.0.num_wires();
    let rep: Vec<usize> = (0..nw.max(1)).collect();
    let mut w = PartitionWitness::new(nw, 1, &rep);
    let mut errors = vec![];
    for &(col, v) in inputs.iter().chain(filled.iter()) {
        if let Err(e) = w.set_target(Target::wire(0, col), v) {
            errors.push(format!("input {col}: {e}"));
        }
    }
    let gens = gate.0.generators(0, consts);
    let mut done = vec![false; gens.len()];
    let mut written = vec![];
    loop {
        let mut progress = false;
        for (i, gen) in gens.iter().enumerate() {
            if done[i] {
                continue;
            }
            let mut buf = GeneratedValues::empty();
            let fin = gen.0.run(&w, &mut buf);
            for (t, v) in buf.target_values.drain(..) {
                if let Target::Wire(Wire { row: 0, column }) = t {
                    if !written.contains(&column) {
                        written.push(column);
                    }
                } else {
                    errors.push(format!("generator {} wrote outside its row: {:?}", gen.0.id(), t));
                    continue;
                }
                match w.set_target_returning_rep(t, v) {
                    Ok(Some(_)) => progress = true,
                    Ok(None) => {}
                    Err(e) => errors.push(format!("generator {}: {e}", gen.0.id())),
                }
            }
            if fin {
                done[i] = true;
                progress = true;
            }
        }
        if !progress {
            break;
        }
    }
    let row = (0..nw).map(|c| w.try_get_target(Target::wire(0, c)).unwrap_or(F::ZERO)).collect();
    written.sort_unstable();
    Generated { row, written, unfinished: done.iter().filter(|d| !**d).count(), errors }
}

// ------------------------------------------------------------------------------------------
// evaluators
// ------------------------------------------------------------------------------------------
fn lift(x: F) -> FE {
    <FE as FieldExtension<D>>::from_basefield(x)
}
fn comps(x: &FE) -> [F; D] {
    <FE as FieldExtension<D>>::to_basefield_array(x)
}
fn from_arr(a: [F; D]) -> FE {
    <FE as FieldExtension<D>>::from_basefield_array(a)
}
fn emb(xs: &[F]) -> Vec<FE> {
    xs.iter().map(|&x| lift(x)).collect()
}

fn eval_ext(gate: &G, consts: &[FE], wires: &[FE], h: &HashOut<F>) -> Result<Vec<FE>, String> {
    guarded(|| gate.0.eval_unfiltered(EvaluationVars { local_constants: consts, local_wires: wires, public_inputs_hash: h }))
}

/// base-field batch evaluator on `rows` (each a full wire row) with common constants; returns
/// per row the constraint vector
fn eval_base_batch(gate: &G, consts: &[F], rows: &[Vec<F>], h: &HashOut<F>) -> Result<Vec<Vec<F>>, String> {
    let m = rows.len();
    let nw = gate.0.num_wires();
    let mut wires = vec![F::ZERO; nw * m];
    for (i, r) in rows.iter().enumerate() {
        for j in 0..nw {
            wires[j * m + i] = r[j];
        }
    }
    let mut cs = vec![F::ZERO; consts.len() * m];
    for i in 0..m {
        for (j, c) in consts.iter().enumerate() {
            cs[j * m + i] = *c;
        }
    }
    let out = guarded(|| gate.0.eval_unfiltered_base_batch(EvaluationVarsBaseBatch::new(m, &cs, &wires, h)))?;
    if m == 0 {
        return Ok(vec![]);
    }
    if out.len() % m != 0 {
        return Err(format!("base batch returned {} values for batch {}", out.len(), m));
    }
    let nc = out.len() / m;
    Ok((0..m).map(|i| (0..nc).map(|j| out[j * m + i]).collect()).collect())
}

/// builder configurations under which the in-circuit evaluator is exercised: circuit evaluators
/// (and the builder helpers they call) branch on the configuration, not only on the gate:
///  - PoseidonGate::eval_unfiltered_circuit: `num_routed_wires >= PoseidonMdsGate::num_wires()` (48 for
///    D = 2) selects naive partial rounds vs the fast partial-round route;
///  - Poseidon::mds_layer_circuit: the same test selects a PoseidonMdsGate vs inline rows;
///  - CircuitBuilder::arithmetic: `use_base_arithmetic_gate` selects ArithmeticGate vs the extension gate;
///  - the operations-per-gate packing of the arithmetic / extension gates depends on num_routed_wires.
fn builder_configs() -> Vec<(&'static str, CircuitConfig)> {
    let std = CircuitConfig::standard_recursion_config();
    vec![
        ("std-135/80", std.clone()),
        ("routed37-135/37", CircuitConfig { num_routed_wires: 37, ..std.clone() }),
        ("routed25-135/25", CircuitConfig { num_routed_wires: 25, ..std.clone() }),
        ("nobase-135/80", CircuitConfig { use_base_arithmetic_gate: false, ..std }),
    ]
}

fn short_id(id: &str) -> String {
    id.split(|c: char| c == '{' || c == '<' || c == ' ' || c == '(').next().unwrap_or("").to_string()
}

/// a circuit that evaluates `eval_unfiltered_circuit` on virtual targets
struct EvalCircuit {
    data: CircuitData<F, C, D>,
    wires_t: Vec<ExtensionTarget<D>>,
    consts_t: Vec<ExtensionTarget<D>>,
    hash_t: HashOutTarget,
    evals_t: Vec<ExtensionTarget<D>>,
}

fn build_eval_circuit(gate: &G, config: CircuitConfig) -> Result<EvalCircuit, String> {
    guarded(|| {
        let mut builder = CircuitBuilder::<F, D>::new(config);
        let wires_t = builder.add_virtual_extension_targets(gate.0.num_wires());
        let consts_t = builder.add_virtual_extension_targets(gate.0.num_constants());
        let hash_t = builder.add_virtual_hash();
        let evals_t = gate.0.eval_unfiltered_circuit(
            &mut builder,
            EvaluationTargets { local_constants: &consts_t, local_wires: &wires_t, public_inputs_hash: &hash_t },
        );
        // build without the (expensive, irrelevant) commitment to the constants and sigmas
        let data = builder.build_with_options::<C>(false);
        EvalCircuit { data, wires_t, consts_t, hash_t, evals_t }
    })
}

fn eval_circuit(ec: &EvalCircuit, consts: &[FE], wires: &[FE], h: &HashOut<F>) -> Result<Vec<FE>, String> {
    guarded(|| -> Result<Vec<FE>, String> {
        let mut pw = PartialWitness::new();
        pw.set_extension_targets(&ec.wires_t, wires).map_err(|e| e.to_string())?;
        pw.set_extension_targets(&ec.consts_t, consts).map_err(|e| e.to_string())?;
        pw.set_hash_target(ec.hash_t, *h).map_err(|e| e.to_string())?;
        let w = generate_partial_witness(pw, &ec.data.prover_only, &ec.data.common).map_err(|e| e.to_string())?;
        Ok(ec.evals_t.iter().map(|&t| w.get_extension_target(t)).collect())
    })?
}

fn is_base(x: &FE) -> bool {
    comps(x)[1] == F::ZERO
}
fn fe_json(x: &FE) -> Value {
    let a = comps(x);
    json!([a[0].to_canonical_u64(), a[1].to_canonical_u64()])
}

// ------------------------------------------------------------------------------------------
// one catalogue entry
// ------------------------------------------------------------------------------------------
struct Opts {
    rows: usize,
    circuit_rows: usize,
    circuit: bool,
    sabotage: bool,
    log_budget: usize,
}

#[derive(Default)]
struct Tally {
    honest_rows: usize,
    perturbations: usize,
    evaluations: usize,
    circuit_evals: usize,
    distinct_rows: usize,
    log_per_kind: std::collections::BTreeMap<String, usize>,
    /// hashes of the distinct (gate, constants, hash, row) tuples evaluated on gates with constraints
    distinct: std::collections::HashSet<u64>,
}

fn case_hash(id: &str, consts: &[F], h: &HashOut<F>, row: &[F]) -> u64 {
    use std::hash::{Hash, Hasher};
    let mut s = std::collections::hash_map::DefaultHasher::new();
    id.hash(&mut s);
    for x in consts.iter().chain(h.elements.iter()).chain(row.iter()) {
        x.to_canonical_u64().hash(&mut s);
    }
    s.finish()
}

fn push_cap(v: &mut Vec<Value>, x: Value) {
    if v.len() < 8 {
        v.push(x);
    }
}

fn check_entry(e: &Value, idx: usize, o: &Opts, log: &mut Option<NdJson>, tally: &mut Tally) -> Value {
    let per_kind_cap = (o.log_budget / 8).max(2);
    let g = &e["gate"];
    let kind = g["kind"].as_str().unwrap_or("").to_string();
    let mut drift: Vec<Value> = vec![];
    let mut viol: Vec<Value> = vec![];
    let mut panics: Vec<Value> = vec![];
    let gate = match guarded(|| make_gate(g)) {
        Ok(Ok(x)) => x,
        Ok(Err(m)) => return json!({"gate": g, "skipped": m}),
        Err(p) => return json!({"gate": g, "violations": [], "drift": [], "panics": [{"where": "construct", "msg": p}]}),
    };
    let nw = gate.0.num_wires();
    let nc = gate.0.num_constants();
    let ncon = gate.0.num_constraints();
    let deg = gate.0.degree();
    // ---- declared counts against the specification's formulas (DRIFT level)
    for (what, real, spec) in [("num_wires", nw, gu(e, "nw")), ("num_constants", nc, gu(e, "nc")),
                               ("num_constraints", ncon, gu(e, "ncon")), ("degree", deg, gu(e, "deg"))] {
        if real != spec {
            drift.push(json!({"what": what, "real": real, "spec": spec}));
        }
    }
    let spec_inputs: Vec<&Value> = e["inputs"].as_array().map(|a| a.iter().collect()).unwrap_or_default();
    let spec_written: Vec<usize> = e["written"].as_array().map(|a| a.iter().map(|x| x.as_u64().unwrap() as usize).collect()).unwrap_or_default();
    let spec_filled: Vec<(usize, String, usize)> = e["filled"].as_array().map(|a| a.iter().map(|t| {
        (t[0].as_u64().unwrap() as usize, t[1].as_str().unwrap().to_string(), t[2].as_u64().unwrap() as usize)
    }).collect()).unwrap_or_default();
    let delegated = e["delegated"].as_array().map(|a| !a.is_empty()).unwrap_or(false);
    if spec_inputs.iter().any(|s| s["w"].as_u64().unwrap() as usize >= nw) || spec_filled.iter().any(|t| t.0 >= nw) {
        drift.push(json!({"what": "spec wire index outside the real gate", "num_wires": nw}));
        return json!({"gate": g, "id": gate.0.id(), "violations": viol, "drift": drift, "panics": panics});
    }
    let mut rng = rng(0xC07_0000 + idx as u64);
    let mut written_seen: Option<Vec<usize>> = None;
    let mut unpinned_delegated = 0usize;
    let mut max_measured_degree = 0usize;
    let mut circuits: Vec<(&'static str, EvalCircuit)> = vec![];
    let mut circuit_info: Vec<Value> = vec![];
    if o.circuit {
        for (name, cfg) in builder_configs() {
            // the evaluator works on virtual targets, so the gate's own layout need not fit the
            // configuration: nothing is skipped; a failing build is reported
            match build_eval_circuit(&gate, cfg) {
                Ok(c) => {
                    let mut ids: Vec<String> = c.data.common.gates.iter().map(|g| short_id(&g.0.id())).collect();
                    ids.sort();
                    ids.dedup();
                    circuit_info.push(json!({"cfg": name, "gates": ids, "rows": c.data.common.degree()}));
                    circuits.push((name, c));
                }
                Err(p) => {
                    circuit_info.push(json!({"cfg": name, "build_panic": p}));
                    panics.push(json!({"where": format!("eval_unfiltered_circuit/build under {name}"), "msg": p}));
                }
            }
        }
    }
    let mut circuit_budget = o.circuit_rows;

    for r in 0..o.rows {
        // ---- constants, hash, inputs
        let consts: Vec<F> = (0..nc).map(|j| match r {
            0 => F::ONE,
            1 => [F::ZERO, fc(P - 1)][j % 2],
            _ => { let k = rng.gen_range(0..10); any_value(&mut rng, k) }
        }).collect();
        let h = HashOut { elements: [0, 1, 2, 3].map(|j| if r == 0 { fc(j as u64) } else { any_value(&mut rng, (r + j) % 10) }) };
        let inputs: Vec<(usize, F)> = spec_inputs.iter().enumerate()
            .map(|(pos, s)| (s["w"].as_u64().unwrap() as usize, input_value(&mut rng, s, g, r, pos))).collect();
        let filled: Vec<(usize, F)> = spec_filled.iter().map(|(wv, src, i)| {
            (*wv, if src == "const" { consts.get(i - 1).copied().unwrap_or(F::ZERO) } else { h.elements[i - 1] })
        }).collect();
        // ---- the gate's own generators
        let gen = match guarded(|| run_generators(&gate, &consts, &inputs, &filled)) {
            Ok(x) => x,
            Err(p) => {
                push_cap(&mut panics, json!({"where": "generators", "msg": p, "inputs": inputs.iter().map(|(c, v)| json!([c, v.to_canonical_u64()])).collect::<Vec<_>>()}));
                continue;
            }
        };
        if gen.unfinished > 0 || !gen.errors.is_empty() {
            push_cap(&mut drift, json!({"what": "generators did not complete on the specification's input set", "unfinished": gen.unfinished, "errors": gen.errors}));
            continue;
        }
        if written_seen.is_none() {
            let mut sw = spec_written.clone();
            sw.sort_unstable();
            if sw != gen.written {
                drift.push(json!({"what": "generator-written wires", "real": gen.written, "spec": sw}));
            }
            written_seen = Some(gen.written.clone());
        }
        let mut honest = gen.row.clone();
        let mut pinned: Vec<usize> = gen.written.clone();
        pinned.extend(filled.iter().map(|t| t.0));
        if o.sabotage && r == 0 && !pinned.is_empty() && !delegated {
            // binding canary: a perturbed row reported as honest must be flagged
            honest[pinned[pinned.len() / 2]] += F::ONE;
        }
        tally.honest_rows += 1;
        let cext = emb(&consts);
        // ---- honest row: all constraints vanish, as many as declared
        let ev = match eval_ext(&gate, &cext, &emb(&honest), &h) {
            Ok(v) => v,
            Err(p) => {
                push_cap(&mut panics, json!({"where": "eval_unfiltered", "msg": p}));
                continue;
            }
        };
        tally.evaluations += 1;
        if ev.len() != ncon {
            push_cap(&mut viol, json!({"key": format!("C07/count/{kind}"), "detail": "eval_unfiltered returns a number of constraints other than num_constraints()", "returned": ev.len(), "declared": ncon}));
        }
        if let Some(j) = ev.iter().position(|x| *x != FE::ZERO) {
            push_cap(&mut viol, json!({"key": format!("C07/honest-row/{kind}"), "detail": "a row filled in by the gate's own generators violates a constraint",
                "constraint": j, "value": fe_json(&ev[j]), "consts": consts.iter().map(|c| c.to_canonical_u64()).collect::<Vec<_>>(),
                "row": honest.iter().map(|c| c.to_canonical_u64()).collect::<Vec<_>>()}));
        }
        // ---- rows for the evaluator comparison: honest, every single-wire perturbation, random
        let mut rows: Vec<Vec<F>> = vec![honest.clone()];
        let mut row_is_perturbation: Vec<Option<(usize, u64)>> = vec![None];
        for &wv in &pinned {
            let orig = honest[wv];
            let mut cands = vec![orig + F::ONE, orig - F::ONE, F::ZERO, fc(P - 1), fc(rng.gen::<u64>()), orig + fc(1 << 32)];
            cands.retain(|c| *c != orig);
            cands.dedup();
            for cv in cands.into_iter().take(if o.rows > 6 { 6 } else { 4 }) {
                let mut rr = honest.clone();
                rr[wv] = cv;
                rows.push(rr);
                row_is_perturbation.push(Some((wv, cv.to_canonical_u64())));
            }
        }
        for k in 0..2 {
            rows.push((0..nw).map(|_| any_value(&mut rng, 7 + k)).collect());
            row_is_perturbation.push(None);
        }
        // extension evaluator on all rows
        let mut ext_vals: Vec<Vec<FE>> = vec![];
        for (k, rr) in rows.iter().enumerate() {
            match eval_ext(&gate, &cext, &emb(rr), &h) {
                Ok(v) => {
                    tally.evaluations += 1;
                    if v.len() != ncon {
                        push_cap(&mut viol, json!({"key": format!("C07/count/{kind}"), "returned": v.len(), "declared": ncon}));
                    }
                    if let Some((wv, cv)) = row_is_perturbation[k] {
                        tally.perturbations += 1;
                        if v.iter().all(|x| *x == FE::ZERO) {
                            if delegated {
                                unpinned_delegated += 1;
                            } else {
                                push_cap(&mut viol, json!({"key": format!("C07/unpinned/{kind}"), "detail": "a single replaced generated value leaves all constraints zero",
                                    "wire": wv, "replacement": cv, "original": honest[wv].to_canonical_u64(),
                                    "consts": consts.iter().map(|c| c.to_canonical_u64()).collect::<Vec<_>>(),
                                    "row": honest.iter().map(|c| c.to_canonical_u64()).collect::<Vec<_>>()}));
                            }
                        }
                    }
                    if let Some(j) = v.iter().position(|x| !is_base(x)) {
                        push_cap(&mut viol, json!({"key": format!("C07/evaluators/{kind}"), "detail": "extension evaluator leaves the base field on base inputs", "constraint": j}));
                    }
                    ext_vals.push(v);
                }
                Err(p) => {
                    push_cap(&mut panics, json!({"where": "eval_unfiltered", "msg": p, "perturbation": row_is_perturbation[k].map(|t| json!([t.0, t.1]))}));
                    ext_vals.push(vec![]);
                }
            }
        }
        // base batch (packed) evaluator: whole batch, and a batch of one
        match eval_base_batch(&gate, &consts, &rows, &h) {
            Ok(bv) => {
                for (k, v) in bv.iter().enumerate() {
                    tally.evaluations += 1;
                    let want: Vec<F> = ext_vals[k].iter().map(|x| comps(x)[0]).collect();
                    if !ext_vals[k].is_empty() && *v != want {
                        push_cap(&mut viol, json!({"key": format!("C07/evaluators/{kind}"), "detail": "base-batch evaluator differs from the extension evaluator on identical inputs",
                            "batch": rows.len(), "point": k, "base": v.iter().map(|c| c.to_canonical_u64()).collect::<Vec<_>>(),
                            "ext": want.iter().map(|c| c.to_canonical_u64()).collect::<Vec<_>>(),
                            "row": rows[k].iter().map(|c| c.to_canonical_u64()).collect::<Vec<_>>()}));
                    }
                }
            }
            Err(p) => push_cap(&mut panics, json!({"where": "eval_unfiltered_base_batch", "msg": p, "batch": rows.len()})),
        }
        match eval_base_batch(&gate, &consts, &rows[..1], &h) {
            Ok(bv) => {
                tally.evaluations += 1;
                let want: Vec<F> = ext_vals[0].iter().map(|x| comps(x)[0]).collect();
                if !ext_vals[0].is_empty() && bv[0] != want {
                    push_cap(&mut viol, json!({"key": format!("C07/evaluators/{kind}"), "detail": "base-batch evaluator (batch of one) differs from the extension evaluator"}));
                }
            }
            Err(p) => push_cap(&mut panics, json!({"where": "eval_unfiltered_base_batch(1)", "msg": p})),
        }
        // in-circuit evaluator: honest row, one perturbation, one random base row, one random extension row
        if !circuits.is_empty() {
            let mut picks: Vec<(Vec<FE>, Vec<FE>)> = vec![];
            if circuit_budget > 0 {
                picks.push((cext.clone(), emb(&rows[0])));
                if rows.len() > 3 {
                    let k = 1 + rng.gen_range(0..rows.len() - 3);
                    picks.push((cext.clone(), emb(&rows[k])));
                }
                picks.push((cext.clone(), emb(&rows[rows.len() - 1])));
                let rx = |rng: &mut ChaCha8Rng| { let k = rng.gen_range(0..10); from_arr([any_value(rng, 8), any_value(rng, k)]) };
                picks.push(((0..nc).map(|_| rx(&mut rng)).collect(), (0..nw).map(|_| rx(&mut rng)).collect()));
            }
            for (cc, ww) in picks {
                if circuit_budget == 0 {
                    break;
                }
                circuit_budget -= 1;
                let native = eval_ext(&gate, &cc, &ww, &h);
                for (cfg_name, ec) in &circuits {
                    let inc = eval_circuit(ec, &cc, &ww, &h);
                    tally.circuit_evals += 1;
                    match (&native, inc) {
                        (Ok(a), Ok(b)) => {
                            if *a != b {
                                let j = a.iter().zip(b.iter()).position(|(x, y)| x != y);
                                push_cap(&mut viol, json!({"key": format!("C07/evaluators/{kind}"), "detail": "in-circuit evaluator differs from the extension evaluator on identical inputs",
                                    "builder_config": cfg_name, "lens": [a.len(), b.len()], "first_difference": j,
                                    "wires": ww.iter().map(fe_json).collect::<Vec<_>>(), "consts": cc.iter().map(fe_json).collect::<Vec<_>>()}));
                            }
                        }
                        (a, b) => push_cap(&mut panics, json!({"where": format!("in-circuit evaluation under {cfg_name}"), "native": a.clone().err(), "circuit": b.err()})),
                    }
                }
            }
        }
        // ---- degree along a random line through the honest row (finite differences)
        if r < 3 {
            let dir_w: Vec<FE> = (0..nw).map(|_| lift(fc(rng.gen::<u64>()))).collect();
            let dir_c: Vec<FE> = (0..nc).map(|_| lift(fc(rng.gen::<u64>()))).collect();
            let m = deg + 3;
            let mut vals: Vec<Vec<FE>> = vec![];
            let mut ok = true;
            for t in 0..=m {
                let tt = FE::from_canonical_u64(t as u64);
                let ww: Vec<FE> = honest.iter().zip(&dir_w).map(|(a, d)| lift(*a) + tt * *d).collect();
                let cc: Vec<FE> = consts.iter().zip(&dir_c).map(|(a, d)| lift(*a) + tt * *d).collect();
                match eval_ext(&gate, &cc, &ww, &h) {
                    Ok(v) => vals.push(v),
                    Err(_) => {
                        ok = false;
                        break;
                    }
                }
                tally.evaluations += 1;
            }
            if ok {
                for j in 0..ncon.min(vals[0].len()) {
                    let mut col: Vec<FE> = vals.iter().map(|v| v[j]).collect();
                    let mut measured = 0;
                    for order in 1..=m {
                        col = col.windows(2).map(|p| p[1] - p[0]).collect();
                        if col.iter().any(|x| *x != FE::ZERO) {
                            measured = order;
                        }
                    }
                    max_measured_degree = max_measured_degree.max(measured);
                    if measured > deg {
                        push_cap(&mut viol, json!({"key": format!("C07/degree/{kind}"), "detail": "a constraint has a degree above degree()", "constraint": j, "measured_at_least": measured, "declared": deg}));
                    }
                }
            }
        }
        // ---- (C) event for TLC: constraint vector of a cheap gate on 64-bit inputs
        if let Some(l) = log.as_mut() {
            let cheap = matches!(kind.as_str(), "arith" | "basesum" | "constant" | "pi" | "ra" | "reducing" | "expo" | "mulext");
            let small = nw <= 24 && ncon <= 16;
            let used = tally.log_per_kind.entry(kind.clone()).or_insert(0usize);
            // spread the per-kind budget over the parameterisations (one row each while it lasts)
            if cheap && small && *used < per_kind_cap && r == idx % 3 {
                *used += 2;
                for k in [0usize, 1 + (r * 7) % (rows.len() - 1).max(1)] {
                    if k < rows.len() && !ext_vals[k].is_empty() {
                        l.put(&json!({"kind": kind, "g": g, "c": fls(&consts), "h": fls(&h.elements), "w": fls(&rows[k]),
                            "out": fls(&ext_vals[k].iter().map(|x| comps(x)[0]).collect::<Vec<_>>())}));
                    }
                }
            }
        }
        tally.distinct_rows += rows.len();
        if ncon > 0 {
            let id = gate.0.id();
            for rr in &rows {
                tally.distinct.insert(case_hash(&id, &consts, &h, rr));
            }
        }
    }
    if delegated && o.sabotage {
        // nothing to sabotage on gates without constraints
    }
    json!({"gate": g, "id": gate.0.id(), "declared": {"num_wires": nw, "num_constants": nc, "num_constraints": ncon, "degree": deg},
           "written": written_seen, "circuits": circuit_info, "measured_degree": max_measured_degree, "delegated_unpinned": unpinned_delegated,
           "violations": viol, "drift": drift, "panics": panics})
}

fn cmd_gates(args: &[String]) -> anyhow::Result<()> {
    let cat = opt(args, "--cat").ok_or_else(|| anyhow::anyhow!("--cat"))?;
    let o = Opts {
        rows: opt_usize(args, "--rows", 4),
        circuit_rows: opt_usize(args, "--circuit-rows", 4),
        circuit: !args.iter().any(|a| a == "--no-circuit"),
        sabotage: args.iter().any(|a| a == "--sabotage"),
        log_budget: opt_usize(args, "--log-budget", 150),
    };
    let every = opt_usize(args, "--circuit-every", 1);
    let only = opt(args, "--only");
    let idx_base = opt_usize(args, "--idx-base", 0);
    let mut log = match opt(args, "--log") {
        Some(p) => Some(NdJson::create(p)?),
        None => None,
    };
    let mut tally = Tally::default();
    let mut n = 0usize;
    let mut results = vec![];
    let text = std::fs::read_to_string(cat)?;
    for (idx, line) in text.lines().enumerate() {
        if line.trim().is_empty() {
            continue;
        }
        let e: Value = serde_json::from_str(line)?;
        if let Some(k) = only {
            if e["gate"]["kind"].as_str() != Some(k) {
                continue;
            }
        }
        let oo = Opts { circuit: o.circuit && idx % every == 0, ..Opts { rows: o.rows, circuit_rows: o.circuit_rows, circuit: o.circuit, sabotage: o.sabotage, log_budget: o.log_budget } };
        let mut res = check_entry(&e, idx_base + idx, &oo, &mut log, &mut tally);
        res["idx"] = json!(idx_base + idx);
        n += 1;
        results.push(res);
    }
    for r in &results {
        emit(r);
    }
    let events = log.map(|l| l.finish()).unwrap_or(0);
    emit(&json!({"summary": true, "entries": n, "honest_rows": tally.honest_rows, "perturbations": tally.perturbations,
                 "evaluations": tally.evaluations, "circuit_evals": tally.circuit_evals, "rows_evaluated": tally.distinct_rows, "distinct_nontrivial": tally.distinct.len(), "log_events": events}));
    Ok(())
}

/// degenerate parameterisations the library itself never instantiates (zero operations / bits /
/// limbs): what the gate methods do there is recorded as information, not judged
fn cmd_edge() -> anyhow::Result<()> {
    let probes = vec![
        json!({"kind": "arith", "n": 0}), json!({"kind": "arithext", "n": 0}), json!({"kind": "mulext", "n": 0}),
        json!({"kind": "basesum", "b": 2, "l": 0}), json!({"kind": "constant", "n": 0}), json!({"kind": "expo", "n": 0}),
        json!({"kind": "reducing", "n": 0}), json!({"kind": "reducingext", "n": 0}), json!({"kind": "coset", "bits": 0, "deg": 2}),
        json!({"kind": "basesum", "b": 2, "l": 64}), json!({"kind": "expo", "n": 64}),
    ];
    let mut out = vec![];
    for g in probes {
        let res = guarded(|| -> Result<Value, String> {
            let gate = make_gate(&g)?;
            let nw = gate.0.num_wires();
            let ncon = gate.0.num_constraints();
            if nw > 100_000 {
                return Ok(json!({"num_wires": nw, "num_constraints": ncon, "note": "num_wires wrapped around"}));
            }
            let h = HashOut { elements: [F::ZERO; 4] };
            let ev = gate.0.eval_unfiltered(EvaluationVars { local_constants: &vec![FE::ZERO; gate.0.num_constants()],
                                                              local_wires: &vec![FE::ZERO; nw], public_inputs_hash: &h });
            Ok(json!({"num_wires": nw, "num_constraints": ncon, "returned": ev.len()}))
        });
        out.push(match res {
            Ok(Ok(v)) => json!({"gate": g, "outcome": v}),
            Ok(Err(m)) => json!({"gate": g, "outcome": {"error": m}}),
            Err(p) => json!({"gate": g, "outcome": {"panic": p}}),
        });
    }
    emit(&json!({"edge_probes": out}));
    Ok(())
}

fn main() -> std::process::ExitCode {
    run_main(|cmd, args| match cmd {
        "gates" => cmd_gates(args),
        "edge" => cmd_edge(),
        _ => anyhow::bail!("unknown command {cmd}"),
    })
}
