//! C18 — verifiers and decoders fail cleanly on malformed input.
//!
//! Commands (all print JSON result lines on stdout, see bin/lib/c18.py):
//!   all      --scen <ndjson> [--fams N] [--threads T] [--budget B] [--byte-fams M]
//!                                          everything below in one process (families built once)
//!   shapes   --scen <ndjson from spec/ProofShape.tla> [--fams N]   replay shape scenarios
//!   ctamper  [--fams N] [--untampered]     value tampers of valid compressed proofs (+ binding self-test)
//!   adaptive [--tries N]                   Fiat–Shamir re-targeting through `verify` (pow-witness search)
//!   bytes    [--byte-fams N] [--budget N] [--identity-selftest]    decoder fuzzing
//!   alloc-selftest                         the allocation guard catches a 1 TiB request
#![feature(alloc_error_hook)]
#[path = "../c03c18_kit.rs"]
mod kit;

use std::alloc::{GlobalAlloc, Layout, System};
use std::marker::PhantomData;
use std::sync::atomic::{AtomicUsize, Ordering};

use anyhow::{anyhow, Result};
use kit::*;
use plonky2::field::extension::{Extendable, FieldExtension};
use plonky2::field::packed::PackedField;
use plonky2::field::polynomial::PolynomialValues;
use plonky2::field::types::Field;
use plonky2::fri::reduction_strategies::FriReductionStrategy;
use plonky2::gates::noop::NoopGate;
use plonky2::hash::hash_types::RichField;
use plonky2::iop::ext_target::ExtensionTarget;
use plonky2::iop::witness::{PartialWitness, WitnessWrite};
use plonky2::plonk::circuit_builder::CircuitBuilder;
use plonky2::plonk::circuit_data::{CircuitConfig, CommonCircuitData};
use plonky2::plonk::plonk_common::salt_size;
use plonky2::util::timing::TimingTree;
use rand::Rng;
use serde_json::{json, Map, Value};
use starky::config::StarkConfig;
use starky::constraint_consumer::{ConstraintConsumer, RecursiveConstraintConsumer};
use starky::evaluation_frame::{StarkEvaluationFrame, StarkFrame};
use starky::lookup::{Column, Lookup};
use starky::proof::StarkProofWithPublicInputs;
use starky::stark::Stark;
use starky::util::trace_rows_to_poly_values;
use starky::verifier::verify_stark_proof;
use vh::util::*;

// ------------------------------------------------------------------------------------------
// allocation guard: a request above 1 GiB is refused (null), the alloc-error hook turns the
// refusal into a panic that `run_guard` catches; BIG records the size for the report.
// ------------------------------------------------------------------------------------------
const ALLOC_LIMIT: usize = 1 << 30;
static BIG: AtomicUsize = AtomicUsize::new(0);
struct GuardAlloc;
unsafe impl GlobalAlloc for GuardAlloc {
    unsafe fn alloc(&self, l: Layout) -> *mut u8 {
        if l.size() > ALLOC_LIMIT {
            BIG.store(l.size(), Ordering::SeqCst);
            return std::ptr::null_mut();
        }
        System.alloc(l)
    }
    unsafe fn dealloc(&self, p: *mut u8, l: Layout) {
        System.dealloc(p, l)
    }
    unsafe fn alloc_zeroed(&self, l: Layout) -> *mut u8 {
        if l.size() > ALLOC_LIMIT {
            BIG.store(l.size(), Ordering::SeqCst);
            return std::ptr::null_mut();
        }
        System.alloc_zeroed(l)
    }
    unsafe fn realloc(&self, p: *mut u8, l: Layout, n: usize) -> *mut u8 {
        if n > ALLOC_LIMIT {
            BIG.store(n, Ordering::SeqCst);
            return std::ptr::null_mut();
        }
        System.realloc(p, l, n)
    }
}
#[global_allocator]
static ALLOC: GuardAlloc = GuardAlloc;

fn install_alloc_hook() {
    std::alloc::set_alloc_error_hook(|l| panic!("ALLOC-GUARD: allocation of {} bytes refused (limit 1 GiB)", l.size()));
}

// ------------------------------------------------------------------------------------------
// STARKs defined through the public `Stark` trait
// ------------------------------------------------------------------------------------------
#[derive(Copy, Clone)]
struct FibStark<F: RichField + Extendable<D>, const D: usize> {
    num_rows: usize,
    _p: PhantomData<F>,
}
impl<F: RichField + Extendable<D>, const D: usize> FibStark<F, D> {
    fn new(num_rows: usize) -> Self {
        Self { num_rows, _p: PhantomData }
    }
    fn trace(&self, x0: F, x1: F) -> Vec<PolynomialValues<F>> {
        let rows = (0..self.num_rows)
            .scan([x0, x1], |acc, _| {
                let t = *acc;
                acc[0] = t[1];
                acc[1] = t[0] + t[1];
                Some(t)
            })
            .collect::<Vec<_>>();
        trace_rows_to_poly_values(rows)
    }
}
impl<F: RichField + Extendable<D>, const D: usize> Stark<F, D> for FibStark<F, D> {
    type EvaluationFrame<FE, P, const D2: usize>
        = StarkFrame<P, P::Scalar, 2, 3>
    where
        FE: FieldExtension<D2, BaseField = F>,
        P: PackedField<Scalar = FE>;
    type EvaluationFrameTarget = StarkFrame<ExtensionTarget<D>, ExtensionTarget<D>, 2, 3>;

    fn eval_packed_generic<FE, P, const D2: usize>(&self, vars: &Self::EvaluationFrame<FE, P, D2>, y: &mut ConstraintConsumer<P>)
    where
        FE: FieldExtension<D2, BaseField = F>,
        P: PackedField<Scalar = FE>,
    {
        let l = vars.get_local_values();
        let n = vars.get_next_values();
        let pi = vars.get_public_inputs();
        y.constraint_first_row(l[0] - pi[0]);
        y.constraint_first_row(l[1] - pi[1]);
        y.constraint_last_row(l[1] - pi[2]);
        y.constraint_transition(n[0] - l[1]);
        y.constraint_transition(n[1] - l[0] - l[1]);
    }
    fn eval_ext_circuit(&self, _b: &mut CircuitBuilder<F, D>, _v: &Self::EvaluationFrameTarget, _y: &mut RecursiveConstraintConsumer<F, D>) {
        unimplemented!("not used by the native verifier")
    }
    fn constraint_degree(&self) -> usize {
        2
    }
}

/// logUp permutation STARK (pattern of starky/src/permutation_stark.rs): uses lookups, so the
/// optional auxiliary cap / openings are present.
#[derive(Copy, Clone)]
struct PermStark<F: RichField + Extendable<D>, const D: usize> {
    num_rows: usize,
    _p: PhantomData<F>,
}
impl<F: RichField + Extendable<D>, const D: usize> PermStark<F, D> {
    fn new(num_rows: usize) -> Self {
        Self { num_rows, _p: PhantomData }
    }
    fn trace(&self, x0: F) -> Vec<PolynomialValues<F>> {
        let mut rows = (0..self.num_rows)
            .scan([x0, x0 + F::ONE, F::ONE], |acc, _| {
                let t = *acc;
                acc[0] = t[0] + F::ONE;
                acc[1] = t[1] + F::ONE;
                Some(t)
            })
            .collect::<Vec<_>>();
        rows[self.num_rows - 1][1] = x0;
        trace_rows_to_poly_values(rows)
    }
}
impl<F: RichField + Extendable<D>, const D: usize> Stark<F, D> for PermStark<F, D> {
    type EvaluationFrame<FE, P, const D2: usize>
        = StarkFrame<P, P::Scalar, 3, 1>
    where
        FE: FieldExtension<D2, BaseField = F>,
        P: PackedField<Scalar = FE>;
    type EvaluationFrameTarget = StarkFrame<ExtensionTarget<D>, ExtensionTarget<D>, 3, 1>;
    fn constraint_degree(&self) -> usize {
        0
    }
    fn lookups(&self) -> Vec<Lookup<F>> {
        vec![Lookup {
            columns: vec![Column::single(0)],
            table_column: Column::single(1),
            frequencies_column: Column::single(2),
            filter_columns: vec![Default::default()],
        }]
    }
    fn eval_packed_generic<FE, P, const D2: usize>(&self, _v: &Self::EvaluationFrame<FE, P, D2>, _y: &mut ConstraintConsumer<P>)
    where
        FE: FieldExtension<D2, BaseField = F>,
        P: PackedField<Scalar = FE>,
    {
    }
    fn eval_ext_circuit(&self, _b: &mut CircuitBuilder<F, D>, _v: &Self::EvaluationFrameTarget, _y: &mut RecursiveConstraintConsumer<F, D>) {
    }
}

type SP = StarkProofWithPublicInputs<F, C, D>;

#[derive(Clone)]
enum StarkKind {
    Fib(FibStark<F, D>),
    Perm(PermStark<F, D>),
}
struct StarkFam {
    variant: String,
    name: String,
    kind: StarkKind,
    config: StarkConfig,
    proof: SP,
}
impl StarkFam {
    fn verify(&self, p: SP) -> Result<()> {
        match &self.kind {
            StarkKind::Fib(s) => verify_stark_proof(*s, p, &self.config, None),
            StarkKind::Perm(s) => verify_stark_proof(*s, p, &self.config, None),
        }
    }
}

fn stark_families() -> Result<Vec<StarkFam>> {
    let mut out = vec![];
    let config = StarkConfig::standard_fast_config();
    for (i, rows) in [1usize << 8, 1 << 5].into_iter().enumerate() {
        let s = FibStark::<F, D>::new(rows);
        let x0 = fc(seed() + i as u64);
        let x1 = F::ONE;
        let res = (0..rows - 1).fold((x0, x1), |x, _| (x.1, x.0 + x.1)).1;
        let pis = [x0, x1, res];
        let proof = starky::prover::prove::<F, C, _, D>(s, &config, s.trace(x0, x1), &pis, None, &mut TimingTree::default())?;
        verify_stark_proof(s, proof.clone(), &config, None)?;
        out.push(StarkFam { variant: "fib".into(), name: format!("fib{rows}"), kind: StarkKind::Fib(s), config: config.clone(), proof });
    }
    {
        // cap height below the rate bits: the degree recovered from a too-short first Merkle path underflows
        let mut lc = StarkConfig::standard_fast_config();
        lc.fri_config.rate_bits = 3;
        lc.fri_config.cap_height = 1;
        lc.fri_config.num_query_rounds = 28;
        let rows = 1usize << 8;
        let s = FibStark::<F, D>::new(rows);
        let x0 = fc(seed() + 77);
        let x1 = F::ONE;
        let res = (0..rows - 1).fold((x0, x1), |x, _| (x.1, x.0 + x.1)).1;
        let pis = [x0, x1, res];
        let proof = starky::prover::prove::<F, C, _, D>(s, &lc, s.trace(x0, x1), &pis, None, &mut TimingTree::default())?;
        verify_stark_proof(s, proof.clone(), &lc, None)?;
        out.push(StarkFam { variant: "lowcap".into(), name: "fib256-rate3-cap1".into(), kind: StarkKind::Fib(s), config: lc, proof });
    }
    let s = PermStark::<F, D>::new(1 << 7);
    let pis = [fc(seed() + 9)];
    let proof = starky::prover::prove::<F, C, _, D>(s, &config, s.trace(pis[0]), &pis, None, &mut TimingTree::default())?;
    verify_stark_proof(s, proof.clone(), &config, None)?;
    out.push(StarkFam { variant: "perm".into(), name: "perm128".into(), kind: StarkKind::Perm(s), config, proof });
    Ok(out)
}

// ------------------------------------------------------------------------------------------
// PLONK families for C18: the C03 families plus padded ones so that FRI has reduction layers
// ------------------------------------------------------------------------------------------
fn padded_arith(cfg: CircuitConfig, rows: usize, tag: &str) -> Result<Family> {
    let mut b = CircuitBuilder::<F, D>::new(cfg);
    let x = b.add_virtual_target();
    let y = b.add_virtual_target();
    let z = b.mul(x, y);
    let w = b.add(z, x);
    b.register_public_input(x);
    b.register_public_input(w);
    for _ in 0..rows {
        b.add_gate(NoopGate, vec![]);
    }
    let mut pw = PartialWitness::new();
    pw.set_target(x, fc(seed() + 17))?;
    pw.set_target(y, fc(seed() + 4))?;
    let data = b.build::<C>();
    let proof = data.prove(pw)?;
    data.verify(proof.clone())?;
    let cproof = data.compress(proof.clone())?;
    data.verify_compressed(cproof.clone())?;
    Ok(Family { name: format!("padded{rows}-{tag}"), data, proof, cproof })
}

/// C18 shape families: every one has >= 2 FRI reduction layers of arity >= 4 and cap height >= 2
/// (so that the length classes of spec/ProofShape.tla keep their meaning); the variant names
/// are the `Variant` constant of the specification.
fn c18_families(n: usize) -> Result<Vec<(String, Family)>> {
    let mut out = vec![];
    let mut c = CircuitConfig::standard_recursion_config();
    c.fri_config.reduction_strategy = FriReductionStrategy::ConstantArityBits(2, 5);
    out.push(("std".to_string(), padded_arith(c, 300, "ar2")?));
    if n >= 2 {
        let mut c = CircuitConfig::standard_recursion_config();
        c.fri_config.reduction_strategy = FriReductionStrategy::ConstantArityBits(2, 4);
        c.fri_config.cap_height = 3;
        out.push(("lookup".to_string(), family_lookup_padded(c, 4, 200, seed(), "c18")?));
    }
    if n >= 3 {
        let mut c = CircuitConfig::standard_recursion_zk_config();
        c.fri_config.cap_height = 2;
        out.push(("zk".to_string(), family_arith(c, 12, seed(), "zk-c18")?));
    }
    if n >= 4 {
        let mut c = CircuitConfig::standard_recursion_config();
        c.fri_config.reduction_strategy = FriReductionStrategy::Fixed(vec![2, 3, 2]);
        c.num_challenges = 3;
        out.push(("std".to_string(), padded_arith(c, 900, "fixed-nc3")?));
    }
    if n >= 5 {
        let mut c = CircuitConfig::standard_recursion_config();
        c.fri_config.reduction_strategy = FriReductionStrategy::ConstantArityBits(3, 4);
        c.fri_config.cap_height = 2;
        out.push(("lookup".to_string(), family_lookup_padded(c, 9, 1500, seed() + 1, "c18b")?));
    }
    if n >= 6 {
        let inner = family_arith(config_variant(0, false), 7, seed(), "inner")?;
        out.push(("std".to_string(), family_recursion(config_variant(0, false), &inner, "c18")?));
    }
    Ok(out)
}

/// everything the commands work on, built once per process
struct Env {
    fams: Vec<(String, Family)>,
    sfams: Vec<StarkFam>,
    /// a small proof (cap height 0, no FRI layers) for exhaustive byte-level work
    small: Family,
}

fn build_env(nf: usize, with_stark: bool) -> Result<Env> {
    let t0 = std::time::Instant::now();
    let (a, b, c) = std::thread::scope(|s| {
        let a = s.spawn(move || c18_families(nf));
        let b = s.spawn(move || if with_stark { stark_families() } else { Ok(vec![]) });
        let c = s.spawn(|| family_poseidon(config_variant(1, false), 1, seed(), "cap0"));
        (a.join().expect("families"), b.join().expect("stark families"), c.join().expect("small family"))
    });
    let env = Env { fams: a?, sfams: b?, small: c? };
    eprintln!("[c18] families built in {:?}", t0.elapsed());
    Ok(env)
}

impl Env {
    /// families for the byte-level fuzzing: the small proof first
    fn byte_families(&self, n: usize) -> Vec<&Family> {
        let mut out = vec![&self.small];
        out.extend(self.fams.iter().map(|x| &x.1));
        out.truncate(n.max(1));
        out
    }
}

// ------------------------------------------------------------------------------------------
// shape deviations on JSON
// ------------------------------------------------------------------------------------------
#[derive(Clone, Copy, PartialEq, Debug)]
enum Form {
    Plain,
    Compressed,
    Stark,
}

fn ext0() -> Value {
    json!([0, 0])
}
fn hash0() -> Value {
    json!({"elements": [0, 0, 0, 0]})
}

/// sorted numeric keys of a JSON object
fn sorted_keys(m: &Map<String, Value>) -> Vec<String> {
    let mut ks: Vec<(u64, String)> = m.keys().map(|k| (k.parse::<u64>().unwrap_or(u64::MAX), k.clone())).collect();
    ks.sort();
    ks.into_iter().map(|x| x.1).collect()
}

struct Loc {
    path: Path,
    template: Value,
    huge: usize,
    is_map: bool,
}

fn k(s: &str) -> Seg {
    Seg::K(s.to_string())
}

fn pick(n: usize, which: usize) -> Option<usize> {
    if n == 0 {
        None
    } else if which == 0 {
        Some(0)
    } else {
        Some(n - 1)
    }
}

/// locate the JSON list (or map) whose length field `f` denotes
fn locate(j: &Value, form: Form, f: &str) -> Option<Loc> {
    let op = vec![k("proof"), k("opening_proof")];
    let simple = |p: Vec<Seg>, t: Value, h: usize| Some(Loc { path: p, template: t, huge: h, is_map: false });
    let opening = |name: &str| simple(vec![k("proof"), k("openings"), k(name)], ext0(), 0);
    match f {
        "wires_cap" => return simple(vec![k("proof"), k("wires_cap")], hash0(), 1024),
        "zs_cap" => return simple(vec![k("proof"), k("plonk_zs_partial_products_cap")], hash0(), 1024),
        "quot_cap" | "squot_cap" => return simple(vec![k("proof"), k("quotient_polys_cap")], hash0(), 1024),
        "trace_cap" => return simple(vec![k("proof"), k("trace_cap")], hash0(), 1024),
        "aux_cap" => return simple(vec![k("proof"), k("auxiliary_polys_cap")], hash0(), 1024),
        "op.constants" => return opening("constants"),
        "op.sigmas" => return opening("plonk_sigmas"),
        "op.wires" => return opening("wires"),
        "op.zs" => return opening("plonk_zs"),
        "op.zs_next" => return opening("plonk_zs_next"),
        "op.pp" => return opening("partial_products"),
        "op.quot" | "op.squot" => return opening("quotient_polys"),
        "op.lzs" => return opening("lookup_zs"),
        "op.lzs_next" => return opening("lookup_zs_next"),
        "op.local" => return opening("local_values"),
        "op.next" => return opening("next_values"),
        "op.aux" => return opening("auxiliary_polys"),
        "op.aux_next" => return opening("auxiliary_polys_next"),
        "op.ctl" => return simple(vec![k("proof"), k("openings"), k("ctl_zs_first")], json!(0), 0),
        "pis" => return simple(vec![k("public_inputs")], json!(0), 0),
        "final_poly" => {
            let mut p = op.clone();
            p.extend([k("final_poly"), k("coeffs")]);
            return simple(p, ext0(), 0);
        }
        "ncaps" => {
            let mut p = op.clone();
            p.push(k("commit_phase_merkle_caps"));
            let cap_len = at(j, &[k("proof"), k(if form == Form::Stark { "trace_cap" } else { "wires_cap" })])?.as_array()?.len();
            return simple(p, Value::Array(vec![hash0(); cap_len.max(1)]), 0);
        }
        "ccap" => {
            let mut p = op.clone();
            p.extend([k("commit_phase_merkle_caps"), Seg::I(0)]);
            at(j, &p)?;
            return simple(p, hash0(), 1024);
        }
        "indices" => {
            let mut p = op.clone();
            p.extend([k("query_round_proofs"), k("indices")]);
            return simple(p, json!(0), 0);
        }
        _ => {}
    }
    let mut qr = op.clone();
    qr.push(k("query_round_proofs"));
    if form == Form::Compressed {
        let init = {
            let mut p = qr.clone();
            p.push(k("initial_trees_proofs"));
            p
        };
        let steps = {
            let mut p = qr.clone();
            p.push(k("steps"));
            p
        };
        if f == "nrounds" {
            return Some(Loc { path: init, template: Value::Null, huge: 0, is_map: true });
        }
        if f == "nsteps" {
            return Some(Loc { path: steps, template: json!({}), huge: 0, is_map: false });
        }
        if let Some(l) = f.strip_prefix("skeys") {
            let l: usize = l.parse().ok()?;
            let n = at(j, &steps)?.as_array()?.len();
            let li = pick(n, l)?;
            let mut p = steps;
            p.push(Seg::I(li));
            return Some(Loc { path: p, template: Value::Null, huge: 0, is_map: true });
        }
        // round-scoped: rR.<what>
        let (r, what) = f.strip_prefix('r')?.split_once('.')?;
        let r: usize = r.parse().ok()?;
        if let Some(l) = what.strip_prefix("evals").or_else(|| what.strip_prefix("lpath")) {
            let l: usize = l.parse().ok()?;
            let n = at(j, &steps)?.as_array()?.len();
            let li = pick(n, l)?;
            let m = at(j, &steps)?.get(li)?.as_object()?;
            let ks = sorted_keys(m);
            let key = ks.get(pick(ks.len(), r)?)?.clone();
            let mut p = steps;
            p.extend([Seg::I(li), Seg::K(key)]);
            if what.starts_with("evals") {
                p.push(k("evals"));
                return simple(p, ext0(), 0);
            }
            p.extend([k("merkle_proof"), k("siblings")]);
            return simple(p, hash0(), 31);
        }
        let m = at(j, &init)?.as_object()?;
        let ks = sorted_keys(m);
        let key = ks.get(pick(ks.len(), r)?)?.clone();
        let mut p = init;
        p.extend([Seg::K(key), k("evals_proofs")]);
        return locate_initial(j, p, what);
    }
    if f == "nrounds" {
        return simple(qr, Value::Null, 0);
    }
    let (r, what) = f.strip_prefix('r')?.split_once('.')?;
    let r: usize = r.parse().ok()?;
    let n = at(j, &qr)?.as_array()?.len();
    let ri = pick(n, r)?;
    let mut base = qr;
    base.push(Seg::I(ri));
    if what == "nsteps" {
        base.push(k("steps"));
        let t = at(j, &base)?.as_array()?.last().cloned().unwrap_or(json!({"evals": [], "merkle_proof": {"siblings": []}}));
        return simple(base, t, 0);
    }
    if let Some(l) = what.strip_prefix("evals").or_else(|| what.strip_prefix("lpath")) {
        let l: usize = l.parse().ok()?;
        base.push(k("steps"));
        let n = at(j, &base)?.as_array()?.len();
        base.push(Seg::I(pick(n, l)?));
        if what.starts_with("evals") {
            base.push(k("evals"));
            return simple(base, ext0(), 0);
        }
        base.extend([k("merkle_proof"), k("siblings")]);
        return simple(base, hash0(), 31);
    }
    base.extend([k("initial_trees_proof"), k("evals_proofs")]);
    locate_initial(j, base, what)
}

fn locate_initial(j: &Value, mut p: Path, what: &str) -> Option<Loc> {
    if what == "noracles" {
        let t = at(j, &p)?.as_array()?.last().cloned().unwrap_or(json!([[], {"siblings": []}]));
        return Some(Loc { path: p, template: t, huge: 0, is_map: false });
    }
    let (leaf, o) = if let Some(o) = what.strip_prefix("leaf") { (true, o) } else { (false, what.strip_prefix("path")?) };
    let o: usize = o.parse().ok()?;
    let n = at(j, &p)?.as_array()?.len();
    p.push(Seg::I(pick(n, o)?));
    if leaf {
        p.push(Seg::I(0));
        Some(Loc { path: p, template: json!(0), huge: 0, is_map: false })
    } else {
        p.extend([Seg::I(1), k("siblings")]);
        Some(Loc { path: p, template: hash0(), huge: 31, is_map: false })
    }
}

/// returns Ok(true) if the value changed, Err(reason) if the deviation cannot be applied here
fn apply_dev(j: &mut Value, form: Form, f: &str, class: &str) -> std::result::Result<bool, String> {
    // option-typed STARK fields
    if class == "none" || class == "some" {
        let loc = locate(j, form, f).ok_or("no such field")?;
        let v = at_mut(j, &loc.path).ok_or("absent")?;
        if class == "none" {
            if v.is_null() {
                return Err("already none".into());
            }
            *v = Value::Null;
        } else {
            if !v.is_null() {
                return Err("already some".into());
            }
            *v = Value::Array(vec![loc.template.clone(); if f.ends_with("cap") { 16 } else { 2 }]);
        }
        return Ok(true);
    }
    let loc = locate(j, form, f).ok_or("no such field")?;
    let v = at_mut(j, &loc.path).ok_or("absent")?;
    if v.is_null() {
        return Err("none".into());
    }
    if loc.is_map {
        let m = v.as_object_mut().ok_or("not a map")?;
        let ks = sorted_keys(m);
        match class {
            "zero" => {
                if ks.is_empty() {
                    return Err("already empty".into());
                }
                m.clear();
            }
            "minus1" => {
                let last = ks.last().ok_or("empty")?;
                m.remove(last);
            }
            "plus1" => {
                let last = ks.last().ok_or("empty")?;
                let e = m[last].clone();
                let nk = last.parse::<u64>().unwrap_or(0) + 1;
                m.insert(nk.to_string(), e);
            }
            _ => return Err("class not applicable to a map".into()),
        }
        return Ok(true);
    }
    let a = v.as_array_mut().ok_or("not a list")?;
    let c = a.len();
    let target = match class {
        "zero" => 0,
        "minus1" => {
            if c == 0 {
                return Err("empty".into());
            }
            c - 1
        }
        "plus1" => c + 1,
        "np2" => {
            if c == 3 {
                5
            } else {
                3
            }
        }
        "huge" => {
            if loc.huge > 0 {
                if loc.huge == c {
                    2 * c
                } else {
                    loc.huge
                }
            } else {
                c + 100
            }
        }
        _ => return Err("unknown class".into()),
    };
    if target == c {
        return Err("no change".into());
    }
    if target < c {
        a.truncate(target);
    } else {
        let t = a.last().cloned().unwrap_or(loc.template.clone());
        if t.is_null() {
            return Err("no template".into());
        }
        while a.len() < target {
            a.push(t.clone());
        }
    }
    Ok(true)
}

// ------------------------------------------------------------------------------------------
// adaptive adversary for the compressed form: re-key the de-duplication maps with the
// Fiat–Shamir indices of the *mutated* proof, with full-length garbage Merkle paths, so that
// the map lookups and path decompression succeed and later steps are reached.
// ------------------------------------------------------------------------------------------
fn recomputed_indices(cp: &CPW, fam: &Family) -> Result<Vec<usize>> {
    use plonky2::fri::proof::FriProof;
    use plonky2::plonk::proof::Proof;
    let p = &cp.proof;
    let plain = PW {
        proof: Proof {
            wires_cap: p.wires_cap.clone(),
            plonk_zs_partial_products_cap: p.plonk_zs_partial_products_cap.clone(),
            quotient_polys_cap: p.quotient_polys_cap.clone(),
            openings: p.openings.clone(),
            opening_proof: FriProof {
                commit_phase_merkle_caps: p.opening_proof.commit_phase_merkle_caps.clone(),
                query_round_proofs: vec![],
                final_poly: p.opening_proof.final_poly.clone(),
                pow_witness: p.opening_proof.pow_witness,
            },
        },
        public_inputs: cp.public_inputs.clone(),
    };
    let ch = plain.get_challenges(plain.get_public_inputs_hash(), &fam.data.verifier_only.circuit_digest, &fam.data.common)?;
    Ok(ch.fri_challenges.fri_query_indices)
}

fn rekey(cp: &mut CPW, fam: &Family) -> Result<()> {
    let common = &fam.data.common;
    let idx = recomputed_indices(cp, fam)?;
    let params = &common.fri_params;
    let q = &mut cp.proof.opening_proof.query_round_proofs;
    // initial trees: the old entries, in key order, are dealt out cyclically to the new keys
    let mut old: Vec<(usize, _)> = q.initial_trees_proofs.drain().collect();
    old.sort_by_key(|e| e.0);
    let mut keys = idx.clone();
    keys.sort_unstable();
    keys.dedup();
    if !old.is_empty() {
        for (i, key) in keys.iter().enumerate() {
            q.initial_trees_proofs.insert(*key, old[i % old.len()].1.clone());
        }
    }
    let mut cur = idx;
    for (l, &ab) in params.reduction_arity_bits.iter().enumerate() {
        if l >= q.steps.len() {
            break;
        }
        for x in cur.iter_mut() {
            *x >>= ab;
        }
        let mut keys = cur.clone();
        keys.sort_unstable();
        keys.dedup();
        let mut old: Vec<(usize, _)> = q.steps[l].drain().collect();
        old.sort_by_key(|e| e.0);
        if old.is_empty() {
            continue;
        }
        for (i, key) in keys.iter().enumerate() {
            q.steps[l].insert(*key, old[i % old.len()].1.clone());
        }
    }
    full_paths(cp, common);
    Ok(())
}

/// make every compressed Merkle path of the proof full-length (baseline for the adaptive
/// adversary: decompression of paths never runs out of siblings)
fn full_paths(cp: &mut CPW, common: &CommonCircuitData<F, D>) {
    use plonky2::hash::hash_types::HashOut;
    let params = &common.fri_params;
    let cap_h = params.config.cap_height;
    let lde_bits = params.lde_bits();
    let q = &mut cp.proof.opening_proof.query_round_proofs;
    for e in q.initial_trees_proofs.values_mut() {
        for (_, mp) in e.evals_proofs.iter_mut() {
            while mp.siblings.len() < lde_bits - cap_h {
                mp.siblings.push(HashOut::<F>::ZERO);
            }
        }
    }
    let mut h = lde_bits;
    for (l, &ab) in params.reduction_arity_bits.iter().enumerate() {
        h -= ab;
        if l < q.steps.len() {
            for e in q.steps[l].values_mut() {
                while e.merkle_proof.siblings.len() < h - cap_h {
                    e.merkle_proof.siblings.push(HashOut::<F>::ZERO);
                }
            }
        }
    }
}

/// fields that the Fiat–Shamir transcript absorbs (deviations applied BEFORE re-keying)
fn is_absorbed(f: &str) -> bool {
    f.ends_with("_cap") || f.starts_with("op.") || matches!(f, "pis" | "ncaps" | "ccap" | "final_poly")
}

// ------------------------------------------------------------------------------------------
// `shapes`: replay of the scenarios printed by spec/ProofShape.tla
// ------------------------------------------------------------------------------------------
fn obs_json(name: &str, o: &Outcome) -> Value {
    let mut v = o.to_json();
    v["ep"] = json!(name);
    v
}

struct ShapeCtx<'a> {
    fams: &'a [(String, Family)],
    sfams: &'a [StarkFam],
    pj: Vec<Value>,
    cj: Vec<Value>,
    sj: Vec<Value>,
}

fn run_scenario(cx: &ShapeCtx<'_>, sc: &Value, out: &mut Vec<Value>) -> usize {
    let entry = sc["entry"].as_str().unwrap_or("");
    let variant = sc["variant"].as_str().unwrap_or("");
    let adaptive = sc["adaptive"].as_bool().unwrap_or(false);
    let devs: Vec<(String, String)> = sc["devs"].as_array().map(|a| a.iter().map(|d| (d["f"].as_str().unwrap().to_string(), d["v"].as_str().unwrap().to_string())).collect()).unwrap_or_default();
    let mut n_eval = 0;
    let nfam = if entry == "stark" { cx.sfams.len() } else { cx.fams.len() };
    for fi in 0..nfam {
        let (form, base, fvar, fname) = match entry {
            "verify" => (Form::Plain, &cx.pj[fi], cx.fams[fi].0.as_str(), cx.fams[fi].1.name.clone()),
            "compressed" => (Form::Compressed, &cx.cj[fi], cx.fams[fi].0.as_str(), cx.fams[fi].1.name.clone()),
            _ => (Form::Stark, &cx.sj[fi], cx.sfams[fi].variant.as_str(), cx.sfams[fi].name.clone()),
        };
        if fvar != variant {
            continue;
        }
        let mut j = base.clone();
        let mut why = None;
        let late = |f: &str| form == Form::Compressed && adaptive && !is_absorbed(f);
        for (f, v) in devs.iter().filter(|d| !late(&d.0)) {
            if let Err(e) = apply_dev(&mut j, form, f, v) {
                why = Some(format!("{f}:{v}: {e}"));
                break;
            }
        }
        if let Some(w) = why {
            out.push(json!({"id": sc["id"], "fam": fname, "applied": false, "why": w}));
            continue;
        }
        let mut obs = vec![];
        let mut trivial = false;
        match form {
            Form::Plain => match serde_json::from_value::<PW>(j) {
                Err(e) => obs.push(json!({"ep": "deserialize", "err": e.to_string()})),
                Ok(p) => {
                    let fam = &cx.fams[fi].1;
                    trivial = p == fam.proof;
                    let d = &fam.data;
                    let vd = d.verifier_data();
                    obs.push(obs_json("verify", &run_guard(|| d.verify(p.clone())).0));
                    obs.push(obs_json("verifier_data.verify", &run_guard(|| vd.verify(p.clone())).0));
                    n_eval += 2;
                }
            },
            Form::Compressed => match serde_json::from_value::<CPW>(j) {
                Err(e) => obs.push(json!({"ep": "deserialize", "err": e.to_string()})),
                Ok(mut p) => {
                    let fam = &cx.fams[fi].1;
                    if adaptive {
                        let r = run_guard(|| rekey(&mut p, fam));
                        if r.0 != Outcome::Ok {
                            out.push(json!({"id": sc["id"], "fam": fname, "applied": false, "why": format!("rekey failed: {:?}", r.0)}));
                            continue;
                        }
                        // deviations of the not-absorbed parts after re-keying
                        let mut jj = serde_json::to_value(&p).unwrap();
                        let mut bad = None;
                        for (f, v) in devs.iter().filter(|d| late(&d.0)) {
                            if let Err(e) = apply_dev(&mut jj, form, f, v) {
                                bad = Some(format!("{f}:{v}: {e}"));
                            }
                        }
                        if let Some(w) = bad {
                            out.push(json!({"id": sc["id"], "fam": fname, "applied": false, "why": w}));
                            continue;
                        }
                        match serde_json::from_value(jj) {
                            Ok(pp) => p = pp,
                            Err(e) => {
                                out.push(json!({"id": sc["id"], "fam": fname, "applied": false, "why": e.to_string()}));
                                continue;
                            }
                        }
                    }
                    trivial = p == fam.cproof;
                    let d = &fam.data;
                    obs.push(obs_json("verify_compressed", &run_guard(|| d.verify_compressed(p.clone())).0));
                    let (o, dp) = run_guard(|| d.decompress(p.clone()));
                    obs.push(obs_json("decompress", &o));
                    if let Some(dp) = dp {
                        // whatever decompresses is then verified
                        let o2 = run_guard(|| d.verify(dp.clone())).0;
                        let mut v = obs_json("decompress+verify", &o2);
                        v["same_as_valid_plain"] = json!(dp == fam.proof);
                        obs.push(v);
                    }
                    n_eval += 3;
                }
            },
            Form::Stark => match serde_json::from_value::<SP>(j.clone()) {
                Err(e) => obs.push(json!({"ep": "deserialize", "err": e.to_string()})),
                Ok(p) => {
                    trivial = j == cx.sj[fi];
                    obs.push(obs_json("verify_stark_proof", &run_guard(|| cx.sfams[fi].verify(p.clone())).0));
                    n_eval += 1;
                }
            },
        }
        let big = BIG.swap(0, Ordering::SeqCst);
        out.push(json!({"id": sc["id"], "fam": fname, "applied": true, "trivial": trivial, "obs": obs, "big_alloc": big}));
    }
    n_eval
}

fn shapes(env: &Env, scen: &str, threads: usize) -> Result<()> {
    let (fams, sfams) = (&env.fams[..], &env.sfams[..]);
    let lines: Vec<Value> = std::fs::read_to_string(scen)?.lines().filter(|l| !l.trim().is_empty()).map(serde_json::from_str).collect::<std::result::Result<_, _>>()?;
    let pj = fams.iter().map(|f| serde_json::to_value(&f.1.proof).unwrap()).collect();
    let cj = fams.iter().map(|f| serde_json::to_value(&f.1.cproof).unwrap()).collect();
    let sj = sfams.iter().map(|f| serde_json::to_value(&f.proof).unwrap()).collect();
    let cx = ShapeCtx { fams, sfams, pj, cj, sj };
    let chunk = lines.len().div_ceil(threads).max(1);
    let mut results: Vec<(Vec<Value>, usize)> = vec![];
    std::thread::scope(|s| {
        let hs: Vec<_> = lines
            .chunks(chunk)
            .map(|part| {
                let cx = &cx;
                s.spawn(move || {
                    let mut out = vec![];
                    let mut n = 0;
                    for sc in part {
                        n += run_scenario(cx, sc, &mut out);
                    }
                    (out, n)
                })
            })
            .collect();
        for h in hs {
            results.push(h.join().expect("worker thread"));
        }
    });
    let mut n_eval = 0;
    for (out, n) in &results {
        n_eval += n;
        for v in out {
            emit(v);
        }
    }
    emit(&json!({"summary": "shapes", "scenarios": lines.len(), "evaluations": n_eval,
        "families": cx.fams.iter().map(|f| format!("{}:{}", f.0, f.1.name)).chain(cx.sfams.iter().map(|f| format!("{}:{}", f.variant, f.name))).collect::<Vec<_>>()}));
    Ok(())
}

// ------------------------------------------------------------------------------------------
// `ctamper`: single VALUE changes of valid compressed proofs (defect 2 of DESIGN §8)
// ------------------------------------------------------------------------------------------
fn first_leaf_under(j: &Value, p: &Path) -> Option<Path> {
    let (mut l, mut a) = (vec![], vec![]);
    let mut cur = p.clone();
    walk(at(j, p)?, &mut cur, &mut l, &mut a);
    l.into_iter().next()
}

fn ctamper(env: &Env, nf: usize, selftest: bool) -> Result<()> {
    let fams: Vec<&Family> = env.fams.iter().map(|x| &x.1).take(nf).collect();
    let kind = if selftest { "ctamper-untampered" } else { "ctamper" };
    let targets: Vec<(&str, &str)> = vec![
        ("pow_witness", "proof.opening_proof.pow_witness"),
        ("public_input", "public_inputs"),
        ("final_poly", "proof.opening_proof.final_poly.coeffs"),
        ("commit_cap", "proof.opening_proof.commit_phase_merkle_caps"),
        ("wires_cap", "proof.wires_cap"),
        ("zs_cap", "proof.plonk_zs_partial_products_cap"),
        ("quot_cap", "proof.quotient_polys_cap"),
        ("op.constants", "proof.openings.constants"),
        ("op.sigmas", "proof.openings.plonk_sigmas"),
        ("op.wires", "proof.openings.wires"),
        ("op.zs", "proof.openings.plonk_zs"),
        ("op.zs_next", "proof.openings.plonk_zs_next"),
        ("op.pp", "proof.openings.partial_products"),
        ("op.quot", "proof.openings.quotient_polys"),
        ("op.lzs", "proof.openings.lookup_zs"),
        ("init_leaf", "proof.opening_proof.query_round_proofs.initial_trees_proofs"),
        ("step", "proof.opening_proof.query_round_proofs.steps"),
        ("indices", "proof.opening_proof.query_round_proofs.indices"),
    ];
    let mut n = 0;
    for fam in &fams {
        let j = serde_json::to_value(&fam.cproof)?;
        for (name, ps) in &targets {
            let base = parse_path(ps);
            let Some(lp) = (if at(&j, &base).map(|v| v.is_number()).unwrap_or(false) { Some(base.clone()) } else { first_leaf_under(&j, &base) }) else {
                continue;
            };
            let mut m = j.clone();
            let old = at(&m, &lp).and_then(|v| v.as_u64()).unwrap_or(0);
            let new = if selftest { old } else if *name == "indices" { old ^ 1 } else { (old + 1) % P };
            *at_mut(&mut m, &lp).unwrap() = json!(new);
            let p: CPW = match serde_json::from_value(m) {
                Ok(p) => p,
                Err(e) => {
                    emit(&json!({"kind": kind, "fam": fam.name, "what": name, "deserialize_err": e.to_string()}));
                    continue;
                }
            };
            let same = p == fam.cproof;
            let o1 = run_guard(|| fam.data.verify_compressed(p.clone())).0;
            let (o2, dp) = run_guard(|| fam.data.decompress(p.clone()));
            let o3 = dp.map(|dp| run_guard(|| fam.data.verify(dp)).0);
            n += 2;
            emit(&json!({"kind": kind, "fam": fam.name, "what": name, "path": path_str(&lp), "old": old, "new": new, "same": same,
                "verify_compressed": o1.to_json(), "decompress": o2.to_json(), "decompress_verify": o3.map(|o| o.to_json())}));
        }
    }
    emit(&json!({"summary": kind, "evaluations": n}));
    Ok(())
}

// ------------------------------------------------------------------------------------------
// `adaptive`: Fiat–Shamir re-targeting through `verify` with public API only.  Under a
// configuration with one query round and no grinding the adversary changes the number of
// commit-phase caps (not shape-checked) and searches a pow witness for which the recomputed
// query index equals the original one, so that the original query round stays valid.
// ------------------------------------------------------------------------------------------
fn adaptive(args: &[String]) -> Result<()> {
    let tries = opt_usize(args, "--tries", 200_000);
    let mut c = CircuitConfig::standard_recursion_config();
    c.fri_config.num_query_rounds = 1;
    c.fri_config.proof_of_work_bits = 0;
    c.fri_config.reduction_strategy = FriReductionStrategy::ConstantArityBits(2, 3);
    c.security_bits = 3;
    let fam = padded_arith(c, 40, "q1")?;
    let common = &fam.data.common;
    let digest = &fam.data.verifier_only.circuit_digest;
    let orig = fam.proof.get_challenges(fam.proof.get_public_inputs_hash(), digest, common)?.fri_challenges.fri_query_indices;
    let layers = fam.proof.proof.opening_proof.commit_phase_merkle_caps.len();
    emit(&json!({"kind": "adaptive-setup", "fam": fam.name, "lde_bits": common.fri_params.lde_bits(), "layers": layers, "orig_indices": orig}));
    for what in ["zero", "minus1", "plus1", "huge", "control-unchanged"] {
        let mut p = fam.proof.clone();
        {
            let caps = &mut p.proof.opening_proof.commit_phase_merkle_caps;
            let last = caps.last().cloned().unwrap();
            match what {
                "zero" => caps.clear(),
                "minus1" => {
                    caps.pop();
                }
                "plus1" => caps.push(last),
                "huge" => caps.extend(std::iter::repeat(last).take(100)),
                _ => {}
            }
        }
        // static (non-adaptive) outcome first
        let stat = run_guard(|| fam.data.verify(p.clone())).0;
        let mut found = None;
        for t in 0..tries {
            p.proof.opening_proof.pow_witness = fc(t as u64);
            let ch = p.get_challenges(p.get_public_inputs_hash(), digest, common)?;
            if ch.fri_challenges.fri_query_indices == orig {
                found = Some(t);
                break;
            }
        }
        let Some(t) = found else {
            emit(&json!({"kind": "adaptive", "what": what, "static": stat.to_json(), "found": false, "tries": tries}));
            continue;
        };
        let o = run_guard(|| fam.data.verify(p.clone())).0;
        let differs = p != fam.proof;
        emit(&json!({"kind": "adaptive", "what": what, "static": stat.to_json(), "found": true, "pow_witness": t,
            "differs_from_valid": differs, "ncaps": p.proof.opening_proof.commit_phase_merkle_caps.len(), "expected_ncaps": layers,
            "verify": o.to_json()}));
    }
    // direct call of the public `verify_fri_proof` with explicit challenges (observation only:
    // not in C18's list of entry points)
    {
        use plonky2::fri::verifier::verify_fri_proof;
        let p = &fam.proof;
        let ch = p.get_challenges(p.get_public_inputs_hash(), digest, common)?;
        let mut fp = p.proof.opening_proof.clone();
        fp.commit_phase_merkle_caps.pop();
        let caps = [
            fam.data.verifier_only.constants_sigmas_cap.clone(),
            p.proof.wires_cap.clone(),
            p.proof.plonk_zs_partial_products_cap.clone(),
            p.proof.quotient_polys_cap.clone(),
        ];
        // the instance / openings are crate-private to build; go through the hook-free public
        // pieces only when available
        #[cfg(plonky2_verif)]
        {
            let inst = plonky2::verif_exports::get_fri_instance(common, ch.plonk_zeta);
            let os = &p.proof.openings;
            let openings = plonky2::fri::structure::FriOpenings {
                batches: vec![
                    plonky2::fri::structure::FriOpeningBatch {
                        values: [os.constants.as_slice(), os.plonk_sigmas.as_slice(), os.wires.as_slice(), os.plonk_zs.as_slice(),
                            os.partial_products.as_slice(), os.quotient_polys.as_slice(), os.lookup_zs.as_slice()].concat(),
                    },
                    plonky2::fri::structure::FriOpeningBatch { values: [os.plonk_zs_next.clone(), os.lookup_zs_next.clone()].concat() },
                ],
            };
            let mut fc2 = plonky2::fri::proof::FriChallenges { fri_alpha: ch.fri_challenges.fri_alpha, fri_betas: ch.fri_challenges.fri_betas.clone(), fri_pow_response: ch.fri_challenges.fri_pow_response, fri_query_indices: ch.fri_challenges.fri_query_indices.clone() };
            fc2.fri_betas.pop();
            let o = run_guard(|| verify_fri_proof::<F, C, D>(&inst, &openings, &fc2, &caps, &fp, &common.fri_params)).0;
            emit(&json!({"kind": "adaptive", "what": "verify_fri_proof-direct/fewer-caps-and-betas", "verify": o.to_json(), "observation_only": true}));
        }
        let _ = (&ch, &fp, &caps, verify_fri_proof::<F, C, D>);
    }
    Ok(())
}

// ------------------------------------------------------------------------------------------
// `bytes`: decoder fuzzing
// ------------------------------------------------------------------------------------------
/// offsets of the length-like bytes of a plain proof encoding: the u8 Merkle-path lengths and
/// the u64 public-input count
fn layout_plain(fam: &Family) -> Vec<(usize, &'static str)> {
    let c = &fam.data.common;
    let cfg = &c.config;
    let cap = (1usize << cfg.fri_config.cap_height) * 32;
    let mut off = 3 * cap;
    let nops = c.num_constants + cfg.num_routed_wires + cfg.num_wires + 2 * cfg.num_challenges + 2 * (cfg.num_challenges * c.num_lookup_polys)
        + c.num_partial_products * cfg.num_challenges + c.quotient_degree_factor * cfg.num_challenges;
    off += nops * 16;
    off += c.fri_params.reduction_arity_bits.len() * cap;
    let mut out = vec![];
    let salt = salt_size(c.fri_params.hiding);
    let p = &fam.proof.proof.opening_proof;
    for qr in &p.query_round_proofs {
        for (o, (leaf, mp)) in qr.initial_trees_proof.evals_proofs.iter().enumerate() {
            let _ = (o, salt);
            off += leaf.len() * 8;
            out.push((off, "path-len"));
            off += 1 + mp.siblings.len() * 32;
        }
        for st in &qr.steps {
            off += st.evals.len() * 16;
            out.push((off, "path-len"));
            off += 1 + st.merkle_proof.siblings.len() * 32;
        }
    }
    off += p.final_poly.coeffs.len() * 16;
    off += 8; // pow witness
    for i in 0..8 {
        out.push((off + i, "pi-len"));
    }
    out
}

fn layout_compressed(fam: &Family) -> Vec<(usize, &'static str)> {
    let c = &fam.data.common;
    let cfg = &c.config;
    let cap = (1usize << cfg.fri_config.cap_height) * 32;
    let mut off = 3 * cap;
    let nops = c.num_constants + cfg.num_routed_wires + cfg.num_wires + 2 * cfg.num_challenges + 2 * (cfg.num_challenges * c.num_lookup_polys)
        + c.num_partial_products * cfg.num_challenges + c.quotient_degree_factor * cfg.num_challenges;
    off += nops * 16;
    off += c.fri_params.reduction_arity_bits.len() * cap;
    let mut out = vec![];
    for i in 0..cfg.fri_config.num_query_rounds * 4 {
        out.push((off + i, "index"));
    }
    off += cfg.fri_config.num_query_rounds * 4;
    let q = &fam.cproof.proof.opening_proof.query_round_proofs;
    let mut ks: Vec<_> = q.initial_trees_proofs.keys().copied().collect();
    ks.sort_unstable();
    for key in ks {
        for (leaf, mp) in &q.initial_trees_proofs[&key].evals_proofs {
            off += leaf.len() * 8;
            out.push((off, "path-len"));
            off += 1 + mp.siblings.len() * 32;
        }
    }
    for m in &q.steps {
        let mut ks: Vec<_> = m.keys().copied().collect();
        ks.sort_unstable();
        for key in ks {
            let st = &m[&key];
            off += st.evals.len() * 16;
            out.push((off, "path-len"));
            off += 1 + st.merkle_proof.siblings.len() * 32;
        }
    }
    out
}

/// coarse region of a byte offset (for stable keys of bit-flip findings)
fn region_of(fam: &Family, compressed: bool, off: usize, total: usize) -> &'static str {
    let c = &fam.data.common;
    let cfg = &c.config;
    let cap = (1usize << cfg.fri_config.cap_height) * 32;
    let nops = c.num_constants + cfg.num_routed_wires + cfg.num_wires + 2 * cfg.num_challenges + 2 * (cfg.num_challenges * c.num_lookup_polys)
        + c.num_partial_products * cfg.num_challenges + c.quotient_degree_factor * cfg.num_challenges;
    let mut b = 3 * cap;
    if off < b {
        return "caps";
    }
    b += nops * 16;
    if off < b {
        return "openings";
    }
    b += c.fri_params.reduction_arity_bits.len() * cap;
    if off < b {
        return "commit_caps";
    }
    if compressed {
        b += cfg.fri_config.num_query_rounds * 4;
        if off < b {
            return "indices";
        }
    }
    let npis = fam.proof.public_inputs.len();
    let tail = c.fri_params.final_poly_len() * 16 + 8 + if compressed { 0 } else { 8 } + npis * 8;
    if off + tail < total {
        return "query_rounds";
    }
    if off + 8 + if compressed { 0 } else { 8 } + npis * 8 < total {
        return "final_poly";
    }
    if off + if compressed { 0 } else { 8 } + npis * 8 < total {
        return "pow_witness";
    }
    "public_inputs"
}

#[derive(Default)]
struct ByteStats {
    cases: usize,
    decoded: usize,
    decoded_equal: usize,
    rejected_by_verify: usize,
}

fn try_bytes(fam: &Family, compressed: bool, bytes: Vec<u8>, what: &str, detail: Value, st: &mut ByteStats, sites: &mut Vec<Value>) {
    st.cases += 1;
    BIG.store(0, Ordering::SeqCst);
    let common = &fam.data.common;
    let mut report = |ep: &str, o: &Outcome, extra: Value| {
        sites.push(json!({"kind": "bytes", "fam": fam.name, "form": if compressed { "compressed" } else { "plain" }, "what": what, "detail": detail, "ep": ep, "obs": o.to_json(), "extra": extra, "len": 0}));
    };
    if compressed {
        let (o, p) = run_guard(|| CPW::from_bytes(bytes.clone(), common));
        if let Outcome::Panic { .. } = o {
            report("CompressedProofWithPublicInputs::from_bytes", &o, json!({"big_alloc": BIG.load(Ordering::SeqCst)}));
            return;
        }
        let Some(p) = p else { return };
        st.decoded += 1;
        if p == fam.cproof {
            st.decoded_equal += 1;
            return;
        }
        let o1 = run_guard(|| fam.data.verify_compressed(p.clone())).0;
        // a change confined to `indices` is the stated exception
        let mut q = p.clone();
        q.proof.opening_proof.query_round_proofs.indices = fam.cproof.proof.opening_proof.query_round_proofs.indices.clone();
        let only_indices = q == fam.cproof;
        match &o1 {
            Outcome::Ok if only_indices => st.decoded_equal += 1,
            Outcome::Ok => report("from_bytes+verify_compressed", &o1, json!({"accepted": true})),
            Outcome::Panic { .. } => report("from_bytes+verify_compressed", &o1, json!({})),
            Outcome::Err(_) => st.rejected_by_verify += 1,
        }
        let (o2, _) = run_guard(|| fam.data.decompress(p.clone()));
        if let Outcome::Panic { .. } = o2 {
            report("from_bytes+decompress", &o2, json!({}));
        }
    } else {
        let (o, p) = run_guard(|| PW::from_bytes(bytes.clone(), common));
        if let Outcome::Panic { .. } = o {
            report("ProofWithPublicInputs::from_bytes", &o, json!({"big_alloc": BIG.load(Ordering::SeqCst)}));
            return;
        }
        let Some(p) = p else { return };
        st.decoded += 1;
        if p == fam.proof {
            st.decoded_equal += 1;
            return;
        }
        let o1 = run_guard(|| fam.data.verify(p.clone())).0;
        match &o1 {
            Outcome::Ok => report("from_bytes+verify", &o1, json!({"accepted": true})),
            Outcome::Panic { .. } => report("from_bytes+verify", &o1, json!({})),
            Outcome::Err(_) => st.rejected_by_verify += 1,
        }
    }
}

fn bytes_job(fam: &Family, compressed: bool, budget: usize, identity: bool, stream: u64) -> Vec<Value> {
    let mut r = rng(stream);
    let mut outv = vec![];
    let valid = if compressed { fam.cproof.to_bytes() } else { fam.proof.to_bytes() };
    let n = valid.len();
    let mut st = ByteStats::default();
    let mut sites = vec![];
    if identity {
        // binding canary: the untouched encoding must decode to the valid proof
        try_bytes(fam, compressed, valid.clone(), "identity", json!({}), &mut st, &mut sites);
        outv.push(json!({"kind": "bytes-identity", "fam": fam.name, "compressed": compressed, "decoded_equal": st.decoded_equal}));
        return outv;
    }
    // truncations: every length in the first 700 and last 300 bytes, strided in between
    let stride = (n / budget.max(1)).max(1);
    let mut lens: Vec<usize> = (0..n.min(700)).collect();
    lens.extend((700..n.saturating_sub(300)).step_by(stride));
    lens.extend(n.saturating_sub(300)..n);
    lens.sort_unstable();
    lens.dedup();
    for l in lens {
        try_bytes(fam, compressed, valid[..l].to_vec(), "truncate", json!({"len": l, "region": region_of(fam, compressed, l, n)}), &mut st, &mut sites);
    }
    // extension
    for extra in [1usize, 7, 8, 9, 64] {
        let mut b = valid.clone();
        b.extend(std::iter::repeat(0xA5u8).take(extra));
        try_bytes(fam, compressed, b, "extend", json!({"extra": extra}), &mut st, &mut sites);
    }
    // length-like bytes
    let layout = if compressed { layout_compressed(fam) } else { layout_plain(fam) };
    let lstride = (layout.len() / (budget / 4).max(1)).max(1);
    for (i, (off, kind)) in layout.iter().enumerate() {
        if *kind == "path-len" && i % lstride != 0 {
            continue;
        }
        if *off >= n {
            sites.push(json!({"kind": "layout-drift", "fam": fam.name, "off": off, "n": n}));
            continue;
        }
        for v in [0u8, 1, 255, valid[*off].wrapping_add(1), valid[*off].wrapping_sub(1)] {
            if v == valid[*off] {
                continue;
            }
            let mut b = valid.clone();
            b[*off] = v;
            try_bytes(fam, compressed, b, "length-byte", json!({"off": off, "field": kind, "value": v}), &mut st, &mut sites);
        }
    }
    // bit flips: every byte of the first 256 (one bit each), then sampled positions
    for off in 0..n.min(256) {
        let mut b = valid.clone();
        b[off] ^= 1 << (off % 8);
        try_bytes(fam, compressed, b, "bitflip", json!({"off": off, "region": region_of(fam, compressed, off, n)}), &mut st, &mut sites);
    }
    for _ in 0..budget {
        let off = r.gen_range(0..n);
        let mut b = valid.clone();
        b[off] ^= 1 << r.gen_range(0..8);
        try_bytes(fam, compressed, b, "bitflip", json!({"off": off, "region": region_of(fam, compressed, off, n)}), &mut st, &mut sites);
    }
    // random strings and valid prefixes with a random tail
    for i in 0..(budget / 8).max(16) {
        let len = match i % 4 {
            0 => r.gen_range(0..64),
            1 => n,
            2 => r.gen_range(0..n),
            _ => n + r.gen_range(0..64),
        };
        let keep = if i % 2 == 0 { 0 } else { r.gen_range(0..n.min(len + 1)) };
        let mut b: Vec<u8> = valid[..keep.min(len)].to_vec();
        while b.len() < len {
            b.push(r.gen());
        }
        try_bytes(fam, compressed, b, "random", json!({"len": len, "keep": keep}), &mut st, &mut sites);
    }
    // one representative per (entry point, what, region/field, panic site)
    let mut seen = std::collections::BTreeSet::new();
    for sv in sites.iter() {
        let k = format!("{}|{}|{}|{}|{}", sv["ep"], sv["what"], sv["detail"]["region"], sv["detail"]["field"], sv["obs"]["loc"]);
        if seen.insert(k) {
            outv.push(sv.clone());
        }
    }
    outv.push(json!({"summary": "bytes", "fam": fam.name, "compressed": compressed, "len": n, "cases": st.cases, "decoded": st.decoded,
        "decoded_equal": st.decoded_equal, "rejected_by_verify": st.rejected_by_verify, "sites": sites.len()}));
    outv
}

fn bytes_cmd(env: &Env, nf: usize, budget: usize, identity: bool) -> Result<()> {
    let fams = env.byte_families(nf);
    let mut jobs = vec![];
    for fam in &fams {
        for compressed in [false, true] {
            jobs.push((*fam, compressed));
        }
    }
    let mut outs: Vec<Vec<Value>> = vec![];
    std::thread::scope(|s| {
        let hs: Vec<_> = jobs.iter().enumerate().map(|(i, (fam, c))| s.spawn(move || bytes_job(fam, *c, budget, identity, 180 + i as u64))).collect();
        for h in hs {
            outs.push(h.join().expect("bytes worker"));
        }
    });
    for o in outs {
        for v in o {
            emit(&v);
        }
    }
    Ok(())
}

fn main() -> std::process::ExitCode {
    vh::util::run_main(|cmd, rest| {
        install_loc_hook();
        install_alloc_hook();
        let nf = opt_usize(rest, "--fams", 3);
        let threads = opt_usize(rest, "--threads", 8).max(1);
        let budget = opt_usize(rest, "--budget", 2500);
        let bfams = opt_usize(rest, "--byte-fams", 2);
        let alloc_selftest = || {
            let o = run_guard(|| {
                let v: Vec<u8> = Vec::with_capacity(1usize << 40);
                Ok(v.len())
            })
            .0;
            emit(&json!({"kind": "alloc-selftest", "obs": o.to_json(), "big": BIG.swap(0, Ordering::SeqCst)}));
        };
        match cmd {
            // everything of one tier in one process (families are built once)
            "all" => {
                let scen = opt(rest, "--scen").ok_or_else(|| anyhow!("--scen"))?;
                let env = build_env(nf, true)?;
                let t = std::time::Instant::now();
                shapes(&env, scen, threads)?;
                eprintln!("[c18] shapes {:?}", t.elapsed());
                adaptive(rest)?;
                ctamper(&env, nf, false)?;
                ctamper(&env, 1, true)?;
                eprintln!("[c18] +adaptive, ctamper {:?}", t.elapsed());
                bytes_cmd(&env, bfams, budget, false)?;
                bytes_cmd(&env, 1, budget, true)?;
                eprintln!("[c18] +bytes {:?}", t.elapsed());
                alloc_selftest();
                Ok(())
            }
            "shapes" => {
                let scen = opt(rest, "--scen").ok_or_else(|| anyhow!("--scen"))?;
                shapes(&build_env(nf, true)?, scen, threads)
            }
            "ctamper" => ctamper(&build_env(nf, false)?, nf, rest.iter().any(|a| a == "--untampered")),
            "adaptive" => adaptive(rest),
            "bytes" => bytes_cmd(&build_env(bfams.saturating_sub(1), false)?, bfams, budget, rest.iter().any(|a| a == "--identity-selftest")),
            "alloc-selftest" => {
                alloc_selftest();
                Ok(())
            }
            other => Err(anyhow!("unknown command {other}")),
        }
    })
}
