//! C15 — transforms and polynomial algebra agree with their definitions.
//! `c15-record`: operation log of the real FFT / polynomial / permutation code with the step
//! witnesses (Horner partial sums, convolution partial sums, partial products) that TLC needs to
//! check every event flat against spec/PolyOps.tla (via spec/PolyLogTrace.tla).
//! `c15-bulk`: the real code against a naive u128 reference and cross-option equality on many
//! sizes; a sample of the reference's own operations is logged for TLC (spec/OpLogTrace.tla).
use plonky2::field::cosets::get_unique_coset_shifts;
use plonky2::field::fft::{fft_root_table, fft_with_options, ifft_with_options, FftRootTable};
use plonky2::field::interpolation::{barycentric_weights, interpolant, interpolate};
use plonky2::field::packable::Packable;
use plonky2::field::packed::PackedField;
use plonky2::field::polynomial::{PolynomialCoeffs, PolynomialValues};
use plonky2::field::types::{Field, PrimeField64};
use plonky2::field::zero_poly_coset::ZeroPolyOnCoset;
use plonky2::util::{bits_u64, log2_ceil, log2_strict, log_floor, reverse_index_bits, reverse_index_bits_in_place, transpose};
use rand::Rng;
use rand_chacha::ChaCha8Rng;
use serde_json::{json, Value};

use vh::util::*;

// ---- independent reference (plain u128 arithmetic and %) ----------------------------------
fn r_add(a: u64, b: u64) -> u64 {
    (((a % P) as u128 + (b % P) as u128) % P as u128) as u64
}
fn r_sub(a: u64, b: u64) -> u64 {
    (((a % P) as u128 + P as u128 - (b % P) as u128) % P as u128) as u64
}
fn r_mul(a: u64, b: u64) -> u64 {
    (((a % P) as u128 * (b % P) as u128) % P as u128) as u64
}
fn r_pow(a: u64, mut e: u64) -> u64 {
    let mut base = a % P;
    let mut acc = 1u64;
    while e > 0 {
        if e & 1 == 1 {
            acc = r_mul(acc, base);
        }
        base = r_mul(base, base);
        e >>= 1;
    }
    acc
}
fn r_inv(a: u64) -> u64 {
    r_pow(a, P - 2)
}
/// Horner partial sums: acc[0] = 0, acc[i+1] = acc[i] * x + c[m-1-i]  (canonical)
fn horner_chain(c: &[u64], x: u64) -> Vec<u64> {
    let mut acc = Vec::with_capacity(c.len() + 1);
    acc.push(0u64);
    let mut cur = 0u64;
    for &ci in c.iter().rev() {
        cur = r_add(r_mul(cur, x), ci);
        acc.push(cur);
    }
    acc
}
fn r_eval(c: &[u64], x: u64) -> u64 {
    c.iter().rev().fold(0u64, |acc, &ci| r_add(r_mul(acc, x), ci))
}
/// partial sums of coefficient k of a*b (the order PolyOps.ConvCoefOk prescribes)
fn conv_chain(a: &[u64], b: &[u64], k: usize) -> Vec<u64> {
    let mut acc = vec![0u64];
    if a.is_empty() || b.is_empty() {
        return acc;
    }
    let lo = k.saturating_sub(b.len() - 1);
    let hi = k.min(a.len() - 1);
    let mut cur = 0u64;
    let mut i = lo;
    while i <= hi {
        cur = r_add(cur, r_mul(a[i], b[k - i]));
        acc.push(cur);
        i += 1;
    }
    acc
}
fn r_polymul(a: &[u64], b: &[u64]) -> Vec<u64> {
    if a.is_empty() || b.is_empty() {
        return vec![];
    }
    let mut out = vec![0u64; a.len() + b.len() - 1];
    for (i, &x) in a.iter().enumerate() {
        if x % P == 0 {
            continue;
        }
        for (j, &y) in b.iter().enumerate() {
            out[i + j] = r_add(out[i + j], r_mul(x, y));
        }
    }
    out
}
fn r_deg1(c: &[u64]) -> usize {
    (0..c.len()).rev().find(|&i| c[i] % P != 0).map_or(0, |i| i + 1)
}
/// schoolbook long division on canonical coefficients: (q, r), b != 0
fn r_divrem(a: &[u64], b: &[u64]) -> (Vec<u64>, Vec<u64>) {
    let db = r_deg1(b);
    let da = r_deg1(a);
    let mut r: Vec<u64> = a[..da].iter().map(|x| x % P).collect();
    if da < db {
        return (vec![], r);
    }
    let mut q = vec![0u64; da - db + 1];
    let linv = r_inv(b[db - 1]);
    for i in (0..=(da - db)).rev() {
        let coef = r_mul(r[i + db - 1], linv);
        q[i] = coef;
        for j in 0..db {
            r[i + j] = r_sub(r[i + j], r_mul(coef, b[j]));
        }
    }
    r.truncate(db - 1);
    (q, r)
}
/// inverse power series of a modulo X^n (a[0] != 0)
fn r_invmod(a: &[u64], n: usize) -> Vec<u64> {
    let a0i = r_inv(a[0]);
    let mut b = vec![0u64; n];
    b[0] = a0i;
    for k in 1..n {
        let mut s = 0u64;
        for i in 1..=k.min(a.len() - 1) {
            s = r_add(s, r_mul(a[i], b[k - i]));
        }
        b[k] = r_mul(r_sub(0, s), a0i);
    }
    b
}
/// square-and-multiply witness of w^k: (bits msb first, squares, steps)
fn pow_chain(w: u64, k: u64) -> Value {
    let nb = (64 - k.leading_zeros()).max(1) as usize;
    let bits: Vec<u8> = (0..nb).rev().map(|i| ((k >> i) & 1) as u8).collect();
    let mut st = vec![1u64];
    let mut sq = vec![];
    for &b in &bits {
        let s = r_mul(*st.last().unwrap(), *st.last().unwrap());
        sq.push(s);
        st.push(if b == 1 { r_mul(s, w) } else { s });
    }
    json!({"bits": bits, "sq": lv(&sq), "st": lv(&st)})
}
/// x, x^2, x^4, ..., x^(2^lg)
fn sq_chain(x: u64, lg: usize) -> Vec<u64> {
    let mut ch = vec![x % P];
    for _ in 0..lg {
        ch.push(r_mul(*ch.last().unwrap(), *ch.last().unwrap()));
    }
    ch
}
fn rev_bits(i: usize, bits: usize) -> usize {
    let mut r = 0usize;
    for b in 0..bits {
        if (i >> b) & 1 == 1 {
            r |= 1 << (bits - 1 - b);
        }
    }
    r
}

// ---- encoding helpers ----------------------------------------------------------------------
fn lv(xs: &[u64]) -> Value {
    Value::Array(xs.iter().map(|x| limbs(*x)).collect())
}
fn lvv(xs: &[Vec<u64>]) -> Value {
    Value::Array(xs.iter().map(|x| lv(x)).collect())
}
fn raw(xs: &[F]) -> Vec<u64> {
    xs.iter().map(|x| x.to_noncanonical_u64()).collect()
}
fn can(xs: &[u64]) -> Vec<u64> {
    xs.iter().map(|x| x % P).collect()
}
fn fv(xs: &[u64]) -> Vec<F> {
    xs.iter().map(|x| f(*x)).collect()
}
fn eqv(a: &[u64], b: &[u64]) -> bool {
    a.len() == b.len() && a.iter().zip(b).all(|(x, y)| x % P == y % P)
}
/// polynomial equality (missing high coefficients are zero)
fn eqpoly(a: &[u64], b: &[u64]) -> bool {
    let n = a.len().max(b.len());
    (0..n).all(|i| a.get(i).copied().unwrap_or(0) % P == b.get(i).copied().unwrap_or(0) % P)
}
/// trimmed little-endian bytes of a natural
fn nat_bytes(x: u128) -> Value {
    let mut v: Vec<u8> = x.to_le_bytes().to_vec();
    while v.last() == Some(&0) {
        v.pop();
    }
    json!(v)
}
/// a field value of a given class: random canonical, boundary, non-canonical representation
fn gen_val(r: &mut ChaCha8Rng, class: usize) -> u64 {
    match class % 8 {
        0 | 1 | 2 | 3 => r.gen::<u64>() % P,
        4 => [0u64, 1, 2, P - 1, P - 2, 0xFFFF_FFFF, 1 << 32][r.gen_range(0..7)],
        5 => r.gen::<u64>() | 0xFFFF_FFFF_0000_0000, // often >= P: non-canonical
        6 => [P, P + 1, u64::MAX, u64::MAX - 1][r.gen_range(0..4)],
        _ => r.gen::<u64>() >> r.gen_range(0..64),
    }
}
fn gen_vec(r: &mut ChaCha8Rng, n: usize, salt: usize) -> Vec<u64> {
    (0..n).map(|i| gen_val(r, i * 7 + salt)).collect()
}
fn root(lg: usize) -> u64 {
    canon(F::primitive_root_of_unity(lg))
}
fn sample_ks(r: &mut ChaCha8Rng, n: usize, full_n: usize, s: usize) -> Vec<usize> {
    if n <= full_n {
        return (0..n).collect();
    }
    let mut ks = if s >= 4 { vec![0usize, 1, n / 2, n - 1] } else { vec![r.gen_range(1..n)] };
    while ks.len() < s.max(1) {
        let k = r.gen_range(0..n);
        if !ks.contains(&k) {
            ks.push(k);
        }
    }
    ks.truncate(s.max(1));
    ks
}

struct Rec {
    log: NdJson,
    cost: u64, // model multiplications the events will cost TLC
    panics: u64,
}
impl Rec {
    fn put(&mut self, v: Value) {
        self.log.put(&v);
    }
    /// ys[t] must equal c(shift * w^k), w = primitive_root_of_unity(lg); c: raw coefficients
    fn evalpt(&mut self, what: &str, lg: usize, k: usize, shift: u64, fs: bool, c: &[u64], maxlen: usize, ys: &[u64], note: Value) {
        let w = root(lg);
        let wk = r_pow(w, k as u64);
        let x = r_mul(shift, wk);
        let acc = horner_chain(c, x);
        self.cost += c.len() as u64 + 40;
        self.put(json!({"op": "evalpt", "what": what, "lg": lg, "k": k, "w": limbs(w), "pc": pow_chain(w, k as u64), "wk": limbs(wk), "shift": limbs(shift),
                        "fs": fs, "x": limbs(x), "c": lv(c), "maxlen": maxlen, "acc": lv(&acc), "ys": lv(ys), "note": note}));
    }
    fn same(&mut self, what: &str, a: &[u64], b: &[u64], note: Value) {
        self.cost += a.len() as u64 / 8 + 1;
        self.put(json!({"op": "same", "what": what, "a": lv(a), "b": lv(b), "note": note}));
    }
    /// two results that must be equal: full vectors for small sizes, the differing window otherwise
    fn must_equal(&mut self, what: &str, a: &[u64], b: &[u64], note: Value) {
        if eqv(a, b) {
            if a.len() <= 32 {
                self.same(what, a, b, note);
            }
        } else if a.len() != b.len() {
            self.same(what, &a[..a.len().min(8)], &b[..b.len().min(9).min(b.len())], note);
        } else {
            let i = (0..a.len()).find(|&i| a[i] % P != b[i] % P).unwrap();
            let hi = (i + 4).min(a.len());
            self.same(what, &a[i..hi], &b[i..hi], json!({"first_diff": i, "note": note}));
        }
    }
    fn panic(&mut self, what: &str, expected: bool, msg: &str, note: Value) {
        self.panics += 1;
        self.put(json!({"op": "panic", "in": what, "expected": expected, "msg": msg, "note": note}));
    }
}

fn zf_name(z: Option<usize>) -> String {
    match z {
        None => "none".into(),
        Some(r) => format!("{r}"),
    }
}
/// admissible zero_factor options for an input whose last 1 - 2^-r entries are zero
fn zf_variants(r: usize, all: bool) -> Vec<Option<usize>> {
    let mut v = vec![None, Some(0)];
    if all {
        for i in 1..=r {
            v.push(Some(i));
        }
    } else if r > 0 {
        v.push(Some(r));
        if r > 1 {
            v.push(Some(r / 2));
        }
    }
    v
}

// =============================================================================================
// record: section 1 — transforms
// =============================================================================================
fn table_for(n: usize) -> FftRootTable<F> {
    fft_root_table::<F>(n)
}

fn rec_transforms(rc: &mut Rec, r: &mut ChaCha8Rng, lg_max: usize, full_n: usize, s: usize, thorough: bool) {
    for lg in 0..=lg_max {
        let n = 1usize << lg;
        let table = table_for(n);
        for zr in 0..=lg {
            let m = n >> zr;
            let mut input = gen_vec(r, m, lg * 31 + zr);
            if m >= 1 && zr == lg && lg > 0 {
                input[0] = P - 1 - (lg as u64); // single non-zero entry
            }
            let mut full = input.clone();
            full.resize(n, 0);
            let all = lg <= 6 || thorough;
            // ---------------- forward transform, all admissible option settings
            let mut outs: Vec<(String, Vec<u64>)> = vec![];
            for zf in zf_variants(zr, all) {
                for tb in [false, true] {
                    let name = format!("zf={},table={}", zf_name(zf), tb as u8);
                    let inp = PolynomialCoeffs::new(fv(&full));
                    match guarded(|| fft_with_options(inp, zf, if tb { Some(&table) } else { None })) {
                        Ok(v) => outs.push((name, raw(&v.values))),
                        Err(msg) => rc.panic("fft_with_options", false, &msg, json!({"lg": lg, "r": zr, "variant": name})),
                    }
                }
            }
            if outs.is_empty() {
                continue;
            }
            let note = json!({"r": zr, "variants": outs.iter().map(|o| o.0.clone()).collect::<Vec<_>>()});
            for (name, o) in outs.iter().skip(1) {
                rc.must_equal("fft-options", &outs[0].1, o, json!({"lg": lg, "r": zr, "a": outs[0].0, "b": name}));
            }
            let s = if !thorough && n > 1024 { 2 } else { s };
            let ks = sample_ks(r, n, full_n, if zr == 0 { s } else { (s / 2).max(1) });
            for &k in &ks {
                let ys: Vec<u64> = outs.iter().map(|o| o.1[k]).collect();
                rc.evalpt("fft", lg, k, 1, false, &input, n, &ys, note.clone());
            }
            // ---------------- inverse transform of the same vector read as values
            let mut iouts: Vec<(String, Vec<u64>)> = vec![];
            for zf in zf_variants(zr, all && lg <= 4) {
                for tb in [false, true] {
                    let name = format!("zf={},table={}", zf_name(zf), tb as u8);
                    let inp = PolynomialValues::new(fv(&full));
                    match guarded(|| ifft_with_options(inp, zf, if tb { Some(&table) } else { None })) {
                        Ok(v) => iouts.push((name, raw(&v.coeffs))),
                        Err(msg) => rc.panic("ifft_with_options", false, &msg, json!({"lg": lg, "r": zr, "variant": name})),
                    }
                }
            }
            if iouts.is_empty() {
                continue;
            }
            for (name, o) in iouts.iter().skip(1) {
                rc.must_equal("ifft-options", &iouts[0].1, o, json!({"lg": lg, "r": zr, "a": iouts[0].0, "b": name}));
            }
            // the inverse returns the coefficients whose evaluations are the input
            let iks = sample_ks(r, n, full_n, if zr == 0 { if !thorough && n > 1024 { 1 } else { s } } else if n <= 256 { 2 } else { 1 });
            let skip = !thorough && lg > 8 && !(zr == 0 || zr == lg || (zr == 1 && lg <= 10));
            for &k in iks.iter().filter(|_| !skip) {
                rc.evalpt("ifft", lg, k, 1, false, &iouts[0].1, n, &[full[k]], json!({"r": zr, "variant": iouts[0].0}));
            }
        }
        // ---------------- contract: a root table built for another size is refused (fft_classic panics)
        if lg <= 5 {
            for other in [lg + 1, lg.saturating_sub(1)] {
                if other == lg {
                    continue;
                }
                let wrong = table_for(1 << other);
                let inp = PolynomialCoeffs::new(fv(&gen_vec(r, n, lg)));
                match guarded(|| fft_with_options(inp, None, Some(&wrong))) {
                    Err(msg) => rc.panic("fft_with_options/table_of_other_size", true, &msg, json!({"lg": lg, "table_lg": other})),
                    Ok(_) => rc.put(json!({"op": "note", "what": "a root table of another size was accepted", "lg": lg, "table_lg": other})),
                }
            }
        }
        // ---------------- coset variants, every shift class
        let wn = root(lg);
        let rnd = r.gen::<u64>() % P;
        let classes: Vec<(&str, u64)> = vec![
            ("one", 1),
            ("field_shift", canon(F::coset_shift())),
            ("in_subgroup", if lg > 0 { wn } else { 1 }),
            ("random", rnd.max(2)),
            ("minus_one", P - 1),
            ("noncanonical", (rnd % 0xFFFF_FFFF).max(2) + P),
            ("zero", 0),
        ];
        let pick: Vec<usize> = if lg <= 5 || thorough { (0..classes.len()).collect() } else if lg <= 10 { vec![1, 3 + (lg % 3), (lg % 2) * 6] } else { vec![1 + 2 * (lg % 2), 4 + (lg % 2)] };
        for ci in pick {
            let (cname, shift) = classes[ci];
            let zr = if lg >= 2 && ci % 2 == 1 { 1 + (lg + ci) % (lg.min(3)) } else { 0 };
            let m = n >> zr;
            let input = gen_vec(r, m, lg * 17 + ci);
            let mut full = input.clone();
            full.resize(n, 0);
            let poly = PolynomialCoeffs::new(fv(&full));
            let mut outs: Vec<(String, Vec<u64>)> = vec![];
            match guarded(|| poly.coset_fft(f(shift))) {
                Ok(v) => outs.push(("coset_fft".into(), raw(&v.values))),
                Err(msg) => rc.panic("coset_fft", false, &msg, json!({"lg": lg, "shift": cname})),
            }
            for zf in zf_variants(zr, false) {
                for tb in [false, true] {
                    let name = format!("zf={},table={}", zf_name(zf), tb as u8);
                    match guarded(|| poly.coset_fft_with_options(f(shift), zf, if tb { Some(&table) } else { None })) {
                        Ok(v) => outs.push((name, raw(&v.values))),
                        Err(msg) => rc.panic("coset_fft_with_options", false, &msg, json!({"lg": lg, "shift": cname, "variant": name})),
                    }
                }
            }
            if outs.is_empty() {
                continue;
            }
            for (name, o) in outs.iter().skip(1) {
                rc.must_equal("coset-fft-options", &outs[0].1, o, json!({"lg": lg, "shift": cname, "a": outs[0].0, "b": name}));
            }
            let ks = sample_ks(r, n, full_n, if !thorough && n > 1024 { 1 } else { (s / 2).max(2) });
            for &k in &ks {
                let ys: Vec<u64> = outs.iter().map(|o| o.1[k]).collect();
                rc.evalpt("coset_fft", lg, k, shift, false, &input, n, &ys, json!({"shift": cname, "r": zr}));
            }
            // inverse on the coset (shift must be invertible)
            if shift % P != 0 {
                let vals = gen_vec(r, n, lg * 13 + ci);
                match guarded(|| PolynomialValues::new(fv(&vals)).coset_ifft(f(shift))) {
                    Ok(c) => {
                        let c = raw(&c.coeffs);
                        let iks = sample_ks(r, n, full_n.min(8), if !thorough && n > 1024 { 1 } else { 2 });
                        for &k in &iks {
                            rc.evalpt("coset_ifft", lg, k, shift, false, &c, n, &[vals[k]], json!({"shift": cname}));
                        }
                        // and it inverts the forward coset transform
                        if let Ok(back) = guarded(|| PolynomialCoeffs::new(fv(&c)).coset_fft(f(shift))) {
                            rc.must_equal("coset-roundtrip", &vals, &raw(&back.values), json!({"lg": lg, "shift": cname}));
                        }
                    }
                    Err(msg) => rc.panic("coset_ifft", false, &msg, json!({"lg": lg, "shift": cname})),
                }
            }
        }
    }
    // ---------------- low-degree extension of values (subgroup and coset)
    let fshift = canon(F::coset_shift());
    for lg in 0..=lg_max.min(9) {
        let n = 1usize << lg;
        for rb in 0..=3usize {
            if lg + rb > lg_max || (lg > 6 && rb > 1 && !thorough) {
                continue;
            }
            let vals = gen_vec(r, n, lg * 5 + rb);
            // witness polynomial: the real inverse transform (checked against `vals` below)
            let wit = match guarded(|| PolynomialValues::new(fv(&vals)).ifft()) {
                Ok(c) => raw(&c.coeffs),
                Err(msg) => {
                    rc.panic("ifft", false, &msg, json!({"lg": lg}));
                    continue;
                }
            };
            let big = n << rb;
            for (what, coset) in [("lde", false), ("lde_onto_coset", true)] {
                let out = guarded(|| {
                    let pv = PolynomialValues::new(fv(&vals));
                    if coset {
                        pv.lde_onto_coset(rb)
                    } else {
                        pv.lde(rb)
                    }
                });
                match out {
                    Ok(o) => {
                        let o = raw(&o.values);
                        if o.len() != big {
                            rc.same(what, &[o.len() as u64], &[big as u64], json!({"lg": lg, "rb": rb, "what": "length"}));
                            continue;
                        }
                        for &k in &sample_ks(r, n, full_n.min(8), if thorough || (rb == 1 && !coset) { 2 } else { 1 }) {
                            rc.evalpt("lde_in", lg, k, 1, false, &wit, n, &[vals[k]], json!({"rb": rb}));
                        }
                        for &k in &sample_ks(r, big, full_n, (s / 2).max(2)) {
                            rc.evalpt(what, lg + rb, k, if coset { fshift } else { 1 }, coset, &wit, n, &[o[k]], json!({"lg": lg, "rb": rb}));
                        }
                    }
                    Err(msg) => rc.panic(what, false, &msg, json!({"lg": lg, "rb": rb})),
                }
            }
            // PolynomialCoeffs::lde pads with zeros
            let c = PolynomialCoeffs::new(fv(&vals));
            if let Ok(o) = guarded(|| c.lde(rb)) {
                rc.put(json!({"op": "pad", "what": "coeffs.lde", "c": lv(&vals), "out": lv(&raw(&o.coeffs)), "len": big}));
            }
        }
    }
}

// =============================================================================================
// record: section 2 — polynomial algebra
// =============================================================================================
fn accs_for(a: &[u64], b: &[u64], kk: usize) -> Vec<Vec<u64>> {
    (0..kk).map(|k| conv_chain(a, b, k)).collect()
}

/// operands of the degenerate-case split: (family, a, b)
fn div_cases(r: &mut ChaCha8Rng, thorough: bool) -> Vec<(String, Vec<u64>, Vec<u64>)> {
    let mut v: Vec<(String, Vec<u64>, Vec<u64>)> = vec![];
    let rv = |r: &mut ChaCha8Rng, n: usize| -> Vec<u64> {
        let mut x = gen_vec(r, n, n);
        if n > 0 && x[n - 1] % P == 0 {
            x[n - 1] = 3;
        }
        if n > 0 && x[0] % P == 0 {
            x[0] = 5;
        }
        x
    };
    v.push(("a_empty".into(), vec![], rv(r, 3)));
    v.push(("a_zero".into(), vec![0, 0, P], rv(r, 2)));
    v.push(("b_zero".into(), rv(r, 4), vec![0, P]));
    v.push(("b_empty".into(), rv(r, 4), vec![]));
    v.push(("deg_a_lt_deg_b".into(), rv(r, 3), rv(r, 6)));
    v.push(("b_constant".into(), rv(r, 7), vec![r.gen::<u64>() % P + 1]));
    v.push(("b_constant_padded".into(), rv(r, 7), vec![P - 2, 0, 0]));
    v.push(("both_constant".into(), vec![9], vec![P - 1]));
    v.push(("equal_degree".into(), rv(r, 6), rv(r, 6)));
    v.push(("equal_degree_1".into(), rv(r, 2), rv(r, 2)));
    v.push(("a_eq_b".into(), vec![1, 2, 3, 4], vec![1, 2, 3, 4]));
    for (la, lb) in [(2usize, 2usize), (3, 2), (5, 2), (5, 3), (8, 4), (9, 5), (12, 3), (17, 9), (24, 2), (33, 17), (40, 8), (64, 33)] {
        v.push((format!("generic_{la}_{lb}"), rv(r, la), rv(r, lb)));
    }
    // leading zero coefficients in the representation
    let mut a = rv(r, 9);
    a.extend([0, P, 0]);
    let mut b = rv(r, 4);
    b.extend([0, 0]);
    v.push(("untrimmed_operands".into(), a, b));
    // exact division: a = q * b
    let q = rv(r, 5);
    let b = rv(r, 4);
    v.push(("exact".into(), r_polymul(&q, &b), b));
    // divisor with zero low coefficients (b = X^2 * b')
    let mut b = vec![0, 0];
    b.extend(rv(r, 3));
    v.push(("b_low_zero".into(), rv(r, 11), b));
    // quotient with zero low coefficients: a = X^j * q' * b + r
    for (j, lq, lb) in [(1usize, 1usize, 3usize), (1, 3, 3), (2, 2, 4), (3, 4, 2)] {
        let b = rv(r, lb);
        let mut q = vec![0u64; j];
        q.extend(rv(r, lq));
        let mut a = r_polymul(&q, &b);
        if j % 2 == 0 {
            a[0] = r_add(a[0], 1); // with a non-zero remainder
        }
        v.push((format!("q_low_zero_{j}_{lq}_{lb}"), a, b));
    }
    // sparse divisors X^k + c: the inverse power series of the reversed divisor has zero runs
    for (k, da) in [(2usize, 6usize), (2, 9), (3, 10), (4, 11), (4, 12), (4, 16), (8, 24), (8, 27)] {
        let mut b = vec![0u64; k + 1];
        b[0] = if k % 2 == 0 { 5 } else { P - 1 };
        b[k] = 1;
        v.push((format!("sparse_divisor_x{k}_deg{da}"), rv(r, da + 1), b));
    }
    // vanishing polynomial X^8 - 1
    let mut b = vec![0u64; 9];
    b[0] = P - 1;
    b[8] = 1;
    v.push(("sparse_divisor_vanishing8".into(), rv(r, 30), b));
    if thorough {
        for (la, lb) in [(100usize, 37usize), (128, 64), (129, 65), (200, 3), (255, 254), (300, 150)] {
            v.push((format!("generic_{la}_{lb}"), rv(r, la), rv(r, lb)));
        }
    }
    v
}

fn rec_divrem_event(rc: &mut Rec, fun: &str, fam: &str, a: &[u64], b: &[u64], q: &[u64], rm: &[u64], r: &mut ChaCha8Rng) {
    let db1 = r_deg1(b);
    let kk = a.len().max(rm.len()).max((q.len() + b.len()).saturating_sub(1));
    let work: usize = q.len() * b.len();
    if work <= 2500 {
        let accs = accs_for(q, b, kk);
        rc.cost += work as u64 + kk as u64;
        rc.put(json!({"op": "divrem", "fn": fun, "fam": fam, "a": lv(a), "b": lv(b), "q": lv(q), "r": lv(rm), "db1": db1, "accs": lvv(&accs)}));
    } else {
        let x = r.gen::<u64>() % P;
        rc.cost += (a.len() + b.len() + q.len() + rm.len()) as u64;
        rc.put(json!({"op": "divrempt", "fn": fun, "fam": fam, "a": lv(a), "b": lv(b), "q": lv(q), "r": lv(rm), "db1": db1, "x": limbs(x),
                      "ha": lv(&horner_chain(a, x)), "hb": lv(&horner_chain(b, x)), "hq": lv(&horner_chain(q, x)), "hr": lv(&horner_chain(rm, x))}));
    }
}

fn rec_poly(rc: &mut Rec, r: &mut ChaCha8Rng, thorough: bool) {
    // ---------------- multiplication
    let mut sizes: Vec<(usize, usize)> = vec![(0, 0), (0, 3), (3, 0), (1, 1), (1, 5), (5, 1), (2, 2), (3, 5), (4, 4), (7, 9), (8, 8), (16, 16), (17, 15), (20, 13), (31, 33)];
    let big: Vec<(usize, usize)> = if thorough { vec![(100, 57), (128, 128), (129, 127), (500, 500), (1000, 24), (2048, 2047)] } else { vec![(100, 57), (257, 255), (1000, 24)] };
    sizes.extend(big);
    for (i, &(la, lb)) in sizes.iter().enumerate() {
        let mut a = gen_vec(r, la, i);
        let mut b = gen_vec(r, lb, i + 3);
        if i % 4 == 1 && la > 1 {
            a[la - 1] = 0; // leading zero in the representation
        }
        if i % 5 == 2 && lb > 0 {
            b = vec![0; lb]; // zero polynomial
        }
        let pa = PolynomialCoeffs::new(fv(&a));
        let pb = PolynomialCoeffs::new(fv(&b));
        match guarded(|| &pa * &pb) {
            Ok(p) => {
                let p = raw(&p.coeffs);
                if la * lb <= 1200 {
                    rc.cost += (la * lb) as u64 + p.len() as u64;
                    rc.put(json!({"op": "polymul", "a": lv(&a), "b": lv(&b), "r": lv(&p), "accs": lvv(&accs_for(&a, &b, p.len()))}));
                } else {
                    for t in 0..2 {
                        let x = if t == 0 { r.gen::<u64>() % P } else { gen_val(r, 4) };
                        rc.cost += (la + lb + p.len()) as u64;
                        rc.put(json!({"op": "mulpt", "a": lv(&a), "b": lv(&b), "r": lv(&p), "x": limbs(x),
                                      "ha": lv(&horner_chain(&a, x)), "hb": lv(&horner_chain(&b, x)), "hr": lv(&horner_chain(&p, x))}));
                    }
                    for k in [0usize, la.min(lb) / 2, la + lb - 2, p.len() - 1] {
                        let acc = conv_chain(&a, &b, k);
                        rc.cost += acc.len() as u64;
                        rc.put(json!({"op": "convk", "what": "mul", "a": lv(&a), "b": lv(&b), "k": k, "acc": lv(&acc), "rk": limbs(p[k])}));
                    }
                }
            }
            Err(msg) => rc.panic("mul", false, &msg, json!({"la": la, "lb": lb})),
        }
    }
    // ---------------- division with remainder (both implementations)
    for (fam, a, b) in div_cases(r, thorough) {
        let bzero = r_deg1(&b) == 0;
        for fun in ["div_rem", "div_rem_long_division"] {
            let pa = PolynomialCoeffs::new(fv(&a));
            let pb = PolynomialCoeffs::new(fv(&b));
            let res = guarded(|| if fun == "div_rem" { pa.div_rem(&pb) } else { pa.div_rem_long_division(&pb) });
            match res {
                Ok((q, rm)) => {
                    if bzero {
                        // a quotient by the zero polynomial cannot satisfy the definition; a == 0 returns (0, 0) before the check
                        rc.put(json!({"op": "note", "what": "division by zero polynomial returned", "fn": fun, "fam": fam}));
                        continue;
                    }
                    rec_divrem_event(rc, fun, &fam, &a, &b, &raw(&q.coeffs), &raw(&rm.coeffs), r);
                }
                Err(msg) => rc.panic(fun, bzero, &msg, json!({"fam": fam, "a": a, "b": b})),
            }
        }
    }
    // ---------------- division by a linear factor
    for (i, &lp) in [0usize, 1, 2, 3, 5, 16, 33, 200].iter().enumerate() {
        let p = gen_vec(r, lp, i);
        for zc in 0..4 {
            let z = match zc {
                0 => 0,
                1 => 1,
                2 => gen_val(r, 5),
                _ => r.gen::<u64>() % P,
            };
            let pp = PolynomialCoeffs::new(fv(&p));
            match guarded(|| (pp.divide_by_linear(f(z)), pp.eval(f(z)))) {
                Ok((q, ev)) => {
                    let q = raw(&q.coeffs);
                    let zq: Vec<u64> = q.iter().map(|&qi| r_mul(z, qi)).collect();
                    rc.cost += 2 * lp as u64;
                    rc.put(json!({"op": "divlin", "p": lv(&p), "z": limbs(z), "q": lv(&q), "ev": fl(ev), "acc": lv(&horner_chain(&p, z)), "zq": lv(&zq)}));
                }
                Err(msg) => rc.panic("divide_by_linear", false, &msg, json!({"lp": lp, "z": z})),
            }
        }
    }
    // a root of the polynomial: p = (X - z) * s
    {
        let z = r.gen::<u64>() % P;
        let s = gen_vec(r, 6, 1);
        let p = r_polymul(&s, &[r_sub(0, z), 1]);
        let pp = PolynomialCoeffs::new(fv(&p));
        if let Ok((q, ev)) = guarded(|| (pp.divide_by_linear(f(z)), pp.eval(f(z)))) {
            let q = raw(&q.coeffs);
            let zq: Vec<u64> = q.iter().map(|&qi| r_mul(z, qi)).collect();
            rc.put(json!({"op": "divlin", "p": lv(&p), "z": limbs(z), "q": lv(&q), "ev": fl(ev), "acc": lv(&horner_chain(&p, z)), "zq": lv(&zq), "note": "root"}));
        }
    }
    // ---------------- inverse modulo X^n
    let mut inv_cases: Vec<(String, Vec<u64>, usize)> = vec![];
    for (la, n) in [(1usize, 1usize), (1, 5), (2, 1), (2, 2), (3, 4), (5, 3), (5, 8), (4, 9), (9, 16), (16, 16), (7, 31), (20, 32), (40, 17)] {
        let mut a = gen_vec(r, la, la + n);
        if a[0] % P == 0 {
            a[0] = 1;
        }
        inv_cases.push((format!("generic_{la}_{n}"), a, n));
    }
    inv_cases.push(("constant_padded".into(), vec![P - 3, 0, 0], 6));
    for (k, n) in [(2usize, 4usize), (2, 5), (2, 8), (4, 5), (4, 8), (4, 9), (4, 12), (8, 20), (3, 7)] {
        let mut a = vec![0u64; k + 1];
        a[0] = 1;
        a[k] = 5;
        inv_cases.push((format!("sparse_1+5x{k}_mod{n}"), a, n));
    }
    if thorough {
        for (la, n) in [(100usize, 64usize), (64, 100), (33, 128)] {
            let mut a = gen_vec(r, la, la + n);
            a[0] = a[0] % P + (a[0] % P == 0) as u64;
            inv_cases.push((format!("generic_{la}_{n}"), a, n));
        }
    }
    for (fam, a, n) in inv_cases {
        let pa = PolynomialCoeffs::new(fv(&a));
        match guarded(|| pa.inv_mod_xn(n)) {
            Ok(b) => {
                let b = raw(&b.coeffs);
                rc.cost += (n * n / 2 + n) as u64;
                rc.put(json!({"op": "invmod", "fam": fam, "a": lv(&a), "n": n, "b": lv(&b), "accs": lvv(&accs_for(&a, &b, n))}));
            }
            Err(msg) => rc.panic("inv_mod_xn", false, &msg, json!({"fam": fam, "a": a, "n": n})),
        }
    }
    // ---------------- interpolation
    for (i, &np) in [0usize, 1, 2, 3, 4, 5, 8, 9, 16].iter().enumerate() {
        for domain in 0..2 {
            let xs: Vec<u64> = if domain == 0 {
                let mut xs: Vec<u64> = vec![];
                while xs.len() < np {
                    let x = gen_val(r, xs.len() + i);
                    if !xs.iter().any(|y| y % P == x % P) {
                        xs.push(x);
                    }
                }
                xs
            } else {
                let lg = log2_ceil(np.max(1));
                (0..np).map(|j| r_pow(root(lg), j as u64)).collect()
            };
            // overspecified when i is odd: values of a polynomial of lower degree
            let ys: Vec<u64> = if i % 2 == 1 && np > 2 {
                let low = gen_vec(r, np - 2, i);
                xs.iter().map(|&x| r_eval(&low, x)).collect()
            } else {
                gen_vec(r, np, i + 11)
            };
            let pts: Vec<(F, F)> = xs.iter().zip(&ys).map(|(&x, &y)| (f(x), f(y))).collect();
            match guarded(|| interpolant(&pts)) {
                Ok(c) => {
                    let c = raw(&c.coeffs);
                    let accs: Vec<Vec<u64>> = xs.iter().map(|&x| horner_chain(&c, x)).collect();
                    rc.cost += (np * c.len()) as u64;
                    rc.put(json!({"op": "interp", "domain": domain, "xs": lv(&xs), "ys": lv(&ys), "c": lv(&c), "accs": lvv(&accs)}));
                    // barycentric evaluation at a node and off the nodes equals the interpolant there
                    if np >= 1 {
                        if let Ok(w) = guarded(|| barycentric_weights(&pts)) {
                            let wr = raw(&w);
                            let ds: Vec<Vec<u64>> = (0..np).map(|a| (0..np).filter(|&b| b != a).map(|b| r_sub(xs[a], xs[b])).collect()).collect();
                            let pr: Vec<Vec<u64>> = ds.iter().map(|d| {
                                let mut ch = vec![1u64];
                                for &t in d {
                                    ch.push(r_mul(*ch.last().unwrap(), t));
                                }
                                ch
                            }).collect();
                            rc.cost += (np * np) as u64;
                            rc.put(json!({"op": "bary", "xs": lv(&xs), "w": lv(&wr), "ds": lvv(&ds), "pr": lvv(&pr)}));
                            for x in [xs[np / 2], r.gen::<u64>() % P] {
                                if let Ok(y) = guarded(|| interpolate(&pts, f(x), &w)) {
                                    rc.cost += c.len() as u64;
                                    rc.put(json!({"op": "evalat", "what": "interpolate", "c": lv(&c), "x": limbs(x), "acc": lv(&horner_chain(&c, x)), "y": fl(y)}));
                                }
                            }
                        }
                    }
                }
                Err(msg) => rc.panic("interpolant", false, &msg, json!({"np": np, "domain": domain})),
            }
        }
    }
    // ---------------- eval, trim, padding
    for (i, &lc) in [0usize, 1, 2, 7, 64, 150].iter().enumerate() {
        let mut c = gen_vec(r, lc, i);
        let x = gen_val(r, i + 3);
        let pc = PolynomialCoeffs::new(fv(&c));
        if let Ok(y) = guarded(|| pc.eval(f(x))) {
            rc.cost += lc as u64;
            rc.put(json!({"op": "evalat", "what": "eval", "c": lv(&c), "x": limbs(x), "acc": lv(&horner_chain(&c, x)), "y": fl(y)}));
        }
        if lc >= 1 {
            // eval_with_powers: powers x^1 .. x^(lc-1)
            let pw: Vec<F> = (1..lc).map(|e| f(r_pow(x, e as u64))).collect();
            if let Ok(y) = guarded(|| pc.eval_with_powers(&pw)) {
                rc.cost += lc as u64;
                rc.put(json!({"op": "evalat", "what": "eval_with_powers", "c": lv(&c), "x": limbs(x), "acc": lv(&horner_chain(&c, x)), "y": fl(y)}));
            }
        }
        // trailing zeros (some non-canonical) to trim
        for extra in [0usize, 1, 3] {
            let mut cz = c.clone();
            for e in 0..extra {
                cz.push(if e % 2 == 0 { 0 } else { P });
            }
            let pz = PolynomialCoeffs::new(fv(&cz));
            if let Ok((t, d1, lead)) = guarded(|| (pz.trimmed(), pz.degree_plus_one(), pz.lead())) {
                rc.put(json!({"op": "trim", "c": lv(&cz), "out": lv(&raw(&t.coeffs)), "d1": d1, "lead": fl(lead)}));
            }
            let mut pm = pz.clone();
            if guarded(|| pm.trim()).is_ok() {
                rc.put(json!({"op": "trim", "c": lv(&cz), "out": lv(&raw(&pm.coeffs)), "d1": pz.degree_plus_one(), "lead": fl(pz.lead())}));
            }
            for len in [0usize, lc / 2, lc, lc + extra, lc + extra + 1] {
                let mut pt = pz.clone();
                let ok = pt.trim_to_len(len).is_ok();
                rc.put(json!({"op": "trimto", "c": lv(&cz), "len": len, "ok": ok, "out": lv(&raw(&pt.coeffs))}));
                if len >= cz.len() {
                    if let Ok(pd) = guarded(|| pz.padded(len)) {
                        rc.put(json!({"op": "pad", "what": "padded", "c": lv(&cz), "out": lv(&raw(&pd.coeffs)), "len": len}));
                    }
                }
            }
        }
        // all-zero polynomial
        c.iter_mut().for_each(|v| *v = 0);
        let pz = PolynomialCoeffs::new(fv(&c));
        rc.put(json!({"op": "trim", "c": lv(&c), "out": lv(&raw(&pz.trimmed().coeffs)), "d1": pz.degree_plus_one(), "lead": fl(pz.lead())}));
    }
}

// =============================================================================================
// record: section 3 — vanishing polynomial on a coset, coset shifts, permutations, integer helpers
// =============================================================================================
fn rec_misc(rc: &mut Rec, r: &mut ChaCha8Rng, thorough: bool) {
    let fshift = canon(F::coset_shift());
    for nlog in 0..=(if thorough { 10 } else { 6 }) {
        for rb in 0..=3usize {
            let z = match guarded(|| ZeroPolyOnCoset::<F>::new(nlog, rb)) {
                Ok(z) => z,
                Err(msg) => {
                    rc.panic("ZeroPolyOnCoset::new", false, &msg, json!({"nlog": nlog, "rb": rb}));
                    continue;
                }
            };
            let big = 1usize << (nlog + rb);
            let mut is: Vec<usize> = if big <= 8 { (0..big).collect() } else { vec![0, 1, (1 << rb) - 1, 1 << rb, (1 << rb) + 1, big - 1, r.gen_range(0..big)] };
            is.dedup();
            for i in is {
                let w = root(nlog + rb);
                let wi = r_pow(w, i as u64);
                let x = r_mul(fshift, wi);
                match guarded(|| (z.eval(i), z.eval_inverse(i), z.eval_l_0(i, f(x)))) {
                    Ok((zv, zi, l0)) => {
                        let xm1 = r_sub(x, 1);
                        let nd = r_mul((1u64 << nlog) % P, xm1);
                        rc.cost += 120;
                        rc.put(json!({"op": "zpc", "nlog": nlog, "rb": rb, "i": i, "w": limbs(w), "pc": pow_chain(w, i as u64), "wi": limbs(wi), "shift": limbs(fshift), "x": limbs(x),
                                      "xn": lv(&sq_chain(x, nlog)), "z": fl(zv), "zi": fl(zi), "l0": fl(l0), "xm1": limbs(xm1), "nd": limbs(nd)}));
                    }
                    Err(msg) => rc.panic("ZeroPolyOnCoset::eval", false, &msg, json!({"nlog": nlog, "rb": rb, "i": i})),
                }
            }
        }
    }
    for (lg, num) in [(0usize, 1usize), (1, 2), (3, 5), (5, 50), (8, 80), (12, 135), (16, 20)] {
        match guarded(|| get_unique_coset_shifts::<F>(1 << lg, num)) {
            Ok(ks) => {
                let ks = raw(&ks);
                let chs: Vec<Vec<u64>> = ks.iter().map(|&k| sq_chain(k, lg)).collect();
                rc.cost += (num * (lg + 1)) as u64;
                rc.put(json!({"op": "shifts", "lg": lg, "ks": lv(&ks), "chs": lvv(&chs)}));
            }
            Err(msg) => rc.panic("get_unique_coset_shifts", false, &msg, json!({"lg": lg, "num": num})),
        }
    }
    // ---------------- bit-reversal permutations on tagged elements
    for lg in 0..=14usize {
        let n = 1usize << lg;
        let tags: Vec<u64> = (0..n as u64).collect();
        match guarded(|| reverse_index_bits(&tags)) {
            Ok(o) => rc.put(json!({"op": "bitrev", "what": "reverse_index_bits", "lg": lg, "out": o})),
            Err(msg) => rc.panic("reverse_index_bits", false, &msg, json!({"lg": lg})),
        }
        let mut t64 = tags.clone();
        match guarded(|| reverse_index_bits_in_place(&mut t64)) {
            Ok(()) => rc.put(json!({"op": "bitrev", "what": "in_place<u64>", "lg": lg, "out": t64})),
            Err(msg) => rc.panic("reverse_index_bits_in_place<u64>", false, &msg, json!({"lg": lg})),
        }
        if lg >= 11 {
            // 16- and 32-byte elements cross SMALL_ARR_SIZE earlier
            let mut t128: Vec<u128> = (0..n as u128).collect();
            if guarded(|| reverse_index_bits_in_place(&mut t128)).is_ok() {
                rc.put(json!({"op": "bitrev", "what": "in_place<u128>", "lg": lg, "out": t128.iter().map(|x| *x as u64).collect::<Vec<_>>()}));
            }
            let mut t256: Vec<[u64; 4]> = (0..n as u64).map(|i| [i, !i, i, 7]).collect();
            if guarded(|| reverse_index_bits_in_place(&mut t256)).is_ok() {
                rc.put(json!({"op": "bitrev", "what": "in_place<[u64;4]>", "lg": lg, "out": t256.iter().map(|x| x[0]).collect::<Vec<_>>()}));
            }
        }
    }
    // large elements: the chunked / transposing variant is taken for arrays of 8 .. 256 elements
    macro_rules! bigrec {
        ($n:literal) => {
            for lg in 0..=8usize {
                let mut v: Vec<[u64; $n]> = (0..1usize << lg).map(big_elem::<$n>).collect();
                let src = v.clone();
                match guarded(|| reverse_index_bits_in_place(&mut v)) {
                    Ok(()) => {
                        // the whole element moved, not only its tag
                        let whole = (0..v.len()).all(|i| v[i] == src[v[i][0] as usize]);
                        rc.put(json!({"op": "bitrev", "what": concat!("in_place<[u64;", stringify!($n), "]>"), "lg": lg, "bytes": $n * 8,
                                      "strategy": inplace_strategy($n * 8, lg), "whole": whole,
                                      "out": v.iter().map(|x| if whole { x[0] } else { u64::MAX >> 12 }).collect::<Vec<_>>()}));
                    }
                    Err(msg) => rc.panic(concat!("reverse_index_bits_in_place<[u64;", stringify!($n), "]>"), false, &msg, json!({"lg": lg})),
                }
            }
        };
    }
    bigrec!(64);
    bigrec!(256);
    bigrec!(512);
    bigrec!(1024);
    bigrec!(1025);
    bigrec!(2047);
    bigrec!(2048);
    bigrec!(4096);
    // sampled positions above 2^14 (u32 / u16 elements reach the chunked variant at 2^15 / 2^16)
    for (lg, bytes) in [(15usize, 8usize), (15, 4), (16, 4), (16, 2), (17, 4), (18, 8)] {
        let n = 1usize << lg;
        let pos: Vec<usize> = (0..512).map(|t| if t < 4 { [0, 1, n - 1, n / 2][t] } else { r.gen_range(0..n) }).collect();
        let val: Vec<u64> = match bytes {
            8 => {
                let mut v: Vec<u64> = (0..n as u64).collect();
                reverse_index_bits_in_place(&mut v);
                pos.iter().map(|&p| v[p]).collect()
            }
            4 => {
                let mut v: Vec<u32> = (0..n as u32).collect();
                reverse_index_bits_in_place(&mut v);
                pos.iter().map(|&p| v[p] as u64).collect()
            }
            _ => {
                let mut v: Vec<u16> = (0..n).map(|i| i as u16).collect();
                reverse_index_bits_in_place(&mut v);
                pos.iter().map(|&p| v[p] as u64).collect()
            }
        };
        rc.put(json!({"op": "bitrevs", "what": format!("in_place<{}B>", bytes), "lg": lg, "pos": pos, "val": val}));
    }
    // ---------------- rectangular transposes
    for (rows, cols) in [(1usize, 1usize), (1, 5), (5, 1), (3, 4), (4, 3), (8, 8), (7, 13), (2, 0), (64, 100), (100, 64)] {
        let m: Vec<Vec<u64>> = (0..rows).map(|i| (0..cols).map(|j| (i * cols + j) as u64).collect()).collect();
        match guarded(|| transpose(&m)) {
            Ok(t) => rc.put(json!({"op": "transpose", "rows": rows, "cols": cols, "out": t})),
            Err(msg) => rc.panic("transpose", false, &msg, json!({"rows": rows, "cols": cols})),
        }
    }
    // ---------------- integer helpers
    let mut ns: Vec<u64> = (0..=(if thorough { 4100u64 } else { 260 })).collect();
    for k in 1..64 {
        for d in [-1i64, 0, 1] {
            ns.push(((1u64 << k) as i128 + d as i128) as u64);
        }
    }
    ns.extend([u64::MAX, u64::MAX - 1, 0x78c341c65ae6d262, 3 << 40, 5 << 61]);
    for &n in &ns {
        rc.put(json!({"op": "log2c", "n": limbs(n), "r": log2_ceil(n as usize)}));
        rc.put(json!({"op": "bits", "n": limbs(n), "r": bits_u64(n)}));
        match guarded(|| log2_strict(n as usize)) {
            Ok(v) => rc.put(json!({"op": "log2s", "n": limbs(n), "panicked": false, "r": v})),
            Err(_) => rc.put(json!({"op": "log2s", "n": limbs(n), "panicked": true, "r": 0})),
        }
    }
    for &n in ns.iter().filter(|&&n| n > 0).step_by(if thorough { 3 } else { 7 }) {
        for base in [2u64, 3, 10, 1 << 16, (1 << 32) + 1, u64::MAX] {
            if let Ok(v) = guarded(|| log_floor(n, base)) {
                let mut pw: Vec<u128> = vec![1];
                for _ in 0..=v {
                    pw.push(pw.last().unwrap().wrapping_mul(base as u128));
                }
                rc.put(json!({"op": "logfl", "n": nat_bytes(n as u128), "base": nat_bytes(base as u128), "r": v,
                              "pw": pw.iter().map(|x| nat_bytes(*x)).collect::<Vec<_>>()}));
            }
        }
    }
}

/// `c15-record --out <path> [--thorough 1]`
fn record(args: &[String]) -> anyhow::Result<()> {
    let out = opt(args, "--out").ok_or_else(|| anyhow::anyhow!("--out"))?;
    let thorough = opt_usize(args, "--thorough", 0) == 1;
    let lg_max = opt_usize(args, "--lgmax", 12);
    let mut rc = Rec { log: NdJson::create(out)?, cost: 0, panics: 0 };
    let mut r = rng(15);
    // event 1: the field's roots of unity and coset shift
    let g: Vec<u64> = (0..=32).map(|k| F::primitive_root_of_unity(k).to_noncanonical_u64()).collect();
    let shift = F::coset_shift().to_noncanonical_u64();
    let s2 = sq_chain(shift, 32);
    rc.put(json!({"op": "roots", "g": lv(&g), "shift": limbs(shift), "s2": lv(&s2)}));
    let (full_n, s) = if thorough { (32, 8) } else { (16, 4) };
    rec_transforms(&mut rc, &mut r, lg_max, full_n, s, thorough);
    rec_poly(&mut rc, &mut r, thorough);
    rec_misc(&mut rc, &mut r, thorough);
    let (cost, panics) = (rc.cost, rc.panics);
    let n = rc.log.finish();
    emit(&json!({"kind": "c15-record", "events": n, "model_mults": cost, "panics": panics, "out": out,
                 "packed_width": <<F as Packable>::Packing as PackedField>::WIDTH}));
    Ok(())
}

// =============================================================================================
// bulk: the real code against the naive u128 reference, and cross-option equality
// =============================================================================================
struct Bulk {
    cases: u64,
    nontrivial: u64,
    mism: Vec<Value>,
    digest: u64, // order-sensitive digest of every transform output (compared across builds)
    reflog: Option<NdJson>,
    refn: u64,
    fam_total: u64,
    fam_kept: u64,
    other_total: u64,
    /// (type name, element bytes, lb_n, strategy) of every reverse_index_bits_in_place call
    strategies: Vec<(String, usize, usize, &'static str)>,
}
/// Which variant `reverse_index_bits_in_place::<T>` takes, from the constants of /repo/util/src/lib.rs
/// (SMALL_ARR_SIZE = 2^16, BIG_T_SIZE = 2^14; they are private, so transcribed here and in spec/BitRev*.cfg):
/// the trivial swap loop iff size_of::<T>() << lb_n <= SMALL_ARR_SIZE or size_of::<T>() >= BIG_T_SIZE,
/// otherwise rows reversal + one (even lb_n) or two (odd lb_n) square transposes + rows reversal.
fn inplace_strategy(bytes: usize, lb: usize) -> &'static str {
    const SMALL_ARR_SIZE: usize = 1 << 16;
    const BIG_T_SIZE: usize = 1 << 14;
    if (bytes << lb) <= SMALL_ARR_SIZE || bytes >= BIG_T_SIZE {
        "small"
    } else if lb % 2 == 0 {
        "chunked_even"
    } else {
        "chunked_odd"
    }
}
impl Bulk {
    /// mismatches on inputs of the two documented div_rem / inv_mod_xn defect families are capped
    /// separately so that they cannot crowd out anything else
    fn bad(&mut self, v: Value) {
        let fam = v.get("q_low_zero").and_then(|x| x.as_bool()).unwrap_or(false) || v.get("inv_gap").and_then(|x| x.as_bool()).unwrap_or(false);
        if fam {
            self.fam_total += 1;
            if self.fam_kept < 10 {
                self.fam_kept += 1;
                self.mism.push(v);
            }
        } else {
            self.other_total += 1;
            if self.other_total <= 40 {
                self.mism.push(v);
            }
        }
    }
    fn absorb(&mut self, xs: &[u64]) {
        for &x in xs {
            self.digest = (self.digest ^ (x % P)).wrapping_mul(0x100000001b3).rotate_left(17);
        }
    }
    /// reference multiply-accumulate s + a*b, a sample of which is logged for TLC (OpLogTrace "mac")
    fn mac(&mut self, s: u64, a: u64, b: u64) -> u64 {
        let r = r_add(s, r_mul(a, b));
        self.refn += 1;
        if self.refn % 40009 == 0 {
            if let Some(l) = self.reflog.as_mut() {
                l.put(&json!({"op": "mac", "s": limbs(s), "a": limbs(a), "b": limbs(b), "r": limbs(r)}));
            }
        }
        r
    }
    /// naive evaluation of c at x with the reference arithmetic
    fn eval(&mut self, c: &[u64], x: u64) -> u64 {
        let mut acc = 0u64;
        for &ci in c.iter().rev() {
            acc = self.mac(ci, acc, x);
        }
        acc
    }
}

fn bulk_transforms(bk: &mut Bulk, r: &mut ChaCha8Rng, lg_max: usize, reps: usize) {
    for lg in 0..=lg_max {
        let n = 1usize << lg;
        let table = table_for(n);
        let w = root(lg);
        let pows: Vec<u64> = {
            let mut v = vec![1u64];
            for _ in 1..n {
                v.push(r_mul(*v.last().unwrap(), w));
            }
            v
        };
        for rep in 0..reps {
            for zr in 0..=lg {
                if rep > 0 && lg > 8 && zr % 3 != rep % 3 {
                    continue;
                }
                let m = n >> zr;
                let mut full = gen_vec(r, m, rep * 11 + zr);
                full.resize(n, 0);
                // indices compared with the O(n) naive evaluation: all for n <= 1024, 48 sampled above
                let idx: Vec<usize> = if n <= 1024 { (0..n).collect() } else { (0..48).map(|t| if t < 4 { [0, 1, n / 2, n - 1][t] } else { r.gen_range(0..n) }).collect() };
                let expect: Vec<u64> = idx.iter().map(|&k| bk.eval(&full[..m], pows[k])).collect();
                let mut first: Option<Vec<u64>> = None;
                for zf in zf_variants(zr, true) {
                    for tb in [false, true] {
                        bk.cases += 1;
                        let res = guarded(|| fft_with_options(PolynomialCoeffs::new(fv(&full)), zf, if tb { Some(&table) } else { None }));
                        match res {
                            Ok(v) => {
                                let o = raw(&v.values);
                                if let Some((t, &k)) = idx.iter().enumerate().find(|(t, &k)| o[k] % P != expect[*t]) {
                                    bk.bad(json!({"what": "fft", "lg": lg, "r": zr, "zf": zf_name(zf), "table": tb, "index": k, "got": o[k], "expected": expect[t]}));
                                }
                                match &first {
                                    None => {
                                        bk.absorb(&o);
                                        first = Some(o);
                                    }
                                    Some(f0) => {
                                        if !eqv(f0, &o) {
                                            bk.bad(json!({"what": "fft-options-differ", "lg": lg, "r": zr, "zf": zf_name(zf), "table": tb}));
                                        }
                                    }
                                }
                            }
                            Err(msg) => bk.bad(json!({"what": "fft", "lg": lg, "r": zr, "zf": zf_name(zf), "table": tb, "panic": msg})),
                        }
                    }
                }
                bk.nontrivial += 1;
                // inverse: every option setting returns the same coefficients, and they evaluate back to the input
                let mut ifirst: Option<Vec<u64>> = None;
                for zf in zf_variants(zr, lg <= 6) {
                    for tb in [false, true] {
                        bk.cases += 1;
                        match guarded(|| ifft_with_options(PolynomialValues::new(fv(&full)), zf, if tb { Some(&table) } else { None })) {
                            Ok(c) => {
                                let c = raw(&c.coeffs);
                                match &ifirst {
                                    None => {
                                        let chk: Vec<usize> = if n <= 256 { (0..n).collect() } else { idx.iter().copied().take(12).collect() };
                                        for k in chk {
                                            let y = bk.eval(&c, pows[k]);
                                            if y != full[k] % P {
                                                bk.bad(json!({"what": "ifft", "lg": lg, "r": zr, "index": k, "got": y, "expected": full[k] % P}));
                                                break;
                                            }
                                        }
                                        // and the forward transform maps them back
                                        if let Ok(back) = guarded(|| fft_with_options(PolynomialCoeffs::new(fv(&c)), None, None)) {
                                            if !eqv(&raw(&back.values), &full) {
                                                bk.bad(json!({"what": "fft(ifft(v)) != v", "lg": lg, "r": zr}));
                                            }
                                        }
                                        bk.absorb(&c);
                                        ifirst = Some(c);
                                    }
                                    Some(c0) => {
                                        if !eqv(c0, &c) {
                                            bk.bad(json!({"what": "ifft-options-differ", "lg": lg, "r": zr, "zf": zf_name(zf), "table": tb}));
                                        }
                                    }
                                }
                            }
                            Err(msg) => bk.bad(json!({"what": "ifft", "lg": lg, "r": zr, "zf": zf_name(zf), "table": tb, "panic": msg})),
                        }
                    }
                }
            }
            // coset variants with a random shift; lde
            let shift = gen_val(r, rep + 1).max(1);
            if shift % P != 0 {
                let c = gen_vec(r, n, rep + 5);
                let pc = PolynomialCoeffs::new(fv(&c));
                bk.cases += 3;
                match guarded(|| (pc.coset_fft(f(shift)), pc.coset_fft_with_options(f(shift), Some(0), Some(&table)))) {
                    Ok((a, b)) => {
                        let (a, b) = (raw(&a.values), raw(&b.values));
                        if !eqv(&a, &b) {
                            bk.bad(json!({"what": "coset-fft-options-differ", "lg": lg, "shift": shift}));
                        }
                        let ks: Vec<usize> = if n <= 256 { (0..n).collect() } else { (0..16).map(|_| r.gen_range(0..n)).collect() };
                        for k in ks {
                            let y = bk.eval(&c, r_mul(shift, pows[k]));
                            if y != a[k] % P {
                                bk.bad(json!({"what": "coset_fft", "lg": lg, "shift": shift, "index": k, "got": a[k], "expected": y}));
                                break;
                            }
                        }
                        bk.absorb(&a);
                        match guarded(|| PolynomialValues::new(fv(&a)).coset_ifft(f(shift))) {
                            Ok(back) => {
                                if !eqv(&raw(&back.coeffs), &c) {
                                    bk.bad(json!({"what": "coset_ifft(coset_fft(c)) != c", "lg": lg, "shift": shift}));
                                }
                            }
                            Err(msg) => bk.bad(json!({"what": "coset_ifft", "lg": lg, "shift": shift, "panic": msg})),
                        }
                    }
                    Err(msg) => bk.bad(json!({"what": "coset_fft", "lg": lg, "shift": shift, "panic": msg})),
                }
            }
            for rb in 1..=3usize {
                if lg + rb > lg_max {
                    continue;
                }
                let vals = gen_vec(r, n, rep + rb);
                bk.cases += 2;
                // lde agrees with the input on the subgroup and is the evaluation of ifft(vals)
                if let Ok((o, oc, c)) = guarded(|| {
                    let pv = PolynomialValues::new(fv(&vals));
                    (pv.clone().lde(rb), pv.clone().lde_onto_coset(rb), pv.ifft())
                }) {
                    let (o, oc, c) = (raw(&o.values), raw(&oc.values), raw(&c.coeffs));
                    let big = n << rb;
                    if o.len() != big || oc.len() != big || (0..n).any(|i| o[i << rb] % P != vals[i] % P) {
                        bk.bad(json!({"what": "lde does not extend its input", "lg": lg, "rb": rb}));
                    }
                    let wb = root(lg + rb);
                    let fs = canon(F::coset_shift());
                    for _ in 0..6 {
                        let k = r.gen_range(0..big);
                        let x = r_pow(wb, k as u64);
                        if bk.eval(&c, x) != o[k] % P {
                            bk.bad(json!({"what": "lde", "lg": lg, "rb": rb, "index": k}));
                        }
                        if bk.eval(&c, r_mul(fs, x)) != oc[k] % P {
                            bk.bad(json!({"what": "lde_onto_coset", "lg": lg, "rb": rb, "index": k}));
                        }
                    }
                    bk.absorb(&o);
                    bk.absorb(&oc);
                } else {
                    bk.bad(json!({"what": "lde", "lg": lg, "rb": rb, "panic": true}));
                }
            }
        }
    }
}

/// the inverse power series of rev(b) has a zero coefficient at some index 2^j - 1 < n
fn has_inv_gap(h: &[u64], n: usize) -> bool {
    if h.is_empty() || h[0] % P == 0 || n == 0 {
        return false;
    }
    let inv = r_invmod(h, n);
    let mut j = 1usize;
    while (1usize << j) - 1 < n {
        if inv[(1 << j) - 1] == 0 {
            return true;
        }
        j += 1;
    }
    false
}

fn bulk_poly(bk: &mut Bulk, r: &mut ChaCha8Rng, n_cases: usize) {
    for t in 0..n_cases {
        let la = match t % 5 {
            0 => r.gen_range(0..6),
            1 => r.gen_range(0..40),
            _ => r.gen_range(0..200),
        };
        let lb = match t % 7 {
            0 => r.gen_range(0..4),
            1 => la,
            _ => r.gen_range(0..120),
        };
        let mut a = gen_vec(r, la, t);
        let mut b = gen_vec(r, lb, t + 1);
        // structured operands: sparse, zero low / high coefficients
        if t % 11 == 3 {
            for (i, v) in b.iter_mut().enumerate() {
                if i != 0 && i + 1 != lb {
                    *v = 0;
                }
            }
        }
        if t % 13 == 5 && la > 2 {
            a[0] = 0;
            a[1] = 0;
        }
        if t % 17 == 7 && lb > 1 {
            b[lb - 1] = 0;
        }
        let (ca, cb) = (can(&a), can(&b));
        let pa = PolynomialCoeffs::new(fv(&a));
        let pb = PolynomialCoeffs::new(fv(&b));
        bk.cases += 1;
        bk.nontrivial += 1;
        // multiplication
        match guarded(|| &pa * &pb) {
            Ok(p) => {
                if !eqpoly(&raw(&p.coeffs), &r_polymul(&ca, &cb)) {
                    bk.bad(json!({"what": "mul", "a": a, "b": b}));
                }
            }
            Err(msg) => bk.bad(json!({"what": "mul", "a": a, "b": b, "panic": msg})),
        }
        // division
        let (da, db) = (r_deg1(&ca), r_deg1(&cb));
        if db > 0 {
            let (q0, r0) = r_divrem(&ca, &cb);
            // classification of the input (not of the verdict): known defect families of div_rem
            let q_low_zero = da >= db && q0[0] == 0;
            let revb: Vec<u64> = cb[..db].iter().rev().copied().collect();
            let gap = da >= db && has_inv_gap(&revb, da - db + 1);
            for fun in ["div_rem", "div_rem_long_division"] {
                bk.cases += 1;
                let res = guarded(|| if fun == "div_rem" { pa.div_rem(&pb) } else { pa.div_rem_long_division(&pb) });
                match res {
                    Ok((q, rm)) => {
                        if !eqpoly(&raw(&q.coeffs), &q0) || !eqpoly(&raw(&rm.coeffs), &r0) {
                            bk.bad(json!({"what": fun, "a": a, "b": b, "q_low_zero": q_low_zero, "inv_gap": gap,
                                          "got_q": raw(&q.coeffs), "got_r": raw(&rm.coeffs), "expected_q": q0, "expected_r": r0}));
                        }
                    }
                    Err(msg) => bk.bad(json!({"what": fun, "a": a, "b": b, "q_low_zero": q_low_zero, "inv_gap": gap, "panic": msg})),
                }
            }
        }
        // division by a linear factor, inverse modulo X^n
        let z = gen_val(r, t);
        bk.cases += 1;
        match guarded(|| pa.divide_by_linear(f(z))) {
            Ok(q) => {
                let (q0, _) = if la > 0 { r_divrem_monic_linear(&ca, z % P) } else { (vec![], 0) };
                if !eqpoly(&raw(&q.coeffs), &q0) {
                    bk.bad(json!({"what": "divide_by_linear", "p": a, "z": z}));
                }
            }
            Err(msg) => bk.bad(json!({"what": "divide_by_linear", "p": a, "z": z, "panic": msg})),
        }
        if la > 0 && ca[0] != 0 {
            let n = 1 + t % 70;
            bk.cases += 1;
            let gap = has_inv_gap(&ca, n);
            match guarded(|| pa.inv_mod_xn(n)) {
                Ok(inv) => {
                    if !eqpoly(&raw(&inv.coeffs), &r_invmod(&ca, n)) {
                        bk.bad(json!({"what": "inv_mod_xn", "a": a, "n": n, "inv_gap": gap}));
                    }
                }
                Err(msg) => bk.bad(json!({"what": "inv_mod_xn", "a": a, "n": n, "inv_gap": gap, "panic": msg})),
            }
        }
        // interpolation through up to 24 points
        if t % 4 == 0 {
            let np = t / 4 % 25;
            let mut xs: Vec<u64> = vec![];
            while xs.len() < np {
                let x = r.gen::<u64>() % P;
                if !xs.contains(&x) {
                    xs.push(x);
                }
            }
            let c0 = gen_vec(r, np, t);
            let pts: Vec<(F, F)> = xs.iter().map(|&x| (f(x), f(r_eval(&c0, x)))).collect();
            bk.cases += 1;
            match guarded(|| interpolant(&pts)) {
                Ok(c) => {
                    if !eqpoly(&raw(&c.coeffs), &c0) {
                        bk.bad(json!({"what": "interpolant", "xs": xs, "coeffs": c0}));
                    }
                }
                Err(msg) => bk.bad(json!({"what": "interpolant", "xs": xs, "panic": msg})),
            }
        }
    }
}
/// synthetic division of c by (X - z): (quotient, remainder)
fn r_divrem_monic_linear(c: &[u64], z: u64) -> (Vec<u64>, u64) {
    let mut q = vec![0u64; c.len() - 1];
    let mut acc = 0u64;
    for i in (0..c.len()).rev() {
        acc = r_add(r_mul(acc, z), c[i]);
        if i > 0 {
            q[i - 1] = acc;
        }
    }
    (q, acc)
}

fn check_perm<T: Copy + PartialEq + Send + Sync>(bk: &mut Bulk, name: &str, lg: usize, make: impl Fn(usize) -> T) {
    let n = 1usize << lg;
    let src: Vec<T> = (0..n).map(&make).collect();
    bk.cases += 2;
    bk.nontrivial += 1;
    bk.strategies.push((name.to_string(), std::mem::size_of::<T>(), lg, inplace_strategy(std::mem::size_of::<T>(), lg)));
    match guarded(|| reverse_index_bits(&src)) {
        Ok(o) => {
            if o.len() != n || (0..n).any(|i| o[i] != src[rev_bits(i, lg)]) {
                bk.bad(json!({"what": "reverse_index_bits", "type": name, "lg": lg}));
            }
        }
        Err(msg) => bk.bad(json!({"what": "reverse_index_bits", "type": name, "lg": lg, "panic": msg})),
    }
    let mut v = src.clone();
    match guarded(|| reverse_index_bits_in_place(&mut v)) {
        Ok(()) => {
            if let Some(i) = (0..n).find(|&i| v[i] != src[rev_bits(i, lg)]) {
                bk.bad(json!({"what": "reverse_index_bits_in_place", "type": name, "lg": lg, "index": i}));
            }
        }
        Err(msg) => bk.bad(json!({"what": "reverse_index_bits_in_place", "type": name, "lg": lg, "panic": msg})),
    }
}

/// `[u64; N]` tagged with its original index: word 0 = index, the other words derived from it
fn big_elem<const N: usize>(i: usize) -> [u64; N] {
    let mut a = [0u64; N];
    for (k, w) in a.iter_mut().enumerate() {
        *w = (i as u64).wrapping_mul(0x9E37_79B9_7F4A_7C15).rotate_left((k % 64) as u32) ^ (k as u64);
    }
    a[0] = i as u64;
    a
}

fn bulk_perms(bk: &mut Bulk, lg_hi: usize) {
    let h = |i: usize| (i as u64).wrapping_mul(0x9E37_79B9_7F4A_7C15) >> 7;
    // the strategy cut-over depends on the element size in bytes: with KiB-sized elements the
    // chunked / transposing variant is already taken for arrays of 8 .. 64 elements
    let deep = lg_hi > 18; // thorough: up to ~32 MiB per array
    macro_rules! big {
        ($n:literal, $quick:expr, $thorough:expr) => {
            for lg in 0..=(if deep { $thorough } else { $quick }) {
                check_perm::<[u64; $n]>(bk, concat!("[u64;", stringify!($n), "]"), lg, big_elem::<$n>);
            }
        };
    }
    big!(64, 11, 16); //   512 B: chunked from lb_n = 8
    big!(256, 9, 14); //   2 KiB: chunked from lb_n = 6
    big!(512, 8, 13); //   4 KiB: chunked from lb_n = 5
    big!(1024, 8, 12); //  8 KiB: chunked from lb_n = 4
    big!(1025, 8, 11); //  8 KiB + 8: chunked from lb_n = 3 (arrays of 8 elements)
    big!(2047, 8, 10); //  BIG_T_SIZE - 8: chunked from lb_n = 3
    big!(2048, 8, 10); //  BIG_T_SIZE: always the swap loop
    big!(4096, 8, 10); //  32 KiB: always the swap loop
    for lg in 0..=lg_hi {
        check_perm::<u8>(bk, "u8", lg, |i| (h(i) % 251) as u8);
        check_perm::<u16>(bk, "u16", lg, |i| h(i) as u16);
        check_perm::<[u8; 3]>(bk, "[u8;3]", lg, |i| [i as u8, (i >> 8) as u8, (i >> 16) as u8]);
        check_perm::<u32>(bk, "u32", lg, |i| i as u32);
        if lg <= 18 {
            check_perm::<u64>(bk, "u64", lg, |i| i as u64);
            check_perm::<u128>(bk, "u128", lg, |i| (i as u128) << 64 | h(i) as u128);
            check_perm::<F>(bk, "GoldilocksField", lg, |i| fc(h(i)));
        }
        if lg <= 15 {
            check_perm::<[u64; 4]>(bk, "[u64;4]", lg, |i| [i as u64, h(i), 0, 1]);
            check_perm::<[u64; 5]>(bk, "[u64;5]", lg, |i| [i as u64, h(i), 0, 1, 2]);
        }
    }
    // transposes
    for (rows, cols) in [(1usize, 1usize), (1, 7), (7, 1), (3, 5), (16, 16), (17, 31), (128, 3), (3, 128), (200, 300), (5, 0)] {
        let m: Vec<Vec<u32>> = (0..rows).map(|i| (0..cols).map(|j| (i * cols + j) as u32).collect()).collect();
        bk.cases += 1;
        match guarded(|| transpose(&m)) {
            Ok(t) => {
                let ok = t.len() == cols && (0..cols).all(|i| t[i].len() == rows && (0..rows).all(|j| t[i][j] == m[j][i]));
                if !ok {
                    bk.bad(json!({"what": "transpose", "rows": rows, "cols": cols}));
                }
            }
            Err(msg) => bk.bad(json!({"what": "transpose", "rows": rows, "cols": cols, "panic": msg})),
        }
    }
    // integer helpers against their definitions
    for n in (0u64..5000).chain((1..64).flat_map(|k| [(1u64 << k) - 1, 1u64 << k, (1u64 << k) + 1])).chain([u64::MAX]) {
        bk.cases += 1;
        let c = log2_ceil(n as usize);
        let okc = if n <= 1 { c == 0 } else { c <= 64 && (c == 64 || (1u128 << c) >= n as u128) && (1u128 << (c - 1)) < n as u128 };
        let b = bits_u64(n);
        let okb = if n == 0 { b == 0 } else { (n as u128) < (1u128 << b) && n >= (1u64 << (b - 1)) };
        let s = guarded(|| log2_strict(n as usize));
        let oks = match s {
            Ok(v) => n.is_power_of_two() && (1u64 << v) == n,
            Err(_) => !n.is_power_of_two(),
        };
        if !(okc && okb && oks) {
            bk.bad(json!({"what": "int helpers", "n": n, "log2_ceil": c, "bits": b}));
        }
    }
}

/// `c15-bulk [--lgmax 13] [--reps 2] [--poly 3000] [--permlg 18] [--reflog path]`
fn bulk(args: &[String]) -> anyhow::Result<()> {
    let lg_max = opt_usize(args, "--lgmax", 13);
    let reps = opt_usize(args, "--reps", 2);
    let npoly = opt_usize(args, "--poly", 3000);
    let permlg = opt_usize(args, "--permlg", 18);
    let reflog = match opt(args, "--reflog") {
        Some(p) => Some(NdJson::create(p)?),
        None => None,
    };
    let mut bk = Bulk { cases: 0, nontrivial: 0, mism: vec![], digest: 0xcbf29ce484222325, reflog, refn: 0, fam_total: 0, fam_kept: 0, other_total: 0, strategies: vec![] };
    let mut r = rng(16);
    // reference multiply-accumulate on the boundary lattice: logged for TLC (Limbs oracle and the fast MacEq of PolyOps)
    if let Some(l) = bk.reflog.as_mut() {
        let mut r = rng(17); // own stream: the transform inputs must not depend on --reflog
        let bw = boundary_words();
        for (i, &a) in bw.iter().enumerate() {
            for (j, &b) in bw.iter().enumerate() {
                if (i * 7 + j * 3) % 4 != 0 {
                    continue;
                }
                let s0 = if (i + j) % 3 == 0 { bw[(i * j) % bw.len()] } else { r.gen::<u64>() };
                l.put(&json!({"op": "mac", "s": limbs(s0), "a": limbs(a), "b": limbs(b), "r": limbs(r_add(s0, r_mul(a, b)))}));
            }
        }
    }
    bulk_transforms(&mut bk, &mut r, lg_max, reps);
    let transform_digest = bk.digest;
    bulk_poly(&mut bk, &mut r, npoly);
    bulk_perms(&mut bk, permlg);
    let reflog_events = bk.reflog.take().map(|l| l.finish()).unwrap_or(0);
    // (element size, lb_n) -> strategy of reverse_index_bits_in_place, per element type
    let mut strat: Vec<Value> = vec![];
    let mut names: Vec<(String, usize)> = bk.strategies.iter().map(|s| (s.0.clone(), s.1)).collect();
    names.sort_by_key(|x| (x.1, x.0.clone()));
    names.dedup();
    for (name, bytes) in names {
        let pick = |what: &str| -> Vec<usize> { bk.strategies.iter().filter(|s| s.0 == name && s.3 == what).map(|s| s.2).collect() };
        strat.push(json!({"type": name, "bytes": bytes, "small": pick("small"), "chunked_even": pick("chunked_even"), "chunked_odd": pick("chunked_odd")}));
    }
    emit(&json!({"kind": "c15-bulk", "inplace_strategies": strat, "cases": bk.cases, "nontrivial": bk.nontrivial, "mismatches": bk.mism, "mismatches_defect_families": bk.fam_total, "mismatches_other": bk.other_total,
                 "transform_digest": format!("{:016x}", transform_digest), "reference_ops": bk.refn, "reflog_events": reflog_events,
                 "packed_width": <<F as Packable>::Packing as PackedField>::WIDTH}));
    Ok(())
}

fn main() -> std::process::ExitCode {
    vh::util::run_main(|cmd, rest| match cmd {
        "c15-record" => record(rest),
        "c15-bulk" => bulk(rest),
        other => Err(anyhow::anyhow!("unknown command {other}")),
    })
}
