use plonky2::field::polynomial::PolynomialCoeffs;
use plonky2::field::types::Field;
use vh::util::*;

fn main() -> std::process::ExitCode {
    vh::util::run_main(|cmd, _rest| match cmd {
        "probe" => {
            let h = PolynomialCoeffs::new(vec![fc(1), fc(0), fc(0), fc(0), fc(5)]);
            for n in [5usize, 8, 9, 12, 16] {
                let r = guarded(|| h.inv_mod_xn(n));
                println!("inv_mod_xn n={} -> {:?}", n, r.map(|p| p.coeffs.iter().map(|x| canon(*x)).collect::<Vec<_>>()));
            }
            let b = PolynomialCoeffs::new(vec![fc(5), fc(0), fc(0), fc(0), fc(1)]);
            for da in [8usize, 11, 12, 13, 16] {
                let a = PolynomialCoeffs::new((0..=da).map(|i| fc(i as u64 + 1)).collect());
                let r = guarded(|| a.div_rem(&b));
                println!("div_rem deg a={} -> {:?}", da, r.map(|(q, r)| (q.coeffs.iter().map(|x| canon(*x)).collect::<Vec<_>>(), r.coeffs.iter().map(|x| canon(*x)).collect::<Vec<_>>())));
                let r = guarded(|| a.div_rem_long_division(&b));
                println!("long    deg a={} -> {:?}", da, r.map(|(q, r)| (q.coeffs.iter().map(|x| canon(*x)).collect::<Vec<_>>(), r.coeffs.iter().map(|x| canon(*x)).collect::<Vec<_>>())));
            }
            let show = |p: &PolynomialCoeffs<F>| p.coeffs.iter().map(|x| canon(*x)).collect::<Vec<_>>();
            // quotient with zero constant term: a = x * b
            let b = PolynomialCoeffs::new(vec![fc(1), fc(1), fc(1)]);
            let a = PolynomialCoeffs::new(vec![fc(0), fc(1), fc(1), fc(1)]);
            println!("x*b / b: {:?}", guarded(|| a.div_rem(&b)).map(|(q, r)| (show(&q), show(&r))));
            println!("long   : {:?}", guarded(|| a.div_rem_long_division(&b)).map(|(q, r)| (show(&q), show(&r))));
            let b = PolynomialCoeffs::new(vec![fc(5), fc(0), fc(1)]);
            let a = PolynomialCoeffs::new((0..7).map(|i| fc(i as u64 + 1)).collect());
            println!("deg6 / x^2+5: {:?}", guarded(|| a.div_rem(&b)).map(|(q, r)| (show(&q), show(&r))));
            println!("long        : {:?}", guarded(|| a.div_rem_long_division(&b)).map(|(q, r)| (show(&q), show(&r))));
            Ok(())
        }
        other => Err(anyhow::anyhow!("unknown command {other}")),
    })
}
