//! C11 — the in-circuit STARK verifier agrees with the native one, incl. the variable-degree mode.
//! `run --in scenarios.ndjson [--selftest]`: per scenario one STARK definition, one configuration and
//! one verifier circuit (fixed degree, or sized for `maxdb` with `min_degree_bits_to_support`);
//! proofs of every listed trace length x every adversary class of spec/RecVerifier.tla (STARK
//! instance) are judged by `verify_stark_proof` and presented to the circuit through
//! `set_stark_proof_with_pis_target` + witness generation + the satisfaction oracle.
use plonky2::field::extension::quadratic::QuadraticExtension;
use plonky2::field::extension::FieldExtension;
use plonky2::field::packed::PackedField;
use plonky2::field::polynomial::PolynomialValues;
use plonky2::field::types::Field;
use plonky2::fri::reduction_strategies::FriReductionStrategy;
use plonky2::fri::{FriConfig, FriParams};
use plonky2::hash::merkle_tree::MerkleCap;
use plonky2::iop::ext_target::ExtensionTarget;
use plonky2::iop::generator::generate_partial_witness;
use plonky2::iop::witness::PartialWitness;
use plonky2::plonk::circuit_builder::CircuitBuilder;
use plonky2::plonk::circuit_data::{CircuitConfig, CircuitData};
use plonky2::plonk::config::{GenericConfig, PoseidonGoldilocksConfig};
use plonky2::util::timing::TimingTree;
use plonky2::verif_knobs::{self, Knobs};
use rand::Rng;
use rand::SeedableRng;
use rand_chacha::ChaCha8Rng;
use serde_json::{json, Value};
use starky::config::StarkConfig;
use starky::constraint_consumer::{ConstraintConsumer, RecursiveConstraintConsumer};
use starky::evaluation_frame::{StarkEvaluationFrame, StarkFrame};
use starky::lookup::{Column, Filter, Lookup};
use starky::proof::StarkProofWithPublicInputs;
use starky::prover::prove;
use starky::recursive_verifier::{add_virtual_stark_proof_with_pis, set_stark_proof_with_pis_target, verify_stark_proof_circuit};
use starky::stark::Stark;
use starky::verifier::verify_stark_proof;
use vh::oracle::{self, Assignment};
use vh::util::*;

const D: usize = 2;
type C = PoseidonGoldilocksConfig;
type H = <C as GenericConfig<D>>::Hasher;
type FE = QuadraticExtension<F>;
type SP = StarkProofWithPublicInputs<F, C, D>;

// ------------------------------------------------------------------------------------------
// the STARK definitions: a chain with all four constraint kinds
//   first row  x0 = pi0, x1 = pi1;  last row x1 = pi2
//   transition x0' = x1, x1' = x0 + x1 (deg 2 system) | x0 + x1^3 (deg 3 system)
//   every row  x2 = x0 * x1
// ------------------------------------------------------------------------------------------
#[derive(Clone, Copy, Debug)]
struct Chain {
    d: usize,
}
const COLS: usize = 3;
const NPI: usize = 3;

impl Chain {
    fn step(&self, x0: F, x1: F) -> (F, F) {
        (x1, if self.d == 2 { x0 + x1 } else { x0 + x1 * x1 * x1 })
    }
    fn trace(&self, n: usize, x0: F, x1: F) -> (Vec<Vec<F>>, [F; 3]) {
        let mut rows = Vec::with_capacity(n);
        let (mut a, mut b) = (x0, x1);
        for _ in 0..n {
            rows.push(vec![a, b, a * b]);
            let (na, nb) = self.step(a, b);
            a = na;
            b = nb;
        }
        let last = rows[n - 1][1];
        (rows, [x0, x1, last])
    }
}
fn to_polys(rows: &[Vec<F>]) -> Vec<PolynomialValues<F>> {
    (0..rows[0].len()).map(|c| PolynomialValues::new(rows.iter().map(|r| r[c]).collect())).collect()
}

impl Stark<F, D> for Chain {
    type EvaluationFrame<FE2, P, const D2: usize>
        = StarkFrame<P, P::Scalar, COLS, NPI>
    where
        FE2: FieldExtension<D2, BaseField = F>,
        P: PackedField<Scalar = FE2>;
    type EvaluationFrameTarget = StarkFrame<ExtensionTarget<D>, ExtensionTarget<D>, COLS, NPI>;

    fn eval_packed_generic<FE2, P, const D2: usize>(&self, vars: &Self::EvaluationFrame<FE2, P, D2>, yc: &mut ConstraintConsumer<P>)
    where
        FE2: FieldExtension<D2, BaseField = F>,
        P: PackedField<Scalar = FE2>,
    {
        let l = vars.get_local_values();
        let n = vars.get_next_values();
        let p = vars.get_public_inputs();
        yc.constraint_first_row(l[0] - p[0]);
        yc.constraint_first_row(l[1] - p[1]);
        yc.constraint_last_row(l[1] - p[2]);
        yc.constraint_transition(n[0] - l[1]);
        if self.d == 2 {
            yc.constraint_transition(n[1] - l[0] - l[1]);
        } else {
            yc.constraint_transition(n[1] - l[0] - l[1] * l[1] * l[1]);
        }
        yc.constraint(l[2] - l[0] * l[1]);
    }

    fn eval_ext_circuit(&self, b: &mut CircuitBuilder<F, D>, vars: &Self::EvaluationFrameTarget, yc: &mut RecursiveConstraintConsumer<F, D>) {
        let l = vars.get_local_values();
        let n = vars.get_next_values();
        let p = vars.get_public_inputs();
        let c0 = b.sub_extension(l[0], p[0]);
        yc.constraint_first_row(b, c0);
        let c1 = b.sub_extension(l[1], p[1]);
        yc.constraint_first_row(b, c1);
        let c2 = b.sub_extension(l[1], p[2]);
        yc.constraint_last_row(b, c2);
        let t0 = b.sub_extension(n[0], l[1]);
        yc.constraint_transition(b, t0);
        let rhs = if self.d == 2 {
            b.add_extension(l[0], l[1])
        } else {
            let sq = b.mul_extension(l[1], l[1]);
            let cu = b.mul_extension(sq, l[1]);
            b.add_extension(l[0], cu)
        };
        let t1 = b.sub_extension(n[1], rhs);
        yc.constraint_transition(b, t1);
        let prod = b.mul_extension(l[0], l[1]);
        let a = b.sub_extension(l[2], prod);
        yc.constraint(b, a);
    }

    fn constraint_degree(&self) -> usize {
        self.d
    }
}

/// a member of the STARK family of this check
trait Member: Stark<F, D> + Copy {
    /// a satisfying trace of n rows and its public inputs
    fn gen(&self, n: usize, r: &mut ChaCha8Rng) -> (Vec<Vec<F>>, Vec<F>);
    /// a cell of a looking column that its filter counts (members with lookups)
    fn lookup_cell(&self, rows: &[Vec<F>], r: &mut ChaCha8Rng) -> (usize, usize) {
        (r.gen_range(0..rows.len()), 0)
    }
    /// a cell whose change certainly violates an ordinary constraint
    fn constrained_cell(&self, rows: &[Vec<F>], r: &mut ChaCha8Rng) -> (usize, usize) {
        (r.gen_range(0..rows.len()), r.gen_range(0..rows[0].len()))
    }
    /// does a lookup column / filter of this member read the next row?
    fn has_next(&self) -> Option<bool> {
        None
    }
    fn describe(&self) -> Value;
}
impl Member for Chain {
    fn gen(&self, n: usize, r: &mut ChaCha8Rng) -> (Vec<Vec<F>>, Vec<F>) {
        let (rows, pis) = self.trace(n, F::from_canonical_u64(r.gen_range(0..P)), F::from_canonical_u64(r.gen_range(0..P)));
        (rows, pis.to_vec())
    }
    fn describe(&self) -> Value {
        json!({"chain_degree": self.d})
    }
}

// ------------------------------------------------------------------------------------------
// members with a logUp lookup: every circuit-side column / filter evaluator with a native twin
//   columns: 0 a, 1 b (looking data, small), 2 t (table: t_i = i), 3 f (frequencies), 4 flt, 5 g (0/1 filters),
//            6 pw = a^d (the one ordinary constraint, degree d), 7 unused
//   variant 0  looking single(a)
//           1  looking single_next_row(a)
//           2  looking linear_combination(a + 2b), filter = flt
//           3  looking linear_combination_and_next_row(a + b' + 1), filter = flt * g (a product)
//           4  looking single(a) and single_next_row(b), the second filtered by flt on the NEXT row
//           5  looking single(a), table declared on the next row
// ------------------------------------------------------------------------------------------
#[derive(Clone, Copy, Debug)]
struct Lk {
    variant: usize,
    d: usize,
}
const LCOLS: usize = 8;

impl Lk {
    fn looking(&self) -> Vec<Column<F>> {
        match self.variant {
            0 | 5 => vec![Column::single(0)],
            1 => vec![Column::single_next_row(0)],
            2 => vec![Column::linear_combination([(0, F::ONE), (1, F::TWO)])],
            3 => vec![Column::linear_combination_and_next_row_with_constant([(0, F::ONE)], [(1, F::ONE)], F::ONE)],
            _ => vec![Column::single(0), Column::single_next_row(1)],
        }
    }
    fn filters(&self) -> Vec<Filter<F>> {
        match self.variant {
            2 => vec![Filter::new_simple(Column::single(4))],
            3 => vec![Filter::new(vec![(Column::single(4), Column::single(5))], vec![])],
            4 => vec![Filter::default(), Filter::new_simple(Column::single_next_row(4))],
            _ => vec![Filter::default()],
        }
    }
    fn table(&self) -> Column<F> {
        if self.variant == 5 {
            Column::single_next_row(2)
        } else {
            Column::single(2)
        }
    }
    /// (value looked up, filter value) per looking column at row i
    fn looked(&self, rows: &[Vec<u64>], i: usize) -> Vec<(u64, u64)> {
        let n = rows.len();
        let nx = (i + 1) % n;
        match self.variant {
            0 | 5 => vec![(rows[i][0], 1)],
            1 => vec![(rows[nx][0], 1)],
            2 => vec![(rows[i][0] + 2 * rows[i][1], rows[i][4])],
            3 => vec![(rows[i][0] + rows[nx][1] + 1, rows[i][4] * rows[i][5])],
            _ => vec![(rows[i][0], 1), (rows[nx][1], rows[nx][4])],
        }
    }
    fn has_next_row_column(&self) -> bool {
        matches!(self.variant, 1 | 3 | 4 | 5)
    }
}

impl Member for Lk {
    fn gen(&self, n: usize, r: &mut ChaCha8Rng) -> (Vec<Vec<F>>, Vec<F>) {
        let small = (n / 4).max(1) as u64;
        let mut rows: Vec<Vec<u64>> = (0..n)
            .map(|i| vec![r.gen_range(0..small), r.gen_range(0..small), i as u64, 0, r.gen_range(0..2), r.gen_range(0..2), 0, r.gen_range(0..1000)])
            .collect();
        // frequencies: at row j the multiplicity of the table value of row j among the (filtered) looked values
        let mut count = vec![0u64; n];
        for i in 0..n {
            for (v, f) in self.looked(&rows, i) {
                count[v as usize] += f;
            }
        }
        for j in 0..n {
            let tv = if self.variant == 5 { rows[(j + 1) % n][2] } else { rows[j][2] };
            rows[j][3] = count[tv as usize];
        }
        let out = rows
            .iter()
            .map(|row| {
                let mut v: Vec<F> = row.iter().map(|x| F::from_canonical_u64(*x)).collect();
                let a = v[0];
                v[6] = if self.d == 2 { a * a } else { a * a * a };
                v
            })
            .collect();
        (out, vec![])
    }
    fn lookup_cell(&self, rows: &[Vec<F>], r: &mut ChaCha8Rng) -> (usize, usize) {
        use plonky2::field::types::PrimeField64;
        // a cell of a looking column whose filter is on (column b: the next-row part, read from the previous row)
        let n = rows.len();
        let v = |i: usize, c: usize| rows[i % n][c].to_canonical_u64();
        for _ in 0..200 {
            let i = r.gen_range(0..n);
            let col = if matches!(self.variant, 2 | 3 | 4) && r.gen_bool(0.5) { 1 } else { 0 };
            let on = match (self.variant, col) {
                (2, _) => v(i, 4) == 1,
                (3, 0) => v(i, 4) * v(i, 5) == 1,
                (3, _) => v(i + n - 1, 4) * v(i + n - 1, 5) == 1,
                (4, 1) => v(i, 4) == 1,
                _ => true,
            };
            if on {
                return (i, col);
            }
        }
        (0, 0)
    }
    fn constrained_cell(&self, rows: &[Vec<F>], r: &mut ChaCha8Rng) -> (usize, usize) {
        (r.gen_range(0..rows.len()), 6)         // pw = a^d; the filter columns and column 7 are free
    }
    fn has_next(&self) -> Option<bool> {
        Some(self.has_next_row_column())
    }
    fn describe(&self) -> Value {
        json!({"lookup_variant": self.variant, "degree": self.d, "next_row_column": self.has_next_row_column(),
               "filter": matches!(self.variant, 2 | 3 | 4), "product_filter": self.variant == 3})
    }
}

impl Stark<F, D> for Lk {
    type EvaluationFrame<FE2, P, const D2: usize>
        = StarkFrame<P, P::Scalar, LCOLS, 0>
    where
        FE2: FieldExtension<D2, BaseField = F>,
        P: PackedField<Scalar = FE2>;
    type EvaluationFrameTarget = StarkFrame<ExtensionTarget<D>, ExtensionTarget<D>, LCOLS, 0>;

    fn eval_packed_generic<FE2, P, const D2: usize>(&self, vars: &Self::EvaluationFrame<FE2, P, D2>, yc: &mut ConstraintConsumer<P>)
    where
        FE2: FieldExtension<D2, BaseField = F>,
        P: PackedField<Scalar = FE2>,
    {
        let l = vars.get_local_values();
        let pw = if self.d == 2 { l[0] * l[0] } else { l[0] * l[0] * l[0] };
        yc.constraint(l[6] - pw);
    }
    fn eval_ext_circuit(&self, b: &mut CircuitBuilder<F, D>, vars: &Self::EvaluationFrameTarget, yc: &mut RecursiveConstraintConsumer<F, D>) {
        let l = vars.get_local_values();
        let sq = b.mul_extension(l[0], l[0]);
        let pw = if self.d == 2 { sq } else { b.mul_extension(sq, l[0]) };
        let c = b.sub_extension(l[6], pw);
        yc.constraint(b, c);
    }
    fn constraint_degree(&self) -> usize {
        self.d
    }
    fn lookups(&self) -> Vec<Lookup<F>> {
        vec![Lookup { columns: self.looking(), table_column: self.table(), frequencies_column: Column::single(3), filter_columns: self.filters() }]
    }
}

// ------------------------------------------------------------------------------------------
fn read_lines(path: &str) -> anyhow::Result<Vec<Value>> {
    use std::io::BufRead;
    let f = std::fs::File::open(path)?;
    let mut v = vec![];
    for l in std::io::BufReader::new(f).lines() {
        let l = l?;
        if !l.trim().is_empty() {
            v.push(serde_json::from_str(&l)?);
        }
    }
    Ok(v)
}
fn rng_for(id: &str, stream: u64) -> ChaCha8Rng {
    let mut h = 0xcbf2_9ce4_8422_2325u64;
    for b in id.bytes() {
        h = (h ^ b as u64).wrapping_mul(0x0000_0100_0000_01b3);
    }
    let mut r = ChaCha8Rng::seed_from_u64(seed() ^ h);
    r.set_stream(stream);
    r
}
fn stark_config(v: &Value) -> StarkConfig {
    let g = |k: &str, d: u64| v[k].as_u64().unwrap_or(d) as usize;
    let (rate, q, pow) = (g("rate", 1), g("q", 84), g("pow", 16));
    StarkConfig {
        security_bits: (q * rate + pow).min(100),
        num_challenges: g("nc", 2),
        fri_config: FriConfig {
            rate_bits: rate,
            cap_height: g("cap", 4),
            proof_of_work_bits: pow as u32,
            reduction_strategy: FriReductionStrategy::ConstantArityBits(g("a", 4), g("f", 5)),
            num_query_rounds: q,
        },
    }
}

fn bump(x: &mut F, r: &mut ChaCha8Rng) {
    let old = *x;
    *x = match r.gen_range(0..3) {
        0 => old + F::ONE,
        1 => {
            if old == F::ZERO {
                F::NEG_ONE
            } else {
                F::ZERO
            }
        }
        _ => {
            let y = F::from_canonical_u64(r.gen_range(0..P));
            if y == old {
                old + F::TWO
            } else {
                y
            }
        }
    };
}
fn bump_ext(v: &mut [FE], r: &mut ChaCha8Rng) -> Option<Value> {
    if v.is_empty() {
        return None;
    }
    let i = r.gen_range(0..v.len());
    let l = r.gen_range(0..2);
    bump(&mut v[i].0[l], r);
    Some(json!({"i": i, "limb": l}))
}
fn bump_cap(cap: &mut MerkleCap<F, H>, r: &mut ChaCha8Rng) -> Option<Value> {
    if cap.0.is_empty() {
        return None;
    }
    let i = r.gen_range(0..cap.0.len());
    let j = r.gen_range(0..4);
    bump(&mut cap.0[i].elements[j], r);
    Some(json!({"entry": i, "elt": j}))
}
fn split_class(class: &str) -> (&str, Option<usize>) {
    let class = class.strip_suffix("@last").unwrap_or(class);
    match class.split_once(':') {
        Some((b, a)) => (b, a.parse::<usize>().ok()),
        None => (class, None),
    }
}
fn model_layer(l: usize, nreal: usize) -> usize {
    let nl = nreal.min(3);
    if nl > 0 && l == nl - 1 {
        nreal - 1
    } else if l < nl {
        l
    } else {
        usize::MAX
    }
}

/// shape-preserving value tamper of one element of the component `class`
#[allow(dead_code)]
fn tamper(p: &mut SP, class: &str, r: &mut ChaCha8Rng) -> Option<Value> {
    let nreal = p.proof.opening_proof.commit_phase_merkle_caps.len();
    let real = split_class(class).1.map(|l| model_layer(l, nreal));
    tamper_at(p, class, real, r)
}
/// `real_layer`: the REAL layer for the layer-indexed classes; `kind:i@last` = last query round, sibling classes
/// without the suffix = first query round
fn tamper_at(p: &mut SP, class: &str, real_layer: Option<usize>, r: &mut ChaCha8Rng) -> Option<Value> {
    let (base, arg) = split_class(class);
    let arg = if matches!(base, "commit_cap" | "step_eval" | "step_path") { real_layer } else { arg };
    let nrounds = p.proof.opening_proof.query_round_proofs.len();
    let round = if class.ends_with("@last") { nrounds - 1 } else if matches!(base, "init_path" | "step_path") { 0 } else { r.gen_range(0..nrounds) };
    match base {
        "pis" => {
            if p.public_inputs.is_empty() {
                return None;
            }
            let i = r.gen_range(0..p.public_inputs.len());
            bump(&mut p.public_inputs[i], r);
            return Some(json!({"i": i}));
        }
        "trace_cap" => return bump_cap(&mut p.proof.trace_cap, r),
        "quot_cap" => return bump_cap(p.proof.quotient_polys_cap.as_mut()?, r),
        "aux_cap" => return bump_cap(p.proof.auxiliary_polys_cap.as_mut()?, r),
        "op_aux" => return bump_ext(p.proof.openings.auxiliary_polys.as_mut()?, r),
        "op_aux_next" => return bump_ext(p.proof.openings.auxiliary_polys_next.as_mut()?, r),
        "op_local" => return bump_ext(&mut p.proof.openings.local_values, r),
        "op_next" => return bump_ext(&mut p.proof.openings.next_values, r),
        "op_quot" => return bump_ext(p.proof.openings.quotient_polys.as_mut()?, r),
        _ => {}
    }
    let fp = &mut p.proof.opening_proof;
    match base {
        "commit_cap" => {
            let l = arg?;
            if l >= fp.commit_phase_merkle_caps.len() {
                return None;
            }
            let mut d = bump_cap(&mut fp.commit_phase_merkle_caps[l], r)?;
            d["layer"] = json!(l);
            Some(d)
        }
        "final_poly" => bump_ext(&mut fp.final_poly.coeffs, r),
        "pow_witness" => {
            bump(&mut fp.pow_witness, r);
            Some(json!({}))
        }
        "init_leaf" | "init_path" => {
            let q = round;
            let eps = &mut fp.query_round_proofs[q].initial_trees_proof.evals_proofs;
            let o = arg?;
            if o >= eps.len() {
                return None;
            }
            if base == "init_leaf" {
                let i = r.gen_range(0..eps[o].0.len());
                bump(&mut eps[o].0[i], r);
                Some(json!({"round": q, "oracle": o, "i": i}))
            } else {
                if eps[o].1.siblings.is_empty() {
                    return None;
                }
                let s = r.gen_range(0..eps[o].1.siblings.len());
                let j = r.gen_range(0..4);
                bump(&mut eps[o].1.siblings[s].elements[j], r);
                Some(json!({"round": q, "oracle": o, "sibling": s, "elt": j}))
            }
        }
        "step_eval" | "step_path" => {
            let q = round;
            let steps = &mut fp.query_round_proofs[q].steps;
            let l = arg?;
            if l >= steps.len() {
                return None;
            }
            if base == "step_eval" {
                let mut d = bump_ext(&mut steps[l].evals, r)?;
                d["round"] = json!(q);
                d["layer"] = json!(l);
                Some(d)
            } else {
                if steps[l].merkle_proof.siblings.is_empty() {
                    return None;
                }
                let s = r.gen_range(0..steps[l].merkle_proof.siblings.len());
                let j = r.gen_range(0..4);
                bump(&mut steps[l].merkle_proof.siblings[s].elements[j], r);
                Some(json!({"round": q, "layer": l, "sibling": s, "elt": j}))
            }
        }
        _ => None,
    }
}

fn resize<T: Clone>(v: &mut Vec<T>, surplus: bool, fill: T) -> Option<Value> {
    let before = v.len();
    if surplus {
        let x = v.last().cloned().unwrap_or(fill);
        v.push(x);
    } else {
        v.pop()?;
    }
    Some(json!({"len_before": before, "len_after": v.len()}))
}
/// shape classes: ONE list of an otherwise valid proof gets one surplus element / loses its last element
fn shape_tamper(p: &mut SP, list: &str, surplus: bool, r: &mut ChaCha8Rng) -> Option<Value> {
    let (base, arg) = split_class(list);
    let zh = plonky2::hash::hash_types::HashOut::<F>::ZERO;
    let ze = FE::ZERO;
    let nreal = p.proof.opening_proof.commit_phase_merkle_caps.len();
    let layer = arg.map(|l| model_layer(l, nreal));
    match base {
        "pis" => return resize(&mut p.public_inputs, surplus, F::ZERO),
        "trace_cap" => return resize(&mut p.proof.trace_cap.0, surplus, zh),
        "quot_cap" => return resize(&mut p.proof.quotient_polys_cap.as_mut()?.0, surplus, zh),
        "op_local" => return resize(&mut p.proof.openings.local_values, surplus, ze),
        "op_next" => return resize(&mut p.proof.openings.next_values, surplus, ze),
        "op_quot" => return resize(p.proof.openings.quotient_polys.as_mut()?, surplus, ze),
        _ => {}
    }
    let fp = &mut p.proof.opening_proof;
    match base {
        "final_poly" => resize(&mut fp.final_poly.coeffs, surplus, ze),
        "commit_caps" => resize(&mut fp.commit_phase_merkle_caps, surplus, MerkleCap(vec![zh; 1])),
        "commit_cap" => resize(&mut fp.commit_phase_merkle_caps.get_mut(layer?)?.0, surplus, zh),
        "rounds" => {
            let before = fp.query_round_proofs.len();
            if surplus {
                let x = fp.query_round_proofs.last()?.clone();
                fp.query_round_proofs.push(x);
            } else {
                fp.query_round_proofs.pop()?;
            }
            Some(json!({"len_before": before, "len_after": fp.query_round_proofs.len()}))
        }
        "init_leaf" | "init_path" | "step_eval" | "step_path" => {
            let nr = fp.query_round_proofs.len();
            // never round 0 for the first initial path: the trace length is recovered from it (another statement)
            let q = if nr > 1 { r.gen_range(1..nr) } else { 0 };
            let round = &mut fp.query_round_proofs[q];
            let mut d = match base {
                "init_leaf" => resize(&mut round.initial_trees_proof.evals_proofs.get_mut(arg?)?.0, surplus, F::ZERO),
                "init_path" => resize(&mut round.initial_trees_proof.evals_proofs.get_mut(arg?)?.1.siblings, surplus, zh),
                "step_eval" => resize(&mut round.steps.get_mut(layer?)?.evals, surplus, ze),
                _ => resize(&mut round.steps.get_mut(layer?)?.merkle_proof.siblings, surplus, zh),
            }?;
            d["round"] = json!(q);
            Some(d)
        }
        _ => None,
    }
}

fn prove_with<S: Member>(stark: S, cfg: &StarkConfig, rows: &[Vec<F>], pis: &[F], vparams: Option<FriParams>, k: Option<Knobs>) -> Result<SP, String> {
    if let Some(k) = k {
        verif_knobs::set(k);
    }
    let r = guarded(|| prove::<F, C, S, D>(stark, cfg, to_polys(rows), pis, vparams, &mut TimingTree::default()));
    verif_knobs::clear();
    match r {
        Ok(Ok(p)) => Ok(p),
        Ok(Err(e)) => Err(format!("prove err: {e:#}")),
        Err(p) => Err(format!("prove panic: {p}")),
    }
}

fn pow_response<S: Member>(stark: S, p: &SP, cfg: &StarkConfig, vparams: Option<FriParams>) -> u64 {
    use plonky2::field::types::PrimeField64;
    let mut ch = plonky2::iop::challenger::Challenger::<F, H>::new();
    p.get_challenges(&stark, &mut ch, None, None, false, cfg, vparams).fri_challenges.fri_pow_response.to_canonical_u64()
}

fn native<S: Member>(stark: S, p: &SP, cfg: &StarkConfig, vparams: Option<FriParams>) -> (bool, String) {
    match guarded(|| verify_stark_proof::<F, C, S, D>(stark, p.clone(), cfg, vparams)) {
        Ok(Ok(())) => (true, String::new()),
        Ok(Err(e)) => (false, format!("{e:#}").chars().take(120).collect()),
        Err(pn) => (false, format!("panic: {pn}").chars().take(120).collect()),
    }
}

fn run_scenario(s: &Value, selftest_all: bool) -> Vec<Value> {
    let d = s["d"].as_u64().unwrap_or(2) as usize;
    if s["family"].as_str() == Some("lk") {
        run_member(s, Lk { variant: s["variant"].as_u64().unwrap_or(0) as usize, d }, selftest_all)
    } else {
        run_member(s, Chain { d }, selftest_all)
    }
}

fn run_member<S: Member>(s: &Value, stark: S, selftest_all: bool) -> Vec<Value> {
    let id = s["id"].as_str().unwrap_or("?").to_string();
    let mut out = vec![];
    let mut r = rng_for(&id, 11);
    let cfg = stark_config(&s["cfg"]);
    let var = s["mode"].as_str() == Some("var");
    let maxdb = s["maxdb"].as_u64().unwrap() as usize;
    let mindb = s["mindb"].as_u64().unwrap_or(maxdb as u64) as usize;
    let dbs: Vec<usize> = serde_json::from_value(s["dbs"].clone()).unwrap_or_else(|_| vec![maxdb]);
    let per_class = s["per_class"].as_u64().unwrap_or(1) as usize;
    let sample = s["sample"].as_u64().unwrap_or(1) as usize;
    let vparams = if var { Some(cfg.fri_params(maxdb)) } else { None };
    // ---- the verifier circuit
    let t0 = std::time::Instant::now();
    let built = guarded(|| {
        let mut b = CircuitBuilder::<F, D>::new(CircuitConfig::standard_recursion_config());
        let zero = b.zero();
        let pt = add_virtual_stark_proof_with_pis(&mut b, &stark, &cfg, maxdb, 0, 0);
        verify_stark_proof_circuit::<F, C, S, D>(&mut b, stark, pt.clone(), &cfg, if var { Some(mindb) } else { None });
        b.register_public_inputs(&pt.public_inputs);
        let data: CircuitData<F, C, D> = b.build::<C>();
        (data, pt, zero)
    });
    let (outer, pt, zero) = match built {
        Ok(x) => x,
        Err(p) => return vec![json!({"id": id, "skipped": format!("circuit build panic: {}", p.chars().take(160).collect::<String>())})],
    };
    let constants = oracle::constants_by_row(&outer.prover_only, &outer.common);
    out.push(json!({"id": id, "shape": {"mode": s["mode"], "d": stark.constraint_degree(), "family": s["family"], "member": stark.describe(), "maxdb": maxdb, "mindb": mindb, "outer_degree_bits": outer.common.degree_bits(),
        "build_ms": t0.elapsed().as_millis() as u64, "binding_bits": cfg.fri_config.num_query_rounds * cfg.fri_config.rate_bits + cfg.fri_config.proof_of_work_bits as usize,
        "circuit_layers": cfg.fri_params(maxdb).reduction_arity_bits}}));
    let accept = |p: &SP| -> (bool, bool, &'static str, String) {
        let mut pw = PartialWitness::new();
        let db = p.proof.recover_degree_bits(&cfg);
        match guarded(|| set_stark_proof_with_pis_target(&mut pw, &pt, p, db, zero)) {
            Ok(Ok(())) => {}
            Ok(Err(e)) => return (false, false, "assign_err", format!("{e:#}").chars().take(120).collect()),
            Err(pn) => return (false, false, "assign_panic", pn.chars().take(120).collect()),
        }
        let w = match guarded(|| generate_partial_witness(pw, &outer.prover_only, &outer.common)) {
            Ok(Ok(w)) => w,
            Ok(Err(e)) => return (true, false, "witgen_err", format!("{e:#}").chars().take(120).collect()),
            Err(pn) => return (true, false, "witgen_panic", pn.chars().take(120).collect()),
        };
        let v = oracle::check(&Assignment::from_partition(&w), &outer.prover_only, &outer.common, &constants);
        if v.satisfied() {
            (true, true, "sat", String::new())
        } else {
            (true, false, "oracle_unsat", format!("gate rows {:?}", v.gate_violations.iter().take(3).collect::<Vec<_>>()))
        }
    };
    let mut sampled = 0usize;
    for &db in &dbs {
        let n = 1usize << db;
        let (rows, pis) = stark.gen(n, &mut r);
        let honest = match prove_with(stark, &cfg, &rows, &pis, vparams.clone(), None) {
            Ok(p) => p,
            Err(e) => {
                out.push(json!({"id": id, "db": db, "skipped": e}));
                continue;
            }
        };
        let nlayers = honest.proof.opening_proof.commit_phase_merkle_caps.len();
        out.push(json!({"id": id, "db": db, "length": {"layers": nlayers, "rounds": honest.proof.opening_proof.query_round_proofs.len(),
            "init_siblings": honest.proof.opening_proof.query_round_proofs[0].initial_trees_proof.evals_proofs[0].1.siblings.len(),
            "step_siblings": honest.proof.opening_proof.query_round_proofs[0].steps.iter().map(|st| st.merkle_proof.siblings.len()).collect::<Vec<_>>()}}));
        let classes: Vec<String> = serde_json::from_value(s["classes"][nlayers.min(3).to_string()].clone()).unwrap_or_default();
        // binding self-test (scenario field "selftest"): an extra pass over final_poly with the untampered proof assigned
        let passes: Vec<(bool, Vec<String>)> = if s["selftest"].as_bool().unwrap_or(false) {
            vec![(selftest_all, classes.clone()), (true, vec!["final_poly".to_string()])]
        } else {
            vec![(selftest_all, classes.clone())]
        };
        for (selftest, classes) in &passes {
        let selftest = *selftest;
        for class in classes {
            let c = class.as_str();
            let mut cases: Vec<(SP, Value)> = vec![];
            match split_class(c).0 {
                "none" => cases.push((honest.clone(), json!({}))),
                // honest proofs of members without / with a next-row lookup column
                "honest_lk_local" | "honest_lk_next" => {
                    if stark.has_next() == Some(c == "honest_lk_next") {
                        cases.push((honest.clone(), json!(stark.describe())));
                    }
                }
                "corrupt_trace" | "corrupt_lookup" => {
                    for _ in 0..per_class {
                        let mut rows2 = rows.clone();
                        let (i, j) = if c == "corrupt_lookup" { stark.lookup_cell(&rows, &mut r) } else { stark.constrained_cell(&rows, &mut r) };
                        rows2[i][j] += F::from_canonical_u64(1 + if c == "corrupt_lookup" { 0 } else { r.gen_range(0..1000u64) });
                        let mut k = Knobs::default();
                        k.lenient_trim = true;
                        if let Ok(p) = prove_with(stark, &cfg, &rows2, &pis, vparams.clone(), Some(k)) {
                            cases.push((p, json!({"row": i, "col": j})));
                        }
                    }
                }
                "pow_short1" | "pow_exact" => {
                    // boundary of the grinding condition (the STARK prover is deterministic: candidates are tried by hashing)
                    let bits = cfg.fri_config.proof_of_work_bits;
                    let zeros = if c == "pow_short1" { bits.wrapping_sub(1) } else { bits };
                    if (1..=10).contains(&bits) {
                        let mut q = honest.clone();
                        let mut found = None;
                        for _ in 0..8000 {
                            let w = r.gen_range(0..P);
                            q.proof.opening_proof.pow_witness = F::from_canonical_u64(w);
                            if pow_response(stark, &q, &cfg, vparams.clone()).leading_zeros() == zeros {
                                found = Some(w);
                                break;
                            }
                        }
                        if let Some(w) = found {
                            let mut k = Knobs::default();
                            k.pow_witness = Some(w);
                            if let Ok(p) = prove_with(stark, &cfg, &rows, &pis, vparams.clone(), Some(k)) {
                                if pow_response(stark, &p, &cfg, vparams.clone()).leading_zeros() == zeros {
                                    cases.push((p, json!({"pow_witness": w, "leading_zeros": zeros, "pow_bits": bits})));
                                }
                            }
                        }
                    }
                }
                "unpadded" => {
                    if var {
                        if let Ok(p) = prove_with(stark, &cfg, &rows, &pis, None, None) {
                            cases.push((p, json!({})));
                        }
                    }
                }
                "bad_pow" | "final_delta" | "layer_delta" => {
                    let mut k = Knobs::default();
                    match split_class(c).0 {
                        "bad_pow" => k.pow_witness = Some(r.gen_range(0..P)),
                        "final_delta" => k.fri_final_poly_delta = Some((0, 1 + r.gen_range(0..1000u64))),
                        _ => {
                            let l = model_layer(split_class(c).1.unwrap_or(0), nlayers);
                            if l >= nlayers {
                                out.push(json!({"id": id, "db": db, "class": class, "empty": true}));
                                continue;
                            }
                            k.fri_layer_delta = Some((l, 1 + r.gen_range(0..1000u64)));
                        }
                    }
                    let d = json!(format!("{k:?}"));
                    if let Ok(p) = prove_with(stark, &cfg, &rows, &pis, vparams.clone(), Some(k)) {
                        cases.push((p, d));
                    }
                }
                _ if c.starts_with("shape:") => {
                    if let Some((list, dir)) = c[6..].rsplit_once(':') {
                        let mut p = honest.clone();
                        if let Some(d) = shape_tamper(&mut p, list, dir == "surplus", &mut r) {
                            cases.push((p, d));
                        }
                    }
                }
                base => {
                    // a sibling of EVERY folding step: the model's middle layer stands for all real middle layers
                    let mut layers: Vec<Option<usize>> = vec![split_class(c).1.map(|l| model_layer(l, nlayers))];
                    if base == "step_path" && nlayers > 3 && split_class(c).1 == Some(1) {
                        layers = (1..nlayers - 1).map(Some).collect();
                    }
                    let reps = if matches!(base, "init_path" | "step_path") { 1 } else { per_class };
                    for real in layers {
                        for _ in 0..reps {
                            let mut p = honest.clone();
                            if let Some(d) = tamper_at(&mut p, c, real, &mut r) {
                                cases.push((p, d));
                            }
                        }
                    }
                }
            }
            if cases.is_empty() {
                out.push(json!({"id": id, "db": db, "class": class, "empty": true}));
                continue;
            }
            for (inst, (p, desc)) in cases.into_iter().enumerate() {
                let changed = serde_json::to_string(&p).ok() != serde_json::to_string(&honest).ok();
                let (nat, nd) = native(stark, &p, &cfg, vparams.clone());
                let shown = if selftest && c == "final_poly" { &honest } else { &p };
                let (assignable, acc, stage, detail) = accept(shown);
                let mut row = json!({"id": id, "db": db, "layers": nlayers, "class": class, "inst": inst, "desc": desc, "changed": changed,
                    "native": nat, "native_detail": nd, "assignable": assignable, "circuit": acc, "stage": stage, "detail": detail, "selftest": selftest});
                if acc && sampled < sample && !selftest {
                    sampled += 1;
                    let mut pw = PartialWitness::new();
                    let dbp = shown.proof.recover_degree_bits(&cfg);
                    let _ = set_stark_proof_with_pis_target(&mut pw, &pt, shown, dbp, zero);
                    let res = guarded(|| outer.prove(pw));
                    row["outer"] = match res {
                        Ok(Ok(op)) => {
                            let pm = op.public_inputs == shown.public_inputs;
                            let ok = matches!(guarded(|| outer.verify(op)), Ok(Ok(())));
                            json!({"proved": true, "verified": ok, "pis_match": pm})
                        }
                        _ => json!({"proved": false, "verified": false, "pis_match": false}),
                    };
                }
                out.push(row);
            }
        }
        }
    }
    // lengths the model lists as not assignable (final polynomial longer than the circuit's): recorded, nothing asserted
    for db in s["unsupported"].as_array().cloned().unwrap_or_default() {
        let db = db.as_u64().unwrap() as usize;
        let (rows, pis) = stark.gen(1 << db, &mut r);
        if let Ok(p) = prove_with(stark, &cfg, &rows, &pis, vparams.clone(), None) {
            let (nat, nd) = native(stark, &p, &cfg, vparams.clone());
            let (assignable, acc, stage, detail) = accept(&p);
            out.push(json!({"id": id, "db": db, "unsupported_length": true, "mode": s["mode"], "native": nat, "native_detail": nd, "assignable": assignable,
                            "circuit": acc, "stage": stage, "detail": detail}));
        }
    }
    out
}

fn run(args: &[String]) -> anyhow::Result<()> {
    let inp = opt(args, "--in").ok_or_else(|| anyhow::anyhow!("--in"))?;
    let selftest = args.iter().any(|a| a == "--selftest");
    for s in read_lines(inp)? {
        let t0 = std::time::Instant::now();
        for row in run_scenario(&s, selftest) {
            emit(&row);
        }
        emit(&json!({"id": s["id"], "done_ms": t0.elapsed().as_millis() as u64}));
    }
    Ok(())
}

fn main() -> std::process::ExitCode {
    let _ = canon(F::ZERO);
    run_main(|cmd, rest| match cmd {
        "run" => run(rest),
        other => Err(anyhow::anyhow!("unknown command {other}")),
    })
}
