//! C14 — operation logs of the real field code (validated by TLC against spec/GF.tla) and
//! bulk comparison with an independent u128 reference.
use plonky2::field::extension::quadratic::QuadraticExtension as E2;
use plonky2::field::extension::quartic::QuarticExtension as E4;
use plonky2::field::extension::quintic::QuinticExtension as E5;
use plonky2::field::extension::Frobenius;
use plonky2::field::ops::Square;
use plonky2::field::packable::Packable;
use plonky2::field::packed::PackedField;
use plonky2::field::types::{Field, Field64, PrimeField64};
use rand::Rng;
use serde_json::{json, Value};

use vh::util::*;


// ---- independent reference (plain u128 arithmetic and %) ----------------------------------
pub fn r_add(a: u64, b: u64) -> u64 {
    (((a % P) as u128 + (b % P) as u128) % P as u128) as u64
}
pub fn r_sub(a: u64, b: u64) -> u64 {
    (((a % P) as u128 + P as u128 - (b % P) as u128) % P as u128) as u64
}
pub fn r_mul(a: u64, b: u64) -> u64 {
    (((a % P) as u128 * (b % P) as u128) % P as u128) as u64
}
pub fn r_pow(a: u64, mut e: u64) -> u64 {
    let mut base = a % P;
    let mut acc = 1u64;
    while e > 0 {
        if e & 1 == 1 {
            acc = r_mul(acc, base);
        }
        base = r_mul(base, base);
        e >>= 1;
    }
    acc
}
pub fn r_inv(a: u64) -> u64 {
    r_pow(a, P - 2)
}
/// schoolbook product modulo X^D - w
pub fn r_ext_mul(a: &[u64], b: &[u64], w: u64) -> Vec<u64> {
    let d = a.len();
    let mut c = vec![0u64; d];
    for i in 0..d {
        for j in 0..d {
            let p = r_mul(a[i], b[j]);
            if i + j < d {
                c[i + j] = r_add(c[i + j], p);
            } else {
                c[i + j - d] = r_add(c[i + j - d], r_mul(w, p));
            }
        }
    }
    c
}

/// square-and-multiply chain (msb first) computed with the u128 reference; TLC validates each
/// step against the schoolbook definition and the real result against the last step.
fn ext_chain(a: &[u64], e: u64, w: u64) -> (Vec<u8>, Value, Value) {
    let d = a.len();
    let bits: Vec<u8> = (0..64).rev().map(|i| ((e >> i) & 1) as u8).collect();
    let mut acc: Vec<u64> = (0..d).map(|i| (i == 0) as u64).collect();
    let base: Vec<u64> = a.iter().map(|x| x % P).collect();
    let mut steps = vec![ws(&acc)];
    let mut sqs = vec![];
    for &b in &bits {
        acc = r_ext_mul(&acc, &acc, w);
        sqs.push(ws(&acc));
        if b == 1 {
            acc = r_ext_mul(&acc, &base, w);
        }
        steps.push(ws(&acc));
    }
    (bits, Value::Array(steps), Value::Array(sqs))
}

fn ext_w(d: usize) -> u64 {
    if d == 5 {
        3
    } else {
        7
    }
}

fn ext_mul_real(d: usize, a: &[u64], b: &[u64]) -> Vec<F> {
    match d {
        2 => (E2([f(a[0]), f(a[1])]) * E2([f(b[0]), f(b[1])]))
            .0.to_vec(),
        4 => (E4([f(a[0]), f(a[1]), f(a[2]), f(a[3])])
            * E4([f(b[0]), f(b[1]), f(b[2]), f(b[3])]))
        .0.to_vec(),
        5 => (E5([f(a[0]), f(a[1]), f(a[2]), f(a[3]), f(a[4])])
            * E5([f(b[0]), f(b[1]), f(b[2]), f(b[3]), f(b[4])]))
        .0.to_vec(),
        _ => unreachable!(),
    }
}
fn ext_sq_real(d: usize, a: &[u64]) -> Vec<F> {
    match d {
        2 => E2([f(a[0]), f(a[1])]).square().0.to_vec(),
        4 => E4([f(a[0]), f(a[1]), f(a[2]), f(a[3])]).square().0.to_vec(),
        5 => E5([f(a[0]), f(a[1]), f(a[2]), f(a[3]), f(a[4])])
            .square()
            .0.to_vec(),
        _ => unreachable!(),
    }
}
fn ext_unary_real(d: usize, a: &[u64], what: &str, e: u64) -> Option<Vec<F>> {
    macro_rules! go {
        ($t:ident, $arr:expr) => {{
            let x = $t($arr);
            let r = match what {
                "inv" => x.try_inverse()?,
                "frob" => x.frobenius(),
                "exp" => x.exp_u64(e),
                "rfrob" => x.repeated_frobenius(e as usize),
                "frobiter" => {
                    // e applications of the single Frobenius (validated against a^p by the recorded chains)
                    let mut y = x;
                    for _ in 0..e {
                        y = y.frobenius();
                    }
                    y
                }
                _ => unreachable!(),
            };
            Some(r.0.to_vec())
        }};
    }
    match d {
        2 => go!(E2, [f(a[0]), f(a[1])]),
        4 => go!(E4, [f(a[0]), f(a[1]), f(a[2]), f(a[3])]),
        5 => go!(E5, [f(a[0]), f(a[1]), f(a[2]), f(a[3]), f(a[4])]),
        _ => unreachable!(),
    }
}
fn ext_addsub_real(d: usize, a: &[u64], b: &[u64], sub: bool) -> Vec<F> {
    macro_rules! go {
        ($t:ident, $a:expr, $b:expr) => {{
            let x = $t($a);
            let y = $t($b);
            (if sub { x - y } else { x + y }).0.to_vec()
        }};
    }
    match d {
        2 => go!(E2, [f(a[0]), f(a[1])], [f(b[0]), f(b[1])]),
        4 => go!(E4, [f(a[0]), f(a[1]), f(a[2]), f(a[3])], [f(b[0]), f(b[1]), f(b[2]), f(b[3])]),
        5 => go!(
            E5,
            [f(a[0]), f(a[1]), f(a[2]), f(a[3]), f(a[4])],
            [f(b[0]), f(b[1]), f(b[2]), f(b[3]), f(b[4])]
        ),
        _ => unreachable!(),
    }
}

/// pairs (item of powers.repeated_frobenius(k), item.repeated_frobenius(k)) for advanced / shifted iterators
fn powers_frobenius(d: usize, x: &[u64], start: &[u64]) -> Vec<(Vec<F>, Vec<F>)> {
    macro_rules! go {
        ($t:ident, $xa:expr, $sa:expr) => {{
            let x = $t($xa);
            let s0 = $t($sa);
            let mut out = vec![];
            for k in 1..=2usize {
                let mut adv = x.powers();
                adv.nth(2);
                for pw in [x.powers(), adv, x.shifted_powers(s0)] {
                    let plain: Vec<$t<F>> = pw.clone().take(3).collect();
                    let frob: Vec<$t<F>> = pw.repeated_frobenius(k).take(3).collect();
                    for (g, e) in frob.iter().zip(plain.iter()) {
                        out.push((g.0.to_vec(), e.repeated_frobenius(k).0.to_vec()));
                    }
                    if k == 1 {
                        for e in plain.iter() {
                            out.push((e.repeated_frobenius(1).0.to_vec(), e.frobenius().0.to_vec()));
                        }
                    }
                }
            }
            out
        }};
    }
    match d {
        2 => go!(E2, [f(x[0]), f(x[1])], [f(start[0]), f(start[1])]),
        4 => go!(E4, [f(x[0]), f(x[1]), f(x[2]), f(x[3])], [f(start[0]), f(start[1]), f(start[2]), f(start[3])]),
        5 => go!(E5, [f(x[0]), f(x[1]), f(x[2]), f(x[3]), f(x[4])], [f(start[0]), f(start[1]), f(start[2]), f(start[3]), f(start[4])]),
        _ => unreachable!(),
    }
}

fn ws(xs: &[u64]) -> Value {
    Value::Array(xs.iter().map(|x| limbs(*x)).collect())
}

fn parse_witnesses(s: Option<&str>) -> Vec<(u64, u64, u64)> {
    let mut out = vec![];
    if let Some(s) = s {
        for t in s.split(';') {
            let p: Vec<u64> = t.split(',').filter_map(|x| x.trim().parse::<u64>().ok()).collect();
            if p.len() == 3 {
                out.push((p[0], p[1], p[2]));
            }
        }
    }
    out
}

/// `vh c14-record --out <path> --budget <events> [--witness "x,y,z;..."]`
/// Runs the real operators and writes one event per operation.  A panic (e.g. a violated
/// `assume`, hook H9) is recorded as an event with op "panic" so that TLC rejects it.
pub fn record(args: &[String]) -> anyhow::Result<()> {
    let out = opt(args, "--out").ok_or_else(|| anyhow::anyhow!("--out"))?;
    let budget = opt_usize(args, "--budget", 12000);
    let wit = parse_witnesses(opt(args, "--witness"));
    let mut log = NdJson::create(out)?;
    let mut r = rng(14);
    let bw = boundary_words();

    // pairs: Apalache path witnesses first, then boundary x boundary, then random
    let mut pairs: Vec<(u64, u64)> = wit.iter().map(|w| (w.0, w.1)).collect();
    for &a in &bw {
        for &b in &bw {
            pairs.push((a, b));
        }
    }
    let n_bin = budget / 4;
    // deterministic subsample of the lattice if it exceeds the budget share
    let step = (pairs.len() / n_bin.max(1)).max(1);
    let mut chosen: Vec<(u64, u64)> = pairs.iter().copied().take(wit.len()).collect();
    chosen.extend(pairs.iter().copied().skip(wit.len()).step_by(step));
    for _ in 0..(n_bin / 8) {
        chosen.push((r.gen(), r.gen()));
        chosen.push((lift_k4(r.gen_range(0..256)), lift_k4(r.gen_range(0..256))));
    }
    macro_rules! bin {
        ($name:expr, $a:expr, $b:expr, $e:expr) => {{
            match guarded(|| $e) {
                Ok(v) => log.put(&json!({"op": $name, "a": limbs($a), "b": limbs($b), "r": fl(v)})),
                Err(m) => log.put(&json!({"op": "panic", "in": $name, "a": limbs($a), "b": limbs($b), "msg": m})),
            }
        }};
    }
    for &(a, b) in &chosen {
        bin!("add", a, b, f(a) + f(b));
        bin!("sub", a, b, f(a) - f(b));
        bin!("mul", a, b, f(a) * f(b));
    }
    // unary
    let mut un: Vec<u64> = bw.clone();
    for w in &wit {
        un.push(w.0);
        un.push(w.1);
    }
    for _ in 0..40 {
        un.push(r.gen());
    }
    for &a in &un {
        log.put(&json!({"op": "neg", "a": limbs(a), "r": fl(-f(a))}));
        log.put(&json!({"op": "sq", "a": limbs(a), "r": fl(f(a).square())}));
        log.put(&json!({"op": "canon", "a": limbs(a), "r": limbs(f(a).to_canonical_u64())}));
        if a % P != 0 {
            log.put(&json!({"op": "inv", "a": limbs(a), "r": fl(f(a).inverse())}));
        }
        // try_inverse / is_zero / equality on every representation (0 and p both denote zero)
        let ti = guarded(|| f(a).try_inverse());
        match ti {
            Ok(v) => log.put(&json!({"op": "tryinv", "a": limbs(a), "none": v.is_none(), "r": fl(v.unwrap_or(F::ZERO))})),
            Err(m) => log.put(&json!({"op": "panic", "in": "try_inverse", "a": limbs(a), "msg": m})),
        }
        log.put(&json!({"op": "iszero", "a": limbs(a), "z": f(a).is_zero()}));
        let b2 = if a % 2 == 0 { a.wrapping_add(P) } else { a ^ 1 };
        log.put(&json!({"op": "eq", "a": limbs(a), "b": limbs(b2), "z": f(a) == f(b2)}));
        // signed reductions
        let n = a as i64;
        let (neg, mag) = if n < 0 { (true, n.unsigned_abs()) } else { (false, n as u64) };
        log.put(&json!({"op": "i64", "neg": neg, "mag": limbs(mag), "r": fl(F::from_noncanonical_i64(n))}));
    }
    for &a in un.iter().take(24) {
        let z = f(a) + (-f(a)); // raw representation may be p
        let raw = z.to_noncanonical_u64();
        match guarded(|| z.try_inverse()) {
            Ok(v) => log.put(&json!({"op": "tryinv", "a": limbs(raw), "none": v.is_none(), "r": fl(v.unwrap_or(F::ZERO))})),
            Err(m) => log.put(&json!({"op": "panic", "in": "try_inverse", "a": limbs(raw), "msg": m})),
        }
    }
    // wide reductions: u96, u128, multiply-accumulate, add/sub_canonical
    let mut k = 0usize;
    for &a in &bw {
        for &b in &bw {
            k += 1;
            if k % 7 != 0 {
                continue;
            }
            let n128 = ((a as u128) << 64) | b as u128;
            log.put(&json!({"op": "red", "n": limbs128(n128), "r": fl(F::from_noncanonical_u128(n128))}));
            let hi = (a >> 11) as u32;
            let n96 = ((hi as u128) << 64) | b as u128;
            log.put(&json!({"op": "red", "n": limbs128(n96), "r": fl(F::from_noncanonical_u96((b, hi)))}));
            let s: u64 = r.gen::<u64>() | (a & 0xFFFF_FFFF_0000_0000);
            log.put(&json!({"op": "mac", "s": limbs(s), "a": limbs(a), "b": limbs(b),
                            "r": fl(f(s).multiply_accumulate(f(a), f(b)))}));
            let bc = b % P;
            match guarded(|| unsafe { f(a).add_canonical_u64(bc) }) {
                Ok(v) => log.put(&json!({"op": "add", "a": limbs(a), "b": limbs(bc), "r": fl(v)})),
                Err(m) => log.put(&json!({"op": "panic", "in": "add_canonical_u64", "msg": m})),
            }
            match guarded(|| unsafe { f(a).sub_canonical_u64(bc) }) {
                Ok(v) => log.put(&json!({"op": "sub", "a": limbs(a), "b": limbs(bc), "r": fl(v)})),
                Err(m) => log.put(&json!({"op": "panic", "in": "sub_canonical_u64", "msg": m})),
            }
        }
    }
    // exponentiation (each costs ~100 model multiplications)
    let exps: [u64; 8] = [0, 1, 2, 7, P - 2, P - 1, u64::MAX, 1 << 63];
    for (i, &e) in exps.iter().enumerate() {
        for &a in &[bw[(i * 5) % bw.len()], r.gen::<u64>(), P - 1] {
            log.put(&json!({"op": "exp", "a": limbs(a), "e": limbs(e), "r": fl(f(a).exp_u64(e))}));
        }
    }
    for k in [0usize, 1, 5, 31, 32, 63, 64, 70] {
        let a: u64 = r.gen();
        // a^(2^k): exponent as a byte string of length k/8+1
        let mut e = vec![0u8; k / 8 + 1];
        e[k / 8] = 1 << (k % 8);
        log.put(&json!({"op": "exp", "a": limbs(a), "e": e, "r": fl(f(a).exp_power_of_2(k))}));
    }
    // extensions
    for d in [2usize, 4, 5] {
        let n_ext = (budget / 40).max(10);
        for t in 0..n_ext {
            let lane = |r: &mut rand_chacha::ChaCha8Rng, t: usize, i: usize| -> u64 {
                match t % 4 {
                    0 => bw[(t / 4 * 7 + i * 3) % bw.len()],
                    1 => u64::MAX - (r.gen::<u64>() % 3),
                    2 => r.gen(),
                    _ => [0, 1, P - 1, P, u64::MAX, 0xFFFF_FFFF][r.gen_range(0..6)],
                }
            };
            let a: Vec<u64> = (0..d).map(|i| lane(&mut r, t, i)).collect();
            let b: Vec<u64> = (0..d).map(|i| lane(&mut r, t + 1, i + 1)).collect();
            log.put(&json!({"op": "emul", "d": d, "a": ws(&a), "b": ws(&b), "r": fls(&ext_mul_real(d, &a, &b))}));
            if t % 3 == 0 {
                log.put(&json!({"op": "emul", "d": d, "a": ws(&a), "b": ws(&a), "r": fls(&ext_sq_real(d, &a))}));
                log.put(&json!({"op": "eadd", "d": d, "a": ws(&a), "b": ws(&b), "r": fls(&ext_addsub_real(d, &a, &b, false))}));
                log.put(&json!({"op": "esub", "d": d, "a": ws(&a), "b": ws(&b), "r": fls(&ext_addsub_real(d, &a, &b, true))}));
            }
            if t % 5 == 0 {
                if let Some(inv) = ext_unary_real(d, &a, "inv", 0) {
                    log.put(&json!({"op": "einv", "d": d, "a": ws(&a), "r": fls(&inv)}));
                }
            }
        }
        // Frobenius (a^p by definition) and exponentiation: expensive in the model, a few each
        for t in 0..2 {
            let a: Vec<u64> = (0..d).map(|_| r.gen()).collect();
            if t == 0 {
                let (bits, steps, sqs) = ext_chain(&a, P, ext_w(d));
                log.put(&json!({"op": "echain", "d": d, "a": ws(&a), "e": limbs(P), "bits": bits, "steps": steps, "sqs": sqs,
                                "r": fls(&ext_unary_real(d, &a, "frob", 0).unwrap())}));
            }
            let e: u64 = [0xFFFF_FFFF_0000_0003u64, 12345][t];
            let (bits, steps, sqs) = ext_chain(&a, e, ext_w(d));
            log.put(&json!({"op": "echain", "d": d, "a": ws(&a), "e": limbs(e), "bits": bits, "steps": steps, "sqs": sqs,
                            "r": fls(&ext_unary_real(d, &a, "exp", e).unwrap())}));
        }
        // Powers::repeated_frobenius must commute with taking powers, also for an iterator that has advanced
        // and for shifted_powers with an extension start (elementwise Frobenius is validated by the chains above)
        let x: Vec<u64> = (0..d).map(|_| r.gen()).collect();
        let st: Vec<u64> = (0..d).map(|_| r.gen()).collect();
        for (got, exp) in powers_frobenius(d, &x, &st) {
            log.put(&json!({"op": "eeq", "d": d, "a": fls(&got), "b": fls(&exp)}));
        }
        // repeated_frobenius(count) for every count in 0..=2D+1 (0 and the multiples of D are the identity):
        // equal to `count` applications of the single Frobenius, and to the element itself when D | count
        for t in 0..2 {
            let a: Vec<u64> = if t == 0 { (0..d).map(|_| r.gen()).collect() } else { (0..d).map(|i| bw[(i * 7 + d) % bw.len()]).collect() };
            for k in 0..=(2 * d + 1) as u64 {
                let got = ext_unary_real(d, &a, "rfrob", k).unwrap();
                let exp = ext_unary_real(d, &a, "frobiter", k).unwrap();
                log.put(&json!({"op": "eeq", "d": d, "a": fls(&got), "b": fls(&exp)}));
                if k % d as u64 == 0 {
                    log.put(&json!({"op": "eeq", "d": d, "a": fls(&got), "b": ws(&a)}));
                }
            }
        }
        // generators: W is a non-residue of the right kind: DTH_ROOT^D = 1 is covered by frob
    }
    // batch inversion: all small lengths (special cases 0..3, four chains beyond)
    for n in (0..=13usize).chain([16, 17, 31, 32, 33]) {
        let xs: Vec<u64> = (0..n)
            .map(|i| {
                let v = if i % 3 == 0 { bw[(i * 11 + n) % bw.len()] } else { r.gen() };
                if v % P == 0 {
                    7
                } else {
                    v
                }
            })
            .collect();
        let fx: Vec<F> = xs.iter().map(|x| f(*x)).collect();
        let inv = F::batch_multiplicative_inverse(&fx);
        log.put(&json!({"op": "binv", "x": ws(&xs), "r": fls(&inv)}));
    }
    let n = log.finish();
    emit(&json!({"kind": "c14-record", "events": n, "out": out}));
    Ok(())
}

/// `vh c14-bulk --n <random cases>`: real operators against the u128 reference on every
/// K=4-lifted operand pair, the boundary lattice and random words; packed lanes against
/// scalar results.  Also writes a sample of the *reference's* own operations (`--reflog`)
/// so that TLC validates the reference itself.
pub fn bulk(args: &[String]) -> anyhow::Result<()> {
    let n = opt_usize(args, "--n", 200_000);
    let reflog = opt(args, "--reflog");
    let mut log = match reflog {
        Some(p) => Some(NdJson::create(p)?),
        None => None,
    };
    let mut r = rng(15);
    let mut cases = 0u64;
    let mut mism: Vec<Value> = vec![];
    let mut nontrivial = 0u64;
    let mut check2 = |a: u64, b: u64, mism: &mut Vec<Value>, log: &mut Option<NdJson>, sample: bool| {
        let res = guarded(|| {
            let x = f(a);
            let y = f(b);
            [
                canon(x + y),
                canon(x - y),
                canon(x * y),
                canon(-x),
                canon(x.square()),
                canon(x.multiply_accumulate(y, x)),
                canon(F::from_noncanonical_u128(((a as u128) << 64) | b as u128)),
                canon(F::from_noncanonical_u96((a, b as u32))),
                canon(F::from_noncanonical_i64(a as i64)),
            ]
        });
        let n128 = ((a as u128) << 64) | b as u128;
        let n96 = ((b as u32 as u128) << 64) | a as u128;
        let i = a as i64;
        let exp = [
            r_add(a, b),
            r_sub(a, b),
            r_mul(a, b),
            r_sub(0, a),
            r_mul(a, a),
            r_add(a, r_mul(b, a)),
            (n128 % P as u128) as u64,
            (n96 % P as u128) as u64,
            if i < 0 { r_sub(0, i.unsigned_abs()) } else { i as u64 % P },
        ];
        match res {
            Ok(got) => {
                if got != exp && mism.len() < 20 {
                    mism.push(json!({"a": a, "b": b, "got": got.to_vec(), "expected": exp.to_vec()}));
                }
            }
            Err(m) => {
                if mism.len() < 20 {
                    mism.push(json!({"a": a, "b": b, "panic": m}));
                }
            }
        }
        if sample {
            if let Some(l) = log.as_mut() {
                l.put(&json!({"op": "add", "a": limbs(a), "b": limbs(b), "r": limbs(exp[0])}));
                l.put(&json!({"op": "sub", "a": limbs(a), "b": limbs(b), "r": limbs(exp[1])}));
                l.put(&json!({"op": "mul", "a": limbs(a), "b": limbs(b), "r": limbs(exp[2])}));
                l.put(&json!({"op": "red", "n": limbs128(n128), "r": limbs(exp[6])}));
            }
        }
    };
    // every K=4 operand pair under the nibble lifting
    for a in 0..256u64 {
        for b in 0..256u64 {
            check2(lift_k4(a), lift_k4(b), &mut mism, &mut log, (a * 256 + b) % 523 == 0);
            cases += 1;
            nontrivial += 1;
        }
    }
    let bw = boundary_words();
    for &a in &bw {
        for &b in &bw {
            check2(a, b, &mut mism, &mut log, false);
            cases += 1;
            nontrivial += 1;
        }
    }
    for i in 0..n {
        let a: u64 = r.gen();
        let b: u64 = if i % 4 == 0 { u64::MAX - (r.gen::<u64>() >> 40) } else { r.gen() };
        check2(a, b, &mut mism, &mut log, i % 4001 == 0);
        cases += 1;
        nontrivial += 1;
    }
    // inverse / exp against the reference
    for i in 0..(n / 50).max(100) {
        let a: u64 = if i < bw.len() { bw[i] } else { r.gen() };
        if a % P == 0 {
            continue;
        }
        let e: u64 = r.gen();
        let got = guarded(|| (canon(f(a).inverse()), canon(f(a).exp_u64(e))));
        let exp = (r_inv(a), r_pow(a, e));
        cases += 1;
        if got != Ok(exp) && mism.len() < 20 {
            mism.push(json!({"a": a, "e": e, "got": format!("{:?}", got), "expected": format!("{:?}", exp)}));
        }
    }
    // extension products against the schoolbook reference
    for d in [2usize, 4, 5] {
        for t in 0..(n / 20).max(500) {
            let lane = |r: &mut rand_chacha::ChaCha8Rng| -> u64 {
                match t % 3 {
                    0 => r.gen(),
                    1 => u64::MAX - (r.gen::<u64>() % 4),
                    _ => bw[r.gen_range(0..bw.len())],
                }
            };
            let a: Vec<u64> = (0..d).map(|_| lane(&mut r)).collect();
            let b: Vec<u64> = (0..d).map(|_| lane(&mut r)).collect();
            let got = guarded(|| ext_mul_real(d, &a, &b).iter().map(|x| canon(*x)).collect::<Vec<_>>());
            let exp = r_ext_mul(&a, &b, ext_w(d));
            cases += 1;
            nontrivial += 1;
            if got.as_ref() != Ok(&exp) && mism.len() < 20 {
                mism.push(json!({"d": d, "a": a, "b": b, "got": format!("{:?}", got), "expected": exp}));
            }
            if t % 7 == 0 {
                let got = guarded(|| ext_sq_real(d, &a).iter().map(|x| canon(*x)).collect::<Vec<_>>());
                let exp = r_ext_mul(&a, &a, ext_w(d));
                if got.as_ref() != Ok(&exp) && mism.len() < 20 {
                    mism.push(json!({"d": d, "sq": a, "got": format!("{:?}", got), "expected": exp}));
                }
            }
        }
    }
    // packed lanes equal scalar results (Packing = scalar unless built with +avx2 / +avx512)
    type PF = <F as Packable>::Packing;
    let width = PF::WIDTH;
    let mut packed_cases = 0u64;
    for t in 0..(n / 10).max(1000) {
        let a: Vec<F> = (0..width)
            .map(|i| if (t + i) % 3 == 0 { f(bw[r.gen_range(0..bw.len())]) } else { f(r.gen()) })
            .collect();
        let b: Vec<F> = (0..width)
            .map(|i| if (t + i) % 5 == 0 { f(bw[r.gen_range(0..bw.len())]) } else { f(r.gen()) })
            .collect();
        let pa = *PF::from_slice(&a);
        let pb = *PF::from_slice(&b);
        let sum = pa + pb;
        let dif = pa - pb;
        let pro = pa * pb;
        let ng = -pa;
        let sq = pa.square();
        for i in 0..width {
            packed_cases += 1;
            let ok = canon(sum.as_slice()[i]) == r_add(a[i].0, b[i].0)
                && canon(dif.as_slice()[i]) == r_sub(a[i].0, b[i].0)
                && canon(pro.as_slice()[i]) == r_mul(a[i].0, b[i].0)
                && canon(ng.as_slice()[i]) == r_sub(0, a[i].0)
                && canon(sq.as_slice()[i]) == r_mul(a[i].0, a[i].0);
            if !ok && mism.len() < 20 {
                mism.push(json!({"packed_lane": i, "width": width, "a": a[i].0, "b": b[i].0}));
            }
        }
    }
    let reflog_events = log.map(|l| l.finish()).unwrap_or(0);
    emit(&json!({"kind": "c14-bulk", "cases": cases, "nontrivial": nontrivial, "packed_width": width,
                 "packed_cases": packed_cases, "mismatches": mism, "reflog_events": reflog_events}));
    Ok(())
}

fn main() -> std::process::ExitCode {
    vh::util::run_main(|cmd, rest| match cmd {
        "c14-record" => record(rest),
        "c14-bulk" => bulk(rest),
        other => Err(anyhow::anyhow!("unknown command {other}")),
    })
}
