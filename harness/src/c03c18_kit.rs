//! Shared by src/bin/c03.rs and src/bin/c18.rs (included with `#[path]`; not a bin, not part of
//! the lib): circuit families with accepted proofs, panic capture with source location, JSON
//! reflection over proof values.
#![allow(dead_code)]
use std::cell::RefCell;
use std::panic::{catch_unwind, AssertUnwindSafe};

use plonky2::field::types::Field;
use plonky2::fri::reduction_strategies::FriReductionStrategy;
use plonky2::gates::noop::NoopGate;
use plonky2::hash::poseidon::PoseidonHash;
use plonky2::iop::witness::{PartialWitness, WitnessWrite};
use plonky2::plonk::circuit_builder::CircuitBuilder;
use plonky2::plonk::circuit_data::{CircuitConfig, CircuitData};
use plonky2::plonk::config::PoseidonGoldilocksConfig;
use plonky2::plonk::proof::{CompressedProofWithPublicInputs, ProofWithPublicInputs};
use rand::Rng;
use serde_json::Value;
use vh::util::*;

pub const D: usize = 2;
pub type C = PoseidonGoldilocksConfig;
pub type PW = ProofWithPublicInputs<F, C, D>;
pub type CPW = CompressedProofWithPublicInputs<F, C, D>;
pub type CD = CircuitData<F, C, D>;

// ------------------------------------------------------------------------------------------
// panic capture (message + source location); thread-safe
// ------------------------------------------------------------------------------------------
thread_local! {
    static LOC: RefCell<String> = const { RefCell::new(String::new()) };
    static DEPTH: std::cell::Cell<u32> = const { std::cell::Cell::new(0) };
}

pub fn install_loc_hook() {
    std::panic::set_hook(Box::new(|info| {
        let loc = info
            .location()
            .map(|l| format!("{}:{}", l.file(), l.line()))
            .unwrap_or_default();
        if DEPTH.with(|d| d.get()) == 0 {
            // not code under test: a harness failure must be visible
            eprintln!("harness panic (outside guarded code): {info}");
        }
        LOC.with(|l| *l.borrow_mut() = loc);
    }));
}

#[derive(Clone, Debug, PartialEq)]
pub enum Outcome {
    Ok,
    Err(String),
    Panic { msg: String, loc: String },
}

impl Outcome {
    pub fn class(&self) -> &'static str {
        match self {
            Outcome::Ok => "ok",
            Outcome::Err(_) => "err",
            Outcome::Panic { .. } => "panic",
        }
    }
    pub fn to_json(&self) -> Value {
        match self {
            Outcome::Ok => serde_json::json!({"ok": true}),
            Outcome::Err(e) => serde_json::json!({"err": e}),
            Outcome::Panic { msg, loc } => serde_json::json!({"panic": msg, "loc": loc}),
        }
    }
}

/// strip the run-specific numbers out of a panic message so that it names a site, not an input
pub fn norm_msg(m: &str) -> String {
    let mut out = String::new();
    let mut in_num = false;
    for ch in m.chars() {
        if ch.is_ascii_digit() {
            if !in_num {
                out.push('#');
            }
            in_num = true;
        } else {
            in_num = false;
            out.push(ch);
        }
    }
    out.chars().take(120).collect()
}

pub fn run_guard<T>(f: impl FnOnce() -> anyhow::Result<T>) -> (Outcome, Option<T>) {
    DEPTH.with(|d| d.set(d.get() + 1));
    let r = catch_unwind(AssertUnwindSafe(f));
    DEPTH.with(|d| d.set(d.get() - 1));
    match r {
        Ok(Ok(v)) => (Outcome::Ok, Some(v)),
        Ok(Err(e)) => (Outcome::Err(format!("{e:#}").chars().take(160).collect()), None),
        Err(p) => {
            let msg = if let Some(s) = p.downcast_ref::<String>() {
                s.clone()
            } else if let Some(s) = p.downcast_ref::<&str>() {
                s.to_string()
            } else {
                "panic".to_string()
            };
            let loc = LOC.with(|l| l.borrow().clone());
            // strip the registry / repo prefix: keep from "plonky2/" or "starky/" on
            let loc = ["/repo/", "/rustc/"]
                .iter()
                .find_map(|p| loc.find(p).map(|i| loc[i..].to_string()))
                .unwrap_or(loc);
            (Outcome::Panic { msg: msg.chars().take(200).collect(), loc }, None)
        }
    }
}

// ------------------------------------------------------------------------------------------
// circuit families
// ------------------------------------------------------------------------------------------
pub struct Family {
    pub name: String,
    pub data: CD,
    pub proof: PW,
    pub cproof: CPW,
}

pub fn binding_bits(cfg: &CircuitConfig) -> usize {
    cfg.fri_config.num_query_rounds * cfg.fri_config.rate_bits + cfg.fri_config.proof_of_work_bits as usize
}

/// FRI / challenge-count variants of the standard recursion configuration; every variant keeps
/// 28 queries * 3 rate bits + 16 pow bits = 100 bits of binding (variant 6: 21 * 4 + 16; the quotient degree
/// factor 8 needs rate_bits >= 3).
pub fn config_variant(v: usize, zk: bool) -> CircuitConfig {
    let mut c = if zk { CircuitConfig::standard_recursion_zk_config() } else { CircuitConfig::standard_recursion_config() };
    match v % 10 {
        0 => {}
        1 => c.fri_config.cap_height = 0,
        2 => c.fri_config.cap_height = 1,
        3 => c.fri_config.reduction_strategy = FriReductionStrategy::ConstantArityBits(1, 2),
        4 => c.fri_config.reduction_strategy = FriReductionStrategy::ConstantArityBits(3, 4),
        5 => c.fri_config.reduction_strategy = FriReductionStrategy::MinSize(None),
        6 => {
            c.fri_config.rate_bits = 4;
            c.fri_config.num_query_rounds = 21;
            c.fri_config.cap_height = 2;
        }
        7 => c.num_challenges = 3,
        8 => c.fri_config.reduction_strategy = FriReductionStrategy::Fixed(vec![1, 2, 1]),
        _ => {
            c.fri_config.cap_height = 3;
            c.fri_config.reduction_strategy = FriReductionStrategy::ConstantArityBits(2, 3);
        }
    }
    c
}

fn finish(name: String, builder: CircuitBuilder<F, D>, pw: PartialWitness<F>) -> anyhow::Result<Family> {
    let data = builder.build::<C>();
    let proof = data.prove(pw)?;
    data.verify(proof.clone())?;
    let cproof = data.compress(proof.clone())?;
    data.verify_compressed(cproof.clone())?;
    Ok(Family { name, data, proof, cproof })
}

pub fn family_arith(cfg: CircuitConfig, n: usize, seedv: u64, tag: &str) -> anyhow::Result<Family> {
    let mut b = CircuitBuilder::<F, D>::new(cfg);
    let x = b.add_virtual_target();
    let y = b.add_virtual_target();
    b.register_public_input(x);
    let mut acc = x;
    let mut z = y;
    for i in 0..n {
        let t = b.mul(acc, z);
        z = b.add(t, acc);
        acc = b.add_const(t, F::from_canonical_u64(i as u64 + 3));
    }
    b.register_public_input(acc);
    b.register_public_input(z);
    // a trailing public input whose value is zero: dropping it leaves the (unpadded) public-input hash unchanged,
    // so only the length check of the shape validation binds the list
    let zero = b.zero();
    b.register_public_input(zero);
    let mut pw = PartialWitness::new();
    pw.set_target(x, fc(seedv.wrapping_mul(0x9E37_79B9_7F4A_7C15)))?;
    pw.set_target(y, fc(seedv.wrapping_add(12345)))?;
    finish(format!("arith{n}-{tag}"), b, pw)
}

pub fn family_poseidon(cfg: CircuitConfig, n: usize, seedv: u64, tag: &str) -> anyhow::Result<Family> {
    let mut b = CircuitBuilder::<F, D>::new(cfg);
    let ins: Vec<_> = (0..5).map(|_| b.add_virtual_target()).collect();
    let mut h = b.hash_n_to_hash_no_pad::<PoseidonHash>(ins.clone());
    for _ in 1..n {
        let mut v = h.elements.to_vec();
        v.push(ins[0]);
        h = b.hash_n_to_hash_no_pad::<PoseidonHash>(v);
    }
    b.register_public_inputs(&h.elements);
    let mut pw = PartialWitness::new();
    for (i, t) in ins.iter().enumerate() {
        pw.set_target(*t, fc(seedv.wrapping_mul(77).wrapping_add(i as u64)))?;
    }
    finish(format!("poseidon{n}-{tag}"), b, pw)
}

pub fn family_lookup(cfg: CircuitConfig, n: usize, seedv: u64, tag: &str) -> anyhow::Result<Family> {
    family_lookup_padded(cfg, n, 0, seedv, tag)
}

pub fn family_lookup_padded(cfg: CircuitConfig, n: usize, pad: usize, seedv: u64, tag: &str) -> anyhow::Result<Family> {
    use std::sync::Arc;
    let mut b = CircuitBuilder::<F, D>::new(cfg);
    for _ in 0..pad {
        b.add_gate(NoopGate, vec![]);
    }
    let table: Vec<(u16, u16)> = (0..16u16).map(|i| (i, (i * 7 + 3) % 251)).collect();
    let ti = b.add_lookup_table_from_pairs(Arc::new(table));
    let ins: Vec<_> = (0..n).map(|_| b.add_virtual_target()).collect();
    let mut acc = b.zero();
    for t in &ins {
        let o = b.add_lookup_from_index(*t, ti);
        acc = b.add(acc, o);
    }
    b.register_public_input(acc);
    b.register_public_input(ins[0]);
    let mut pw = PartialWitness::new();
    for (i, t) in ins.iter().enumerate() {
        pw.set_target(*t, F::from_canonical_u64((seedv + 5 * i as u64) % 16))?;
    }
    finish(format!("lookup{n}-{tag}"), b, pw)
}

pub fn family_recursion(cfg: CircuitConfig, inner: &Family, tag: &str) -> anyhow::Result<Family> {
    use plonky2::iop::witness::WitnessWrite as _;
    let mut b = CircuitBuilder::<F, D>::new(cfg);
    let pt = b.add_virtual_proof_with_pis(&inner.data.common);
    let vd = b.add_virtual_verifier_data(inner.data.common.config.fri_config.cap_height);
    b.verify_proof::<C>(&pt, &vd, &inner.data.common);
    b.register_public_inputs(&pt.public_inputs);
    // pad a little so that the degree differs from the plain families
    for _ in 0..8 {
        b.add_gate(NoopGate, vec![]);
    }
    let mut pw = PartialWitness::new();
    pw.set_proof_with_pis_target(&pt, &inner.proof)?;
    pw.set_verifier_data_target(&vd, &inner.data.verifier_only)?;
    finish(format!("recursion-{tag}"), b, pw)
}

/// The family list of a tier.  `n` families; the first six cover the distinct kinds.
pub fn families(n: usize) -> anyhow::Result<Vec<Family>> {
    let mut out = vec![];
    let mut k = 0usize;
    while out.len() < n {
        let v = k / 6;
        let tag = format!("v{v}");
        let s = seed().wrapping_add(k as u64 * 1000);
        let fam = match k % 6 {
            0 => family_arith(config_variant(v, false), 20 + 13 * v, s, &tag)?,
            1 => family_poseidon(config_variant(v + 1, false), 1 + v % 3, s, &tag)?,
            2 => family_lookup(config_variant(v + 2, false), 3 + v, s, &tag)?,
            3 => family_arith(config_variant(v + 3, true), 9 + 5 * v, s, &format!("zk-{tag}"))?,
            4 => family_poseidon(config_variant(v + 4, true), 1, s, &format!("zk-{tag}"))?,
            _ => {
                if v % 4 == 0 {
                    let inner = family_arith(config_variant(v, false), 7, s, "inner")?;
                    family_recursion(config_variant(0, false), &inner, &tag)?
                } else {
                    family_arith(config_variant(v + 5, false), 150 + 40 * v, s, &format!("big-{tag}"))?
                }
            }
        };
        out.push(fam);
        k += 1;
    }
    Ok(out)
}

// ------------------------------------------------------------------------------------------
// JSON reflection
// ------------------------------------------------------------------------------------------
#[derive(Clone, Debug, PartialEq)]
pub enum Seg {
    K(String),
    I(usize),
}
pub type Path = Vec<Seg>;

pub fn path_str(p: &Path) -> String {
    let mut s = String::new();
    for seg in p {
        match seg {
            Seg::K(k) => {
                if !s.is_empty() {
                    s.push('.');
                }
                s.push_str(k);
            }
            Seg::I(i) => s.push_str(&format!("[{i}]")),
        }
    }
    s
}

pub fn at<'a>(v: &'a Value, p: &[Seg]) -> Option<&'a Value> {
    let mut cur = v;
    for seg in p {
        cur = match seg {
            Seg::K(k) => cur.get(k.as_str())?,
            Seg::I(i) => cur.get(*i)?,
        };
    }
    Some(cur)
}
pub fn at_mut<'a>(v: &'a mut Value, p: &[Seg]) -> Option<&'a mut Value> {
    let mut cur = v;
    for seg in p {
        cur = match seg {
            Seg::K(k) => cur.get_mut(k.as_str())?,
            Seg::I(i) => cur.get_mut(*i)?,
        };
    }
    Some(cur)
}

/// parse "a.b[3].c" into a path
pub fn parse_path(s: &str) -> Path {
    let mut out = vec![];
    for part in s.split('.') {
        let mut rest = part;
        if let Some(i) = rest.find('[') {
            if i > 0 {
                out.push(Seg::K(rest[..i].to_string()));
            }
            rest = &rest[i..];
            while let Some(j) = rest.find(']') {
                out.push(Seg::I(rest[1..j].parse().unwrap()));
                rest = &rest[j + 1..];
            }
        } else if !rest.is_empty() {
            out.push(Seg::K(rest.to_string()));
        }
    }
    out
}

/// all numeric leaves and all arrays of a JSON value, in document order (object keys sorted by
/// serde_json's map order, which is insertion = field order unless `preserve_order` is off: then
/// alphabetical — either way deterministic)
pub fn walk(v: &Value, cur: &mut Path, leaves: &mut Vec<Path>, arrays: &mut Vec<Path>) {
    match v {
        Value::Number(_) => leaves.push(cur.clone()),
        Value::Array(a) => {
            arrays.push(cur.clone());
            for (i, x) in a.iter().enumerate() {
                cur.push(Seg::I(i));
                walk(x, cur, leaves, arrays);
                cur.pop();
            }
        }
        Value::Object(m) => {
            for (k, x) in m.iter() {
                cur.push(Seg::K(k.clone()));
                walk(x, cur, leaves, arrays);
                cur.pop();
            }
        }
        _ => {}
    }
}

/// Specification component (spec/PlonkIOP.tla catalogue) a JSON path of a (compressed) proof
/// with public inputs belongs to.
pub fn component_of(p: &Path) -> String {
    let keys: Vec<&str> = p.iter().filter_map(|s| if let Seg::K(k) = s { Some(k.as_str()) } else { None }).collect();
    let has = |k: &str| keys.contains(&k);
    if keys.first() == Some(&"public_inputs") {
        return "public_inputs".into();
    }
    if has("openings") {
        return format!("openings.{}", keys.last().unwrap());
    }
    if has("opening_proof") {
        if has("commit_phase_merkle_caps") {
            return "commit_caps".into();
        }
        if has("final_poly") {
            return "final_poly".into();
        }
        if has("pow_witness") {
            return "pow_witness".into();
        }
        if has("indices") {
            return "indices".into();
        }
        if has("initial_trees_proof") || has("initial_trees_proofs") {
            // evals_proofs[o][0] = leaf, evals_proofs[o][1].siblings = path
            return if has("siblings") { "init_path".into() } else { "init_leaf".into() };
        }
        if has("steps") {
            return if has("siblings") { "step_path".into() } else { "step_evals".into() };
        }
        if has("query_round_proofs") {
            return "query_rounds".into();
        }
        return "opening_proof".into();
    }
    for c in ["wires_cap", "plonk_zs_partial_products_cap", "quotient_polys_cap"] {
        if has(c) {
            return c.into();
        }
    }
    "other".into()
}

pub fn rand_field(r: &mut impl Rng) -> u64 {
    r.gen_range(0..P)
}
