//! Configuration lattice (the concrete side of the `Cfg` records of spec/Programs.tla) and the
//! admissibility predicate transcribed from the documented preconditions (DESIGN Appendix B).
use plonky2::fri::reduction_strategies::FriReductionStrategy;
use plonky2::fri::FriConfig;
use plonky2::plonk::circuit_data::CircuitConfig;
use serde::{Deserialize, Serialize};

#[derive(Clone, Debug, Serialize, Deserialize, PartialEq, Eq, Hash)]
pub struct CfgSpec {
    pub zk: bool,
    /// "fixed" (arities in `arities`), "const" (a = arities[0], final bits = arities[1]), "minsize" (max = arities[0], 0 = none)
    pub strat: String,
    pub arities: Vec<usize>,
    pub rate: usize,
    pub cap: usize,
    pub nch: usize,
    /// "std" 135/80, "wide" 234/120, "narrow" 68/30, "r60" 135/60, "r37" 135/37
    pub width: String,
    pub q: usize,
    pub pow: u32,
    pub keccak: bool,
}

impl CfgSpec {
    pub fn standard() -> Self {
        CfgSpec { zk: false, strat: "const".into(), arities: vec![4, 5], rate: 3, cap: 4, nch: 2,
                  width: "std".into(), q: 28, pow: 16, keccak: false }
    }
    pub fn strategy(&self) -> FriReductionStrategy {
        match self.strat.as_str() {
            "fixed" => FriReductionStrategy::Fixed(self.arities.clone()),
            "const" => FriReductionStrategy::ConstantArityBits(self.arities[0], self.arities[1]),
            _ => FriReductionStrategy::MinSize(if self.arities.first().copied().unwrap_or(0) == 0 { None } else { Some(self.arities[0]) }),
        }
    }
    pub fn config(&self) -> CircuitConfig {
        let (num_wires, num_routed_wires) = match self.width.as_str() {
            "wide" => (234, 120),
            "narrow" => (68, 30),
            "r60" => (135, 60),
            "r37" => (135, 37),
            _ => (135, 80),
        };
        CircuitConfig {
            num_wires,
            num_routed_wires,
            num_constants: 2,
            use_base_arithmetic_gate: true,
            security_bits: (self.q * self.rate + self.pow as usize).min(100),
            num_challenges: self.nch,
            zero_knowledge: self.zk,
            max_quotient_degree_factor: 8,
            fri_config: FriConfig {
                rate_bits: self.rate,
                cap_height: self.cap,
                proof_of_work_bits: self.pow,
                reduction_strategy: self.strategy(),
                num_query_rounds: self.q,
            },
        }
    }
    /// same row shape and zk, standard FRI parameters (used to learn the degree before the
    /// FRI-dependent admissibility conditions can be evaluated)
    pub fn probe_config(&self) -> CircuitConfig {
        let mut c = self.config();
        c.fri_config = CircuitConfig::standard_recursion_config().fri_config;
        c.fri_config.cap_height = 0;
        c.fri_config.reduction_strategy = FriReductionStrategy::ConstantArityBits(1, 1);
        c.security_bits = 100;
        c
    }
    /// binding of soundness-type statements (DESIGN §4): queries * rate + pow
    pub fn binding_bits(&self) -> usize {
        self.q * self.rate + self.pow as usize
    }
    /// FRI-side admissibility for a circuit of `degree_bits` (transcribed preconditions):
    /// the schedule is computable, never folds below the cap height, sum of arities <= degree bits,
    /// quotient degree factor 8 needs rate_bits >= 3.
    pub fn fri_admissible(&self, degree_bits: usize) -> Result<(), String> {
        if self.rate < 3 {
            return Err("rate_bits < log2_ceil(quotient_degree_factor)".into());
        }
        if self.cap > degree_bits + self.rate {
            return Err("cap_height above the LDE size".into());
        }
        match self.strat.as_str() {
            "fixed" => {
                let s: usize = self.arities.iter().sum();
                if s > degree_bits {
                    return Err("sum of arities exceeds degree_bits".into());
                }
                let mut d = degree_bits + self.rate;
                for a in &self.arities {
                    if *a == 0 { return Err("zero arity".into()); }
                    d -= a;
                    if d < self.cap {
                        return Err("fixed schedule folds below the cap height".into());
                    }
                }
                Ok(())
            }
            "const" => {
                let (a, f) = (self.arities[0], self.arities[1]);
                if a == 0 { return Err("zero arity".into()); }
                let mut d = degree_bits;
                while d > f && d + self.rate >= a + self.cap {
                    if d < a {
                        return Err("ConstantArityBits: degree_bits between final_poly_bits and arity_bits".into());
                    }
                    d -= a;
                }
                Ok(())
            }
            _ => {
                // MinSize ignores the cap height: admissible only if its schedule stays above it;
                // decided by the caller from the real schedule (precondition of MerkleTree::new).
                Ok(())
            }
        }
    }
}
