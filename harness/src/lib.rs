//! vh — shared helpers of the /verif conformance harness.  One binary per property area lives
//! in src/bin/<name>.rs (cargo discovers them); they record traces / operation logs from the
//! real plonky2 code and replay specification-generated scenarios into it.
#![allow(clippy::needless_range_loop, clippy::too_many_arguments, clippy::type_complexity)]
pub mod cfgs;
pub mod oracle;
pub mod prog;
pub mod refarith;
pub mod util;
