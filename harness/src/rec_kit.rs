//! Shared by src/bin/c06.rs and src/bin/c20.rs (included with `#[path]`; not a bin, not part of the
//! lib): inner circuits from spec/Programs.tla programs, the pool of inner proofs of the adversary
//! catalogue of spec/RecVerifier.tla (honest, shape-preserving value tampers of every proof
//! component class, proofs of violating assignments, adversarial prover strategies of hook H8,
//! foreign verifier data), the native verdict, and "in-circuit acceptance" of an outer circuit:
//! the library's own assignment routines + witness generation + the satisfaction oracle.
#![allow(dead_code)]
use plonky2::field::extension::quadratic::QuadraticExtension;
use plonky2::field::types::{Field, PrimeField64};
use plonky2::gates::noop::NoopGate;
use plonky2::iop::generator::generate_partial_witness;
use plonky2::iop::witness::{PartialWitness, PartitionWitness};
use plonky2::plonk::circuit_builder::CircuitBuilder;
use plonky2::plonk::circuit_data::{CircuitData, CommonCircuitData, VerifierCircuitData, VerifierOnlyCircuitData};
use plonky2::plonk::config::{GenericConfig, PoseidonGoldilocksConfig};
use plonky2::plonk::proof::ProofWithPublicInputs;
use plonky2::plonk::prover::prove_with_partition_witness;
use plonky2::util::timing::TimingTree;
use plonky2::verif_knobs::{self, Knobs};
use rand::Rng;
use rand::SeedableRng;
use rand_chacha::ChaCha8Rng;
use serde_json::{json, Value};
use vh::cfgs::CfgSpec;
use vh::oracle::{self, Assignment};
use vh::prog::{self, Program};
use vh::refarith::GOLDILOCKS;
use vh::util::*;

pub const D: usize = 2;
/// the inner configuration: the recursive verifier needs an `AlgebraicHasher`, i.e. Poseidon
pub type C = PoseidonGoldilocksConfig;
pub type PW = ProofWithPublicInputs<F, C, D>;
pub type VD = VerifierOnlyCircuitData<C, D>;
pub type FE = QuadraticExtension<F>;

pub fn read_lines(path: &str) -> anyhow::Result<Vec<Value>> {
    use std::io::BufRead;
    let f = std::fs::File::open(path)?;
    let mut v = vec![];
    for l in std::io::BufReader::new(f).lines() {
        let l = l?;
        if !l.trim().is_empty() {
            v.push(serde_json::from_str(&l)?);
        }
    }
    Ok(v)
}

pub fn concretize(class: &str, r: &mut impl Rng) -> u64 {
    let p = GOLDILOCKS;
    let parts: Vec<&str> = class.split(':').collect();
    match parts[0] {
        "zero" => 0,
        "one" => 1,
        "two" => 2,
        "pm1" => p - 1,
        "pm2" => p - 2,
        "pow2" => 1u64 << parts[1].parse::<u32>().unwrap(),
        "pow2m1" => (1u64 << parts[1].parse::<u32>().unwrap()) - 1,
        "small" => r.gen_range(0..parts[1].parse::<u64>().unwrap()),
        "eps" => 0xFFFF_FFFF,
        _ => r.gen_range(0..p),
    }
}

pub fn rng_for(id: &str, stream: u64) -> ChaCha8Rng {
    let mut h = 0xcbf2_9ce4_8422_2325u64;
    for b in id.bytes() {
        h = (h ^ b as u64).wrapping_mul(0x0000_0100_0000_01b3);
    }
    let mut r = ChaCha8Rng::seed_from_u64(seed() ^ h);
    r.set_stream(stream);
    r
}

// ------------------------------------------------------------------------------------------
// inner circuits
// ------------------------------------------------------------------------------------------
pub struct Inner {
    pub data: CircuitData<F, C, D>,
    pub built: prog::Built,
    pub inputs: Vec<u64>,
    pub vals: Vec<u64>,
    pub with_pis: bool,
}

/// Builds `prog` under `cfg` (padded with `pad` no-op gates so that the FRI schedule has layers).
/// Err(reason) = this (program, configuration, input) is not usable as an inner shape.
pub fn build_inner(prog: &Program, cfg: &CfgSpec, inputs: &[u64], pad: usize) -> Result<Inner, String> {
    build_inner_opt(prog, cfg, inputs, pad, true)
}
/// `probe = false`: the configuration is known to be admissible for this degree (a sibling circuit was built)
pub fn build_inner_opt(prog: &Program, cfg: &CfgSpec, inputs: &[u64], pad: usize, probe: bool) -> Result<Inner, String> {
    build_inner_full(prog, cfg, inputs, 0, pad, probe)
}
/// `pre` no-op gates before the program, `pad` after it: two circuits with the same program and pre + pad equal
/// have the same common data but different constants / wiring, hence different verifier data
pub fn build_inner_full(prog: &Program, cfg: &CfgSpec, inputs: &[u64], pre: usize, pad: usize, probe: bool) -> Result<Inner, String> {
    if cfg.keccak {
        return Err("inner configuration must be algebraic (Poseidon)".into());
    }
    let it = prog::interp(prog, inputs, GOLDILOCKS, 64).map_err(|u| format!("unsat: {}", u.0))?;
    let with_pis = cfg.width != "narrow";
    if !prog::admissible(prog, &cfg.config(), with_pis) {
        return Err("inadmissible row width".into());
    }
    // probe the degree first: the FRI-side admissibility depends on it
    if probe {
    let probe = guarded(|| {
        let mut b = CircuitBuilder::<F, D>::new(cfg.probe_config());
        let built = prog::build(prog, &mut b, 64).map_err(|e| e.to_string())?;
        if with_pis {
            b.register_public_inputs(&built.vals);
        }
        for _ in 0..pad + pre {
            b.add_gate(NoopGate, vec![]);
        }
        Ok::<usize, String>(b.build::<C>().common.degree_bits())
    });
    let degree_bits = match probe {
        Ok(Ok(d)) => d,
        Ok(Err(e)) => return Err(format!("probe build: {e}")),
        Err(p) => return Err(format!("probe build panic: {p}")),
    };
    cfg.fri_admissible(degree_bits).map_err(|e| format!("inadmissible: {e}"))?;
    if cfg.strat == "minsize" {
        let ar = cfg.strategy().reduction_arity_bits(degree_bits, cfg.rate, cfg.cap, cfg.q);
        let s: usize = ar.iter().sum();
        if degree_bits + cfg.rate < s + cfg.cap {
            return Err("inadmissible: MinSize schedule folds below the cap height".into());
        }
    }
    }
    let built = guarded(|| {
        let mut b = CircuitBuilder::<F, D>::new(cfg.config());
        for _ in 0..pre {
            b.add_gate(NoopGate, vec![]);
        }
        let built = prog::build(prog, &mut b, 64).map_err(|e| e.to_string())?;
        if with_pis {
            b.register_public_inputs(&built.vals);
        }
        for _ in 0..pad {
            b.add_gate(NoopGate, vec![]);
        }
        let data: CircuitData<F, C, D> = b.build::<C>();
        Ok::<_, String>((built, data))
    });
    let (built, data) = match built {
        Ok(Ok(x)) => x,
        Ok(Err(e)) => return Err(format!("build: {e}")),
        Err(p) => return Err(format!("build panic: {p}")),
    };
    Ok(Inner { data, built, inputs: inputs.to_vec(), vals: it.vals, with_pis })
}

impl Inner {
    pub fn pw(&self) -> Result<PartialWitness<F>, String> {
        prog::witness(&self.built, &self.inputs, &self.vals).map_err(|e| e.to_string())
    }
    /// proof through the ordinary API, under prover knobs `k` (None = honest)
    pub fn prove(&self, k: Option<Knobs>) -> Result<PW, String> {
        let pw = self.pw()?;
        if let Some(k) = k {
            verif_knobs::set(k);
        }
        let r = guarded(|| self.data.prove(pw));
        verif_knobs::clear();
        match r {
            Ok(Ok(p)) => Ok(p),
            Ok(Err(e)) => Err(format!("prove err: {e:#}")),
            Err(p) => Err(format!("prove panic: {p}")),
        }
    }
    /// The honest assignment expanded over the identity partition.  Witness generation itself is randomised
    /// (the builder randomises unused public-input-gate wires), so proofs that must share their transcript up to
    /// some message are all made from ONE such assignment.
    pub fn fixed_assignment(&self) -> Option<Assignment<F>> {
        let prover = &self.data.prover_only;
        let common = &self.data.common;
        let pw = self.pw().ok()?;
        let mut w: PartitionWitness<F> = guarded(|| generate_partial_witness(pw, prover, common)).ok()?.ok()?;
        if !common.luts.is_empty() && plonky2::plonk::prover::set_lookup_wires(prover, common, &mut w).is_err() {
            return None;
        }
        Some(Assignment::from_partition(&w))
    }
    /// proof for a complete assignment (deterministic up to grinding when the circuit is not zero-knowledge)
    pub fn prove_assignment(&self, a: &Assignment<F>, k: Option<Knobs>) -> Result<PW, String> {
        let identity: Vec<usize> = (0..a.values.len()).collect();
        if let Some(k) = k {
            verif_knobs::set(k);
        }
        let r = guarded(|| prove_with_partition_witness(&self.data.prover_only, &self.data.common, a.to_partition(&identity), &mut TimingTree::default()));
        verif_knobs::clear();
        match r {
            Ok(Ok(p)) => Ok(p),
            Ok(Err(e)) => Err(format!("prove err: {e:#}")),
            Err(p) => Err(format!("prove panic: {p}")),
        }
    }
    /// proofs for assignments that VIOLATE the circuit (decided by the satisfaction oracle):
    /// the honest assignment over the identity partition with one corrupted cell, plain prover
    /// (lenient quotient truncation so that the release prover emits a proof).
    pub fn false_statement_proofs(&self, n: usize, r: &mut ChaCha8Rng) -> Vec<(Value, PW)> {
        let mut out = vec![];
        let prover = &self.data.prover_only;
        let common = &self.data.common;
        let Ok(pw) = self.pw() else { return out };
        let mut honest: PartitionWitness<F> = match guarded(|| generate_partial_witness(pw, prover, common)) {
            Ok(Ok(w)) => w,
            _ => return out,
        };
        if !common.luts.is_empty() && plonky2::plonk::prover::set_lookup_wires(prover, common, &mut honest).is_err() {
            return out;
        }
        let a0 = Assignment::from_partition(&honest);
        let constants = oracle::constants_by_row(prover, common);
        if !oracle::check(&a0, prover, common, &constants).satisfied() {
            return out;
        }
        let identity: Vec<usize> = (0..a0.values.len()).collect();
        let nw = a0.num_wires;
        let mut tries = 0;
        while out.len() < n && tries < 40 * n.max(1) {
            tries += 1;
            let row = r.gen_range(0..a0.degree);
            let col = r.gen_range(0..nw);
            let t = row * nw + col;
            let mut a = a0.clone();
            a.values[t] = a.values[t] + F::from_canonical_u64(1 + r.gen_range(0..1000u64));
            let v = oracle::check(&a, prover, common, &constants);
            if v.satisfied() {
                continue;
            }
            let mut k = Knobs::default();
            k.lenient_trim = true;
            verif_knobs::set(k);
            let res = guarded(|| {
                let mut timing = TimingTree::default();
                prove_with_partition_witness(prover, common, a.to_partition(&identity), &mut timing)
            });
            verif_knobs::clear();
            if let Ok(Ok(p)) = res {
                out.push((json!({"row": row, "col": col, "gate_violations": v.gate_violations.len(),
                                 "copy_violations": v.copy_violations.len()}), p));
            }
        }
        out
    }
}

// ------------------------------------------------------------------------------------------
// shape-preserving value tampers, one class per proof component (spec/RecVerifier.tla `Static`)
// ------------------------------------------------------------------------------------------
fn bump(x: &mut F, r: &mut ChaCha8Rng) {
    let old = *x;
    let nv = match r.gen_range(0..3) {
        0 => old + F::ONE,
        1 => {
            if old == F::ZERO {
                F::NEG_ONE
            } else {
                F::ZERO
            }
        }
        _ => {
            let y = F::from_canonical_u64(r.gen_range(0..GOLDILOCKS));
            if y == old {
                old + F::TWO
            } else {
                y
            }
        }
    };
    *x = nv;
}
fn bump_ext(v: &mut [FE], r: &mut ChaCha8Rng) -> Option<Value> {
    if v.is_empty() {
        return None;
    }
    let i = r.gen_range(0..v.len());
    let l = r.gen_range(0..2);
    bump(&mut v[i].0[l], r);
    Some(json!({"i": i, "limb": l}))
}
fn bump_cap(cap: &mut plonky2::hash::merkle_tree::MerkleCap<F, <C as GenericConfig<D>>::Hasher>, r: &mut ChaCha8Rng) -> Option<Value> {
    if cap.0.is_empty() {
        return None;
    }
    let i = r.gen_range(0..cap.0.len());
    let j = r.gen_range(0..4);
    bump(&mut cap.0[i].elements[j], r);
    Some(json!({"entry": i, "elt": j}))
}

/// Applies the value tamper of `class` at a seeded position; None = the class is empty for this
/// proof shape (no reduction layers, no lookups, zero-length path, ...).
pub fn tamper(p: &mut PW, class: &str, r: &mut ChaCha8Rng) -> Option<Value> {
    let (_, arg) = split_class(class);
    // layer argument of the model (0 .. NL-1, NL = min(layers, 3)): the last model layer is the proof's last layer
    let nreal = p.proof.opening_proof.commit_phase_merkle_caps.len();
    tamper_at(p, class, arg.map(|l| model_layer(l, nreal)), r)
}
/// as `tamper`, with the REAL layer index given for the layer-indexed classes
pub fn tamper_at(p: &mut PW, class: &str, real_layer: Option<usize>, r: &mut ChaCha8Rng) -> Option<Value> {
    let (base, arg) = split_class(class);
    let fp = &mut p.proof.opening_proof;
    let arg = if matches!(base, "commit_cap" | "step_eval" | "step_path") { real_layer } else { arg };
    let nrounds = fp.query_round_proofs.len();
    let round = if nrounds > 0 { round_of(class, nrounds, r) } else { 0 };
    match base {
        "pis" => {
            if p.public_inputs.is_empty() {
                return None;
            }
            let i = r.gen_range(0..p.public_inputs.len());
            bump(&mut p.public_inputs[i], r);
            Some(json!({"i": i}))
        }
        "wires_cap" => bump_cap(&mut p.proof.wires_cap, r),
        "zs_cap" => bump_cap(&mut p.proof.plonk_zs_partial_products_cap, r),
        "quot_cap" => bump_cap(&mut p.proof.quotient_polys_cap, r),
        "op_constants" => bump_ext(&mut p.proof.openings.constants, r),
        "op_sigmas" => bump_ext(&mut p.proof.openings.plonk_sigmas, r),
        "op_wires" => bump_ext(&mut p.proof.openings.wires, r),
        "op_zs" => bump_ext(&mut p.proof.openings.plonk_zs, r),
        "op_zs_next" => bump_ext(&mut p.proof.openings.plonk_zs_next, r),
        "op_pp" => bump_ext(&mut p.proof.openings.partial_products, r),
        "op_quot" => bump_ext(&mut p.proof.openings.quotient_polys, r),
        "op_lzs" => bump_ext(&mut p.proof.openings.lookup_zs, r),
        "op_lzs_next" => bump_ext(&mut p.proof.openings.lookup_zs_next, r),
        "commit_cap" => {
            if fp.commit_phase_merkle_caps.is_empty() {
                return None;
            }
            let l = arg.unwrap_or_else(|| r.gen_range(0..fp.commit_phase_merkle_caps.len()));
            if l >= fp.commit_phase_merkle_caps.len() {
                return None;
            }
            let mut d = bump_cap(&mut fp.commit_phase_merkle_caps[l], r)?;
            d["layer"] = json!(l);
            Some(d)
        }
        "final_poly" => bump_ext(&mut fp.final_poly.coeffs, r),
        "pow_witness" => {
            bump(&mut fp.pow_witness, r);
            Some(json!({}))
        }
        "init_leaf" | "init_path" => {
            if fp.query_round_proofs.is_empty() {
                return None;
            }
            let q = round;
            let eps = &mut fp.query_round_proofs[q].initial_trees_proof.evals_proofs;
            let o = arg.unwrap_or_else(|| r.gen_range(0..eps.len()));
            if o >= eps.len() {
                return None;
            }
            if base == "init_leaf" {
                if eps[o].0.is_empty() {
                    return None;
                }
                let i = r.gen_range(0..eps[o].0.len());
                bump(&mut eps[o].0[i], r);
                Some(json!({"round": q, "oracle": o, "i": i}))
            } else {
                if eps[o].1.siblings.is_empty() {
                    return None;
                }
                let s = r.gen_range(0..eps[o].1.siblings.len());
                let j = r.gen_range(0..4);
                bump(&mut eps[o].1.siblings[s].elements[j], r);
                Some(json!({"round": q, "oracle": o, "sibling": s, "elt": j}))
            }
        }
        "step_eval" | "step_path" => {
            if fp.query_round_proofs.is_empty() || fp.query_round_proofs[0].steps.is_empty() {
                return None;
            }
            let q = round;
            let steps = &mut fp.query_round_proofs[q].steps;
            let l = arg.unwrap_or_else(|| r.gen_range(0..steps.len()));
            if l >= steps.len() {
                return None;
            }
            if base == "step_eval" {
                let mut d = bump_ext(&mut steps[l].evals, r)?;
                d["round"] = json!(q);
                d["layer"] = json!(l);
                Some(d)
            } else {
                if steps[l].merkle_proof.siblings.is_empty() {
                    return None;
                }
                let s = r.gen_range(0..steps[l].merkle_proof.siblings.len());
                let j = r.gen_range(0..4);
                bump(&mut steps[l].merkle_proof.siblings[s].elements[j], r);
                Some(json!({"round": q, "layer": l, "sibling": s, "elt": j}))
            }
        }
        _ => None,
    }
}

pub fn split_class(class: &str) -> (&str, Option<usize>) {
    let class = class.strip_suffix("@last").unwrap_or(class);
    match class.split_once(':') {
        Some((b, a)) => (b, a.parse::<usize>().ok()),
        None => (class, None),
    }
}
/// `kind:idx@last` = the last query round, `kind:idx` of a sibling class = the first one
pub fn round_of(class: &str, nrounds: usize, r: &mut ChaCha8Rng) -> usize {
    let base = split_class(class).0;
    if class.ends_with("@last") {
        nrounds - 1
    } else if matches!(base, "init_path" | "step_path") {
        0
    } else {
        r.gen_range(0..nrounds)
    }
}
/// model layer l of a model with NL = min(nreal, 3) layers -> layer of the real proof
pub fn model_layer(l: usize, nreal: usize) -> usize {
    let nl = nreal.min(3);
    if nl > 0 && l == nl - 1 {
        nreal - 1
    } else if l < nl {
        l
    } else {
        usize::MAX
    }
}

fn resize<T: Clone>(v: &mut Vec<T>, surplus: bool, fill: T) -> Option<Value> {
    let before = v.len();
    if surplus {
        let x = v.last().cloned().unwrap_or(fill);
        v.push(x);
    } else {
        v.pop()?;
    }
    Some(json!({"len_before": before, "len_after": v.len()}))
}

/// shape classes (spec/RecVerifier.tla `ShapeClasses`): ONE list of an otherwise valid proof gets one surplus element
/// appended (`surplus`) or its last element removed.  `list` is the model's component name.
pub fn shape_tamper(p: &mut PW, list: &str, surplus: bool, r: &mut ChaCha8Rng) -> Option<Value> {
    let (base, arg) = split_class(list);
    let zero_h = plonky2::hash::hash_types::HashOut::<F>::ZERO;
    let ze = FE::ZERO;
    let nreal = p.proof.opening_proof.commit_phase_merkle_caps.len();
    let layer = arg.map(|l| model_layer(l, nreal));
    match base {
        "pis" => return resize(&mut p.public_inputs, surplus, F::ZERO),
        "wires_cap" => return resize(&mut p.proof.wires_cap.0, surplus, zero_h),
        "zs_cap" => return resize(&mut p.proof.plonk_zs_partial_products_cap.0, surplus, zero_h),
        "quot_cap" => return resize(&mut p.proof.quotient_polys_cap.0, surplus, zero_h),
        "op_constants" => return resize(&mut p.proof.openings.constants, surplus, ze),
        "op_sigmas" => return resize(&mut p.proof.openings.plonk_sigmas, surplus, ze),
        "op_wires" => return resize(&mut p.proof.openings.wires, surplus, ze),
        "op_zs" => return resize(&mut p.proof.openings.plonk_zs, surplus, ze),
        "op_zs_next" => return resize(&mut p.proof.openings.plonk_zs_next, surplus, ze),
        "op_pp" => return resize(&mut p.proof.openings.partial_products, surplus, ze),
        "op_quot" => return resize(&mut p.proof.openings.quotient_polys, surplus, ze),
        "op_lzs" => return resize(&mut p.proof.openings.lookup_zs, surplus, ze),
        "op_lzs_next" => return resize(&mut p.proof.openings.lookup_zs_next, surplus, ze),
        _ => {}
    }
    let fp = &mut p.proof.opening_proof;
    match base {
        "final_poly" => resize(&mut fp.final_poly.coeffs, surplus, ze),
        "commit_caps" => {
            let fill = plonky2::hash::merkle_tree::MerkleCap(vec![zero_h; 1]);
            resize(&mut fp.commit_phase_merkle_caps, surplus, fill)
        }
        "commit_cap" => {
            let l = layer?;
            resize(&mut fp.commit_phase_merkle_caps.get_mut(l)?.0, surplus, zero_h)
        }
        "rounds" => {
            if !surplus && fp.query_round_proofs.is_empty() {
                return None;
            }
            let before = fp.query_round_proofs.len();
            if surplus {
                let x = fp.query_round_proofs.last()?.clone();
                fp.query_round_proofs.push(x);
            } else {
                fp.query_round_proofs.pop();
            }
            Some(json!({"len_before": before, "len_after": fp.query_round_proofs.len()}))
        }
        "init_leaf" | "init_path" | "step_eval" | "step_path" => {
            let nr = fp.query_round_proofs.len();
            if nr == 0 {
                return None;
            }
            let q = r.gen_range(0..nr);
            let round = &mut fp.query_round_proofs[q];
            let mut d = match base {
                "init_leaf" => resize(&mut round.initial_trees_proof.evals_proofs.get_mut(arg?)?.0, surplus, F::ZERO),
                "init_path" => resize(&mut round.initial_trees_proof.evals_proofs.get_mut(arg?)?.1.siblings, surplus, zero_h),
                "step_eval" => resize(&mut round.steps.get_mut(layer?)?.evals, surplus, ze),
                _ => resize(&mut round.steps.get_mut(layer?)?.merkle_proof.siblings, surplus, zero_h),
            }?;
            d["round"] = json!(q);
            Some(d)
        }
        _ => None,
    }
}

/// verifier-data classes: returns the verifier data to present (`own` = the inner circuit's,
/// `other` = another circuit's with the same cap height)
pub fn tamper_vd(own: &VD, other: &VD, class: &str, r: &mut ChaCha8Rng) -> Option<(VD, Value)> {
    let mut vd = own.clone();
    match class {
        "vd_digest" => {
            let j = r.gen_range(0..4);
            bump(&mut vd.circuit_digest.elements[j], r);
            Some((vd, json!({"elt": j})))
        }
        "vd_cap_one" => {
            let d = bump_cap(&mut vd.constants_sigmas_cap, r)?;
            Some((vd, d))
        }
        "vd_cap_all" => {
            let j = r.gen_range(0..4);
            for h in vd.constants_sigmas_cap.0.iter_mut() {
                bump(&mut h.elements[j], r);
            }
            Some((vd, json!({"elt": j})))
        }
        "vd_other" => Some((other.clone(), json!({}))),
        "vd_other_cap" => {
            vd.constants_sigmas_cap = other.constants_sigmas_cap.clone();
            Some((vd, json!({})))
        }
        "vd_other_digest" => {
            vd.circuit_digest = other.circuit_digest;
            Some((vd, json!({})))
        }
        _ => None,
    }
}

/// prover strategies of hook H8 (spec/RecVerifier.tla `Adaptive`)
pub fn knobs_for(class: &str, nch: usize, nlayers: usize, r: &mut ChaCha8Rng) -> Option<Knobs> {
    let mut k = Knobs::default();
    k.lenient_trim = true;
    let (base, arg) = split_class(class);
    match base {
        "bad_pow" => k.pow_witness = Some(r.gen_range(0..GOLDILOCKS)),
        "final_delta" => k.fri_final_poly_delta = Some((0, 1 + r.gen_range(0..1000u64))),
        "layer_delta" => {
            if nlayers == 0 {
                return None;
            }
            let l = match arg {
                Some(l) => model_layer(l, nlayers),
                None => r.gen_range(0..nlayers),
            };
            if l >= nlayers {
                return None;
            }
            k.fri_layer_delta = Some((l, 1 + r.gen_range(0..1000u64)))
        }
        "perturb_q0" => k.perturb_quotient = Some(0),
        "perturb_qlast" => k.perturb_quotient = Some(nch - 1),
        "opening_delta" => k.opening_delta = Some(1 + r.gen_range(0..1000u64)),
        "zero_z" => k.z_override = Some(0),
        "one_z" => k.z_override = Some(1),
        _ => return None,
    }
    Some(k)
}

/// the grinding response the verifier derives for `p`
pub fn pow_response(p: &PW, vd: &VD, common: &CommonCircuitData<F, D>) -> Option<u64> {
    p.get_challenges(p.get_public_inputs_hash(), &vd.circuit_digest, common).ok().map(|c| c.fri_challenges.fri_pow_response.to_canonical_u64())
}
/// A witness whose response has EXACTLY `zeros` leading zeros.  The transcript before the witness does not depend
/// on it (deterministic prover, no zero-knowledge), so candidates are tried on the honest proof by hashing only.
pub fn find_pow_witness(honest: &PW, vd: &VD, common: &CommonCircuitData<F, D>, zeros: u32, budget: usize, r: &mut ChaCha8Rng) -> Option<u64> {
    let mut q = honest.clone();
    for _ in 0..budget {
        let w = r.gen_range(0..GOLDILOCKS);
        q.proof.opening_proof.pow_witness = F::from_canonical_u64(w);
        if pow_response(&q, vd, common)?.leading_zeros() == zeros {
            return Some(w);
        }
    }
    None
}

// ------------------------------------------------------------------------------------------
// verdicts
// ------------------------------------------------------------------------------------------
pub fn native_verdict(p: &PW, vd: &VD, common: &CommonCircuitData<F, D>) -> (bool, String) {
    let v = VerifierCircuitData::<F, C, D> { verifier_only: vd.clone(), common: common.clone() };
    match guarded(|| v.verify(p.clone())) {
        Ok(Ok(())) => (true, String::new()),
        Ok(Err(e)) => (false, format!("{e:#}").chars().take(120).collect()),
        Err(pn) => (false, format!("panic: {pn}").chars().take(120).collect()),
    }
}

/// Result of presenting an assignment to an outer circuit.
#[derive(Clone, Debug)]
pub struct CircuitVerdict {
    /// false: the library's assignment routine itself refused (shape) - nothing is asserted
    pub assignable: bool,
    pub accepted: bool,
    /// "assign_err" | "assign_panic" | "witgen_err" | "witgen_panic" | "oracle_unsat" | "sat"
    pub stage: &'static str,
    pub detail: String,
}

/// witness generation + satisfaction oracle on an outer circuit (any outer configuration `OC`)
pub fn run_outer<OC: GenericConfig<D, F = F>>(
    outer: &CircuitData<F, OC, D>,
    constants: &[Vec<F>],
    fill: impl FnOnce(&mut PartialWitness<F>) -> anyhow::Result<()>,
) -> CircuitVerdict {
    let mut pw = PartialWitness::new();
    match guarded(|| fill(&mut pw)) {
        Ok(Ok(())) => {}
        Ok(Err(e)) => {
            return CircuitVerdict { assignable: false, accepted: false, stage: "assign_err", detail: format!("{e:#}").chars().take(120).collect() }
        }
        Err(p) => return CircuitVerdict { assignable: false, accepted: false, stage: "assign_panic", detail: p.chars().take(120).collect() },
    }
    let w = match guarded(|| generate_partial_witness(pw, &outer.prover_only, &outer.common)) {
        Ok(Ok(w)) => w,
        Ok(Err(e)) => {
            return CircuitVerdict { assignable: true, accepted: false, stage: "witgen_err", detail: format!("{e:#}").chars().take(120).collect() }
        }
        Err(p) => return CircuitVerdict { assignable: true, accepted: false, stage: "witgen_panic", detail: p.chars().take(120).collect() },
    };
    let a = Assignment::from_partition(&w);
    let v = oracle::check(&a, &outer.prover_only, &outer.common, constants);
    if v.satisfied() {
        CircuitVerdict { assignable: true, accepted: true, stage: "sat", detail: String::new() }
    } else {
        CircuitVerdict {
            assignable: true,
            accepted: false,
            stage: "oracle_unsat",
            detail: format!("gate rows {:?} copy {:?}", v.gate_violations.iter().take(3).collect::<Vec<_>>(),
                            v.copy_violations.iter().take(2).collect::<Vec<_>>()),
        }
    }
}

/// outer prove + verify through the ordinary API; (proved, verified, public inputs)
pub fn outer_prove_verify<OC: GenericConfig<D, F = F>>(
    outer: &CircuitData<F, OC, D>,
    fill: impl FnOnce(&mut PartialWitness<F>) -> anyhow::Result<()>,
) -> (bool, bool, Vec<u64>, String) {
    let mut pw = PartialWitness::new();
    if !matches!(guarded(|| fill(&mut pw)), Ok(Ok(()))) {
        return (false, false, vec![], "assign".into());
    }
    match guarded(|| outer.prove(pw)) {
        Ok(Ok(p)) => {
            let pis: Vec<u64> = p.public_inputs.iter().map(|x| x.to_canonical_u64()).collect();
            match guarded(|| outer.verify(p)) {
                Ok(Ok(())) => (true, true, pis, String::new()),
                Ok(Err(e)) => (true, false, pis, format!("{e:#}").chars().take(100).collect()),
                Err(pn) => (true, false, pis, format!("panic: {pn}").chars().take(100).collect()),
            }
        }
        Ok(Err(e)) => (false, false, vec![], format!("{e:#}").chars().take(100).collect()),
        Err(pn) => (false, false, vec![], format!("panic: {pn}").chars().take(100).collect()),
    }
}

/// outer configuration from a JSON object {"zk","nch","cap","width","strat","arities"}: the standard
/// recursion configuration with the named fields replaced
pub fn outer_config(v: &Value) -> plonky2::plonk::circuit_data::CircuitConfig {
    let mut c = CfgSpec::standard();
    if let Some(z) = v.get("zk").and_then(|x| x.as_bool()) {
        c.zk = z;
    }
    if let Some(n) = v.get("nch").and_then(|x| x.as_u64()) {
        c.nch = n as usize;
    }
    if let Some(n) = v.get("cap").and_then(|x| x.as_u64()) {
        c.cap = n as usize;
    }
    if let Some(w) = v.get("width").and_then(|x| x.as_str()) {
        c.width = w.into();
    }
    if let (Some(s), Some(a)) = (v.get("strat").and_then(|x| x.as_str()), v.get("arities").and_then(|x| x.as_array())) {
        c.strat = s.into();
        c.arities = a.iter().map(|x| x.as_u64().unwrap() as usize).collect();
    }
    c.config()
}
