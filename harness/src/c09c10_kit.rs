//! Shared kit of the C09 / C10 harness binaries (included with `#[path]`, not part of the lib):
//! a data-driven STARK family implementing the public `starky::stark::Stark` trait, the
//! row-level reference semantics of a system (`rowsem`, plain `u128` arithmetic modulo an
//! arbitrary prime so that the very same evaluator is compared with TLC on F_17 and used as the
//! oracle on Goldilocks), honest trace generators for the system templates, and dispatch over the
//! compile-time column / public-input counts.
#![allow(dead_code)]
use plonky2::field::extension::{Extendable, FieldExtension};
use plonky2::field::packed::PackedField;
use plonky2::field::polynomial::PolynomialValues;
use plonky2::field::types::Field;
use plonky2::fri::reduction_strategies::FriReductionStrategy;
use plonky2::fri::FriConfig;
use plonky2::iop::ext_target::ExtensionTarget;
use plonky2::plonk::circuit_builder::CircuitBuilder;
use plonky2::plonk::config::{GenericConfig, PoseidonGoldilocksConfig};
use serde_json::{json, Value};
use starky::config::StarkConfig;
use starky::constraint_consumer::{ConstraintConsumer, RecursiveConstraintConsumer};
use starky::evaluation_frame::{StarkEvaluationFrame, StarkFrame};
use starky::lookup::{Column, Filter, Lookup};
use starky::stark::Stark;
use vh::util::*;

pub const D: usize = 2;
pub type C = PoseidonGoldilocksConfig;
pub type FE2 = <F as Extendable<D>>::Extension;
pub type H = <C as GenericConfig<D>>::Hasher;

// ------------------------------------------------------------------------------------------
// system description (the JSON form is the one printed by spec/MCStarkAlgebra.tla)
// ------------------------------------------------------------------------------------------
#[derive(Clone, Debug, PartialEq, Eq)]
pub enum V {
    L(usize),
    N(usize),
    P(usize),
}
#[derive(Clone, Debug, PartialEq, Eq)]
pub struct Term {
    pub c: i64,
    pub vars: Vec<V>,
}
#[derive(Clone, Copy, Debug, PartialEq, Eq)]
pub enum Kind {
    All,
    Trans,
    First,
    Last,
}
#[derive(Clone, Debug, PartialEq, Eq)]
pub struct Con {
    pub kind: Kind,
    pub terms: Vec<Term>,
}
/// a column expression of a lookup declaration: sum of coef*local[col] + sum coef*next[col] + constant
#[derive(Clone, Debug, PartialEq, Eq)]
pub struct ColExpr {
    pub lin: Vec<(usize, i64)>,
    pub next: Vec<(usize, i64)>,
    pub k: i64,
}
#[derive(Clone, Debug, PartialEq, Eq)]
pub struct LookupDecl {
    pub looking: Vec<ColExpr>,
    pub table: ColExpr,
    pub freq: ColExpr,
    /// one optional filter (a single column expression) per looking column
    pub filters: Vec<Option<ColExpr>>,
}
#[derive(Clone, Debug, PartialEq, Eq)]
pub struct Sys {
    pub cols: usize,
    pub npi: usize,
    pub deg: usize,
    pub cons: Vec<Con>,
    pub lookups: Vec<LookupDecl>,
    pub ctl: bool,
}

fn parse_var(s: &str) -> V {
    let i: usize = s[1..].parse().expect("var index");
    match &s[..1] {
        "L" => V::L(i),
        "N" => V::N(i),
        "P" => V::P(i),
        _ => panic!("bad var {s}"),
    }
}
fn var_str(v: &V) -> String {
    match v {
        V::L(i) => format!("L{i}"),
        V::N(i) => format!("N{i}"),
        V::P(i) => format!("P{i}"),
    }
}
pub fn kind_str(k: Kind) -> &'static str {
    match k {
        Kind::All => "all",
        Kind::Trans => "trans",
        Kind::First => "first",
        Kind::Last => "last",
    }
}
fn colexpr_from(v: &Value) -> ColExpr {
    let pairs = |x: &Value| -> Vec<(usize, i64)> {
        x.as_array().map(|a| a.iter().map(|p| (p[0].as_u64().unwrap() as usize, p[1].as_i64().unwrap())).collect()).unwrap_or_default()
    };
    ColExpr { lin: pairs(&v["lin"]), next: pairs(&v["next"]), k: v["k"].as_i64().unwrap_or(0) }
}
fn colexpr_json(c: &ColExpr) -> Value {
    json!({"lin": c.lin.iter().map(|(i, k)| json!([i, k])).collect::<Vec<_>>(),
           "next": c.next.iter().map(|(i, k)| json!([i, k])).collect::<Vec<_>>(), "k": c.k})
}
impl Sys {
    pub fn from_json(v: &Value) -> Sys {
        let cons = v["cons"]
            .as_array()
            .map(|a| {
                a.iter()
                    .map(|c| Con {
                        kind: match c["kind"].as_str().unwrap() {
                            "all" => Kind::All,
                            "trans" => Kind::Trans,
                            "first" => Kind::First,
                            "last" => Kind::Last,
                            k => panic!("bad kind {k}"),
                        },
                        terms: c["terms"]
                            .as_array()
                            .unwrap()
                            .iter()
                            .map(|t| Term {
                                c: t["c"].as_i64().unwrap(),
                                vars: t["vars"].as_array().unwrap().iter().map(|s| parse_var(s.as_str().unwrap())).collect(),
                            })
                            .collect(),
                    })
                    .collect()
            })
            .unwrap_or_default();
        let lookups = v["lookups"]
            .as_array()
            .map(|a| {
                a.iter()
                    .map(|l| LookupDecl {
                        looking: l["looking"].as_array().unwrap().iter().map(colexpr_from).collect(),
                        table: colexpr_from(&l["table"]),
                        freq: colexpr_from(&l["freq"]),
                        filters: l["filters"]
                            .as_array()
                            .unwrap()
                            .iter()
                            .map(|f| if f.is_null() { None } else { Some(colexpr_from(f)) })
                            .collect(),
                    })
                    .collect()
            })
            .unwrap_or_default();
        Sys {
            cols: v["cols"].as_u64().unwrap() as usize,
            npi: v["npi"].as_u64().unwrap() as usize,
            deg: v["deg"].as_u64().unwrap() as usize,
            cons,
            lookups,
            ctl: v["ctl"].as_bool().unwrap_or(false),
        }
    }
    pub fn to_json(&self) -> Value {
        json!({"cols": self.cols, "npi": self.npi, "deg": self.deg, "ctl": self.ctl,
            "cons": self.cons.iter().map(|c| json!({"kind": kind_str(c.kind),
                "terms": c.terms.iter().map(|t| json!({"c": t.c, "vars": t.vars.iter().map(var_str).collect::<Vec<_>>()})).collect::<Vec<_>>()})).collect::<Vec<_>>(),
            "lookups": self.lookups.iter().map(|l| json!({
                "looking": l.looking.iter().map(colexpr_json).collect::<Vec<_>>(),
                "table": colexpr_json(&l.table), "freq": colexpr_json(&l.freq),
                "filters": l.filters.iter().map(|f| f.as_ref().map(colexpr_json).unwrap_or(Value::Null)).collect::<Vec<_>>()})).collect::<Vec<_>>()})
    }
}

/// indices of the public inputs that no constraint references ("context tags": part of the statement only)
pub fn unreferenced_pis(sys: &Sys) -> Vec<usize> {
    (0..sys.npi).filter(|i| !sys.cons.iter().any(|c| c.terms.iter().any(|t| t.vars.contains(&V::P(*i))))).collect()
}

pub fn fi(c: i64) -> F {
    if c >= 0 {
        F::from_canonical_u64(c as u64)
    } else {
        -F::from_canonical_u64((-c) as u64)
    }
}

// ------------------------------------------------------------------------------------------
// the STARK family
// ------------------------------------------------------------------------------------------
#[derive(Clone, Debug)]
pub struct Fam<const N: usize, const NPI: usize> {
    pub sys: Sys,
}
impl<const N: usize, const NPI: usize> Fam<N, NPI> {
    pub fn new(sys: &Sys) -> Self {
        assert_eq!(sys.cols, N);
        assert_eq!(sys.npi, NPI);
        Fam { sys: sys.clone() }
    }
}

fn eval_terms<FE, P, const D2: usize>(terms: &[Term], lv: &[P], nv: &[P], pis: &[P::Scalar]) -> P
where
    FE: FieldExtension<D2, BaseField = F>,
    P: PackedField<Scalar = FE>,
{
    let mut acc = P::ZEROS;
    for t in terms {
        let mut m: P = P::ONES * FE::from_basefield(fi(t.c));
        for v in &t.vars {
            m = match v {
                V::L(i) => m * lv[*i],
                V::N(i) => m * nv[*i],
                V::P(i) => m * pis[*i],
            };
        }
        acc += m;
    }
    acc
}

pub fn to_column(c: &ColExpr) -> Column<F> {
    if c.lin.is_empty() && c.next.is_empty() {
        return Column::constant(fi(c.k));
    }
    let a: Vec<(usize, F)> = c.lin.iter().map(|&(i, k)| (i, fi(k))).collect();
    let b: Vec<(usize, F)> = c.next.iter().map(|&(i, k)| (i, fi(k))).collect();
    Column::linear_combination_and_next_row_with_constant(a, b, fi(c.k))
}
pub fn to_filter(f: &Option<ColExpr>) -> Filter<F> {
    match f {
        None => Filter::default(),
        Some(c) => Filter::new_simple(to_column(c)),
    }
}

impl<const N: usize, const NPI: usize> Stark<F, D> for Fam<N, NPI> {
    type EvaluationFrame<FE, P, const D2: usize>
        = StarkFrame<P, P::Scalar, N, NPI>
    where
        FE: FieldExtension<D2, BaseField = F>,
        P: PackedField<Scalar = FE>;
    type EvaluationFrameTarget = StarkFrame<ExtensionTarget<D>, ExtensionTarget<D>, N, NPI>;

    fn eval_packed_generic<FE, P, const D2: usize>(
        &self,
        vars: &Self::EvaluationFrame<FE, P, D2>,
        yield_constr: &mut ConstraintConsumer<P>,
    ) where
        FE: FieldExtension<D2, BaseField = F>,
        P: PackedField<Scalar = FE>,
    {
        let lv = vars.get_local_values();
        let nv = vars.get_next_values();
        let pis = vars.get_public_inputs();
        for c in &self.sys.cons {
            let e = eval_terms::<FE, P, D2>(&c.terms, lv, nv, pis);
            match c.kind {
                Kind::All => yield_constr.constraint(e),
                Kind::Trans => yield_constr.constraint_transition(e),
                Kind::First => yield_constr.constraint_first_row(e),
                Kind::Last => yield_constr.constraint_last_row(e),
            }
        }
    }

    fn eval_ext_circuit(
        &self,
        builder: &mut CircuitBuilder<F, D>,
        vars: &Self::EvaluationFrameTarget,
        yield_constr: &mut RecursiveConstraintConsumer<F, D>,
    ) {
        let lv = vars.get_local_values();
        let nv = vars.get_next_values();
        let pis = vars.get_public_inputs();
        for c in &self.sys.cons {
            let mut acc = builder.zero_extension();
            for t in &c.terms {
                let mut m = builder.constant_extension(ext(fi(t.c)));
                for v in &t.vars {
                    let x = match v {
                        V::L(i) => lv[*i],
                        V::N(i) => nv[*i],
                        V::P(i) => pis[*i],
                    };
                    m = builder.mul_extension(m, x);
                }
                acc = builder.add_extension(acc, m);
            }
            match c.kind {
                Kind::All => yield_constr.constraint(builder, acc),
                Kind::Trans => yield_constr.constraint_transition(builder, acc),
                Kind::First => yield_constr.constraint_first_row(builder, acc),
                Kind::Last => yield_constr.constraint_last_row(builder, acc),
            }
        }
    }

    fn constraint_degree(&self) -> usize {
        self.sys.deg
    }

    fn lookups(&self) -> Vec<Lookup<F>> {
        self.sys
            .lookups
            .iter()
            .map(|l| Lookup {
                columns: l.looking.iter().map(to_column).collect(),
                table_column: to_column(&l.table),
                frequencies_column: to_column(&l.freq),
                filter_columns: l.filters.iter().map(to_filter).collect(),
            })
            .collect()
    }

    fn requires_ctls(&self) -> bool {
        self.sys.ctl
    }
}

// ------------------------------------------------------------------------------------------
// reference row-level semantics over Z_m (m = 17 for the comparison with TLC, m = P for the oracle)
// ------------------------------------------------------------------------------------------
pub fn md(c: i64, m: u64) -> u64 {
    let mm = m as i128;
    (((c as i128) % mm + mm) % mm) as u64
}
pub fn mulm(a: u64, b: u64, m: u64) -> u64 {
    ((a as u128 * b as u128) % m as u128) as u64
}
pub fn addm(a: u64, b: u64, m: u64) -> u64 {
    ((a as u128 + b as u128) % m as u128) as u64
}
pub fn eval_terms_ref(terms: &[Term], lv: &[u64], nv: &[u64], pis: &[u64], m: u64) -> u64 {
    let mut acc = 0u64;
    for t in terms {
        let mut x = md(t.c, m);
        for v in &t.vars {
            let y = match v {
                V::L(i) => lv[*i],
                V::N(i) => nv[*i],
                V::P(i) => pis[*i],
            };
            x = mulm(x, y % m, m);
        }
        acc = addm(acc, x, m);
    }
    acc
}
/// rows where constraint kind `k` is active (the semantics proved equivalent to "the combined
/// constraint polynomial vanishes on H" by TLC on spec/StarkAlgebra): `All` every row with the
/// wrap-around successor, `Trans` every row but the last, `First` row 0, `Last` row n-1.
pub fn active(k: Kind, row: usize, n: usize) -> bool {
    match k {
        Kind::All => true,
        Kind::Trans => row + 1 < n,
        Kind::First => row == 0,
        Kind::Last => row + 1 == n,
    }
}
/// returns the list of (constraint index, row) that fail; trace is row-major
pub fn rowsem(sys: &Sys, trace: &[Vec<u64>], pis: &[u64], m: u64) -> Vec<(usize, usize)> {
    let n = trace.len();
    let mut bad = vec![];
    for (ci, c) in sys.cons.iter().enumerate() {
        for r in 0..n {
            if active(c.kind, r, n) && eval_terms_ref(&c.terms, &trace[r], &trace[(r + 1) % n], pis, m) != 0 {
                bad.push((ci, r));
            }
        }
    }
    bad
}

// ------------------------------------------------------------------------------------------
// system templates and honest traces
// ------------------------------------------------------------------------------------------
fn t(c: i64, vars: &[V]) -> Term {
    Term { c, vars: vars.to_vec() }
}
/// Template "A": col0 is a state with `next0 = cur0^k + cur1` (k = max(1, deg)), first row
/// `cur0 = pi0 | 3`, last row `cur0 = pi1 | <value>` (a constant cannot be used without public
/// inputs: the last-row constraint is then `cur1 = 7`), col1 is a free input column, every further
/// column j is bound by an all-rows constraint `cur_j = cur_{j-1} + 3 cur0` (even j) or a
/// transition `next_j = cur_j + cur_{j-1}` (odd j).  deg 1: only linear all-rows constraints
/// (`cur1 = 2 cur0 + pi0|5`, further columns as above, all-rows only); deg 0: no constraint.
pub fn template_a(cols: usize, npi: usize, deg: usize) -> Sys {
    let mut cons = vec![];
    if deg == 1 {
        if cols >= 2 {
            let mut terms = vec![t(1, &[V::L(1)]), t(-2, &[V::L(0)])];
            if npi > 0 {
                terms.push(t(-1, &[V::P(0)]));
            } else {
                terms.push(t(-5, &[]));
            }
            cons.push(Con { kind: Kind::All, terms });
        }
        for j in 2..cols {
            cons.push(Con { kind: Kind::All, terms: vec![t(1, &[V::L(j)]), t(-1, &[V::L(j - 1)]), t(-3, &[V::L(0)])] });
        }
    } else if deg >= 2 {
        let k = deg;
        // first row
        if npi > 0 {
            cons.push(Con { kind: Kind::First, terms: vec![t(1, &[V::L(0)]), t(-1, &[V::P(0)])] });
        } else {
            cons.push(Con { kind: Kind::First, terms: vec![t(1, &[V::L(0)]), t(-3, &[])] });
        }
        // last row
        if npi > 1 {
            cons.push(Con { kind: Kind::Last, terms: vec![t(1, &[V::L(0)]), t(-1, &[V::P(1)])] });
        } else if cols >= 2 {
            cons.push(Con { kind: Kind::Last, terms: vec![t(1, &[V::L(1)]), t(-7, &[])] });
        }
        // transition on the state
        let mut terms = vec![t(1, &[V::N(0)]), t(-1, &vec![V::L(0); k])];
        if cols >= 2 {
            terms.push(t(-1, &[V::L(1)]));
        }
        cons.push(Con { kind: Kind::Trans, terms });
        for j in 2..cols {
            if j % 2 == 0 {
                cons.push(Con { kind: Kind::All, terms: vec![t(1, &[V::L(j)]), t(-1, &[V::L(j - 1)]), t(-3, &[V::L(0)])] });
            } else {
                cons.push(Con { kind: Kind::Trans, terms: vec![t(1, &[V::N(j)]), t(-1, &[V::L(j)]), t(-1, &[V::L(j - 1)])] });
            }
        }
    }
    Sys { cols, npi, deg, cons, lookups: vec![], ctl: false }
}

/// honest (satisfying) trace of template A over Z_m, row-major, plus its public inputs.
pub fn trace_a(sys: &Sys, n: usize, m: u64, r: &mut impl rand::Rng) -> (Vec<Vec<u64>>, Vec<u64>) {
    let cols = sys.cols;
    let mut tr = vec![vec![0u64; cols]; n];
    let mut pis = vec![0u64; sys.npi];
    let rnd = |r: &mut dyn rand::RngCore| -> u64 { (rand::Rng::gen::<u64>(r)) % m };
    if sys.deg == 0 {
        for row in tr.iter_mut() {
            for x in row.iter_mut() {
                *x = rnd(r);
            }
        }
        for p in pis.iter_mut() {
            *p = rnd(r);
        }
        return (tr, pis);
    }
    if sys.deg == 1 {
        for p in pis.iter_mut() {
            *p = rnd(r);
        }
        for i in 0..n {
            tr[i][0] = rnd(r);
            if cols >= 2 {
                let k = if sys.npi > 0 { pis[0] } else { 5 % m };
                tr[i][1] = addm(mulm(2 % m, tr[i][0], m), k, m);
            }
            for j in 2..cols {
                tr[i][j] = addm(tr[i][j - 1], mulm(3 % m, tr[i][0], m), m);
            }
        }
        return (tr, pis);
    }
    let k = sys.deg;
    let x0 = if sys.npi > 0 { rnd(r) } else { 3 % m };
    tr[0][0] = x0;
    for i in 0..n {
        if cols >= 2 {
            tr[i][1] = rnd(r);
        }
        if i + 1 == n && sys.npi < 2 && cols >= 2 {
            tr[i][1] = 7 % m;
        }
        if i + 1 < n {
            let mut p = 1u64;
            for _ in 0..k {
                p = mulm(p, tr[i][0], m);
            }
            tr[i + 1][0] = addm(p, if cols >= 2 { tr[i][1] } else { 0 }, m);
        }
    }
    for j in 2..cols {
        if j % 2 == 0 {
            for i in 0..n {
                tr[i][j] = addm(tr[i][j - 1], mulm(3 % m, tr[i][0], m), m);
            }
        } else {
            tr[0][j] = rnd(r);
            for i in 0..n - 1 {
                tr[i + 1][j] = addm(tr[i][j], tr[i][j - 1], m);
            }
        }
    }
    if sys.npi > 0 {
        pis[0] = x0;
    }
    if sys.npi > 1 {
        pis[1] = tr[n - 1][0];
    }
    for p in pis.iter_mut().skip(2) {
        *p = rnd(r);
    }
    (tr, pis)
}

pub fn to_polys(trace: &[Vec<u64>]) -> Vec<PolynomialValues<F>> {
    let cols = trace[0].len();
    (0..cols).map(|c| PolynomialValues::new(trace.iter().map(|row| F::from_canonical_u64(row[c])).collect())).collect()
}

// ------------------------------------------------------------------------------------------
// configurations
// ------------------------------------------------------------------------------------------
/// `{"rate":1,"cap":4,"pow":16,"queries":84,"nc":2,"strategy":["const",4,5] | ["fixed",[..]] | ["min",k|null]}`
pub fn config_from(v: &Value) -> StarkConfig {
    let s = &v["strategy"];
    let strategy = match s[0].as_str().unwrap_or("const") {
        "fixed" => FriReductionStrategy::Fixed(s[1].as_array().unwrap().iter().map(|x| x.as_u64().unwrap() as usize).collect()),
        "min" => FriReductionStrategy::MinSize(s[1].as_u64().map(|x| x as usize)),
        _ => FriReductionStrategy::ConstantArityBits(s[1].as_u64().unwrap_or(4) as usize, s[2].as_u64().unwrap_or(5) as usize),
    };
    StarkConfig {
        security_bits: v["security"].as_u64().unwrap_or(100) as usize,
        num_challenges: v["nc"].as_u64().unwrap_or(2) as usize,
        fri_config: FriConfig {
            rate_bits: v["rate"].as_u64().unwrap_or(1) as usize,
            cap_height: v["cap"].as_u64().unwrap_or(4) as usize,
            proof_of_work_bits: v["pow"].as_u64().unwrap_or(16) as u32,
            reduction_strategy: strategy,
            num_query_rounds: v["queries"].as_u64().unwrap_or(84) as usize,
        },
    }
}
pub fn binding_bits(c: &StarkConfig) -> usize {
    c.fri_config.num_query_rounds * c.fri_config.rate_bits + c.fri_config.proof_of_work_bits as usize
}

/// dispatch over the compile-time (columns, public inputs) pairs of the family
#[macro_export]
macro_rules! fam_dispatch {
    ($cols:expr, $npi:expr, $f:ident, $($args:expr),*) => {
        match ($cols, $npi) {
            (1, 0) => $f::<1, 0>($($args),*),
            (2, 0) => $f::<2, 0>($($args),*),
            (3, 0) => $f::<3, 0>($($args),*),
            (5, 0) => $f::<5, 0>($($args),*),
            (8, 0) => $f::<8, 0>($($args),*),
            (1, 2) => $f::<1, 2>($($args),*),
            (2, 2) => $f::<2, 2>($($args),*),
            (3, 2) => $f::<3, 2>($($args),*),
            (5, 2) => $f::<5, 2>($($args),*),
            (8, 2) => $f::<8, 2>($($args),*),
            (2, 3) => $f::<2, 3>($($args),*),
            (3, 3) => $f::<3, 3>($($args),*),
            (c, p) => panic!("family has no instance with {c} columns and {p} public inputs"),
        }
    };
}

pub fn ext(x: F) -> FE2 {
    <FE2 as FieldExtension<D>>::from_basefield(x)
}
pub fn ext_arr(x: FE2) -> [F; D] {
    <FE2 as FieldExtension<D>>::to_basefield_array(&x)
}

// ------------------------------------------------------------------------------------------
// reference semantics of lookups / cross-table lookups over Z_m (multiset predicates)
// ------------------------------------------------------------------------------------------
/// value of a column expression at `row` (next row taken cyclically, as `Column::eval_table`)
pub fn colexpr_ref(c: &ColExpr, trace: &[Vec<u64>], row: usize, m: u64) -> u64 {
    let n = trace.len();
    let mut acc = md(c.k, m);
    for &(i, k) in &c.lin {
        acc = addm(acc, mulm(md(k, m), trace[row][i] % m, m), m);
    }
    for &(i, k) in &c.next {
        acc = addm(acc, mulm(md(k, m), trace[(row + 1) % n][i] % m, m), m);
    }
    acc
}
pub fn filter_ref(f: &Option<ColExpr>, trace: &[Vec<u64>], row: usize, m: u64) -> u64 {
    match f {
        None => 1 % m,
        Some(c) => colexpr_ref(c, trace, row, m),
    }
}
/// logUp: for every value v, (sum of the filter weights of the looking entries equal to v) =
/// (sum of the frequencies of the table rows equal to v), in Z_m.  Returns the offending values.
pub fn lookup_bad_values(l: &LookupDecl, trace: &[Vec<u64>], m: u64) -> Vec<u64> {
    let mut w: std::collections::BTreeMap<u64, u64> = Default::default();
    for row in 0..trace.len() {
        for (c, f) in l.looking.iter().zip(&l.filters) {
            let v = colexpr_ref(c, trace, row, m);
            let e = w.entry(v).or_insert(0);
            *e = addm(*e, filter_ref(f, trace, row, m), m);
        }
        let t = colexpr_ref(&l.table, trace, row, m);
        let fr = colexpr_ref(&l.freq, trace, row, m);
        let e = w.entry(t).or_insert(0);
        *e = addm(*e, (m - fr) % m, m);
    }
    w.into_iter().filter(|(_, x)| *x != 0).map(|(v, _)| v).collect()
}
pub fn lookups_ok(sys: &Sys, trace: &[Vec<u64>], m: u64) -> bool {
    sys.lookups.iter().all(|l| lookup_bad_values(l, trace, m).is_empty())
}

#[derive(Clone, Debug)]
pub struct CtlSide {
    pub table: usize,
    pub cols: Vec<ColExpr>,
    pub filter: Option<ColExpr>,
}
#[derive(Clone, Debug)]
pub struct CtlDecl {
    pub looking: Vec<CtlSide>,
    pub looked: CtlSide,
    pub extra: Vec<Vec<u64>>,
}
fn side_from(v: &Value) -> CtlSide {
    CtlSide {
        table: v["table"].as_u64().unwrap() as usize,
        cols: v["cols"].as_array().unwrap().iter().map(colexpr_from).collect(),
        filter: if v["filter"].is_null() { None } else { Some(colexpr_from(&v["filter"])) },
    }
}
impl CtlDecl {
    pub fn from_json(v: &Value) -> CtlDecl {
        CtlDecl {
            looking: v["looking"].as_array().unwrap().iter().map(side_from).collect(),
            looked: side_from(&v["looked"]),
            extra: v["extra"].as_array().map(|a| a.iter().map(|r| r.as_array().unwrap().iter().map(|x| x.as_u64().unwrap()).collect()).collect()).unwrap_or_default(),
        }
    }
}
/// CTL: the filter-weighted multiset of looking tuples (plus the extra tuples, weight 1) equals the
/// filter-weighted multiset of looked tuples, in Z_m.  Returns the offending tuples.
pub fn ctl_bad_tuples(c: &CtlDecl, traces: &[Vec<Vec<u64>>], m: u64) -> Vec<Vec<u64>> {
    let mut w: std::collections::BTreeMap<Vec<u64>, u64> = Default::default();
    let mut add = |side: &CtlSide, sign_neg: bool| {
        let tr = &traces[side.table];
        for row in 0..tr.len() {
            let f = filter_ref(&side.filter, tr, row, m);
            if f == 0 {
                continue;
            }
            let t: Vec<u64> = side.cols.iter().map(|c| colexpr_ref(c, tr, row, m)).collect();
            let e = w.entry(t).or_insert(0);
            *e = addm(*e, if sign_neg { (m - f) % m } else { f }, m);
        }
    };
    for s in &c.looking {
        add(s, false);
    }
    add(&c.looked, true);
    for x in &c.extra {
        let e = w.entry(x.iter().map(|v| v % m).collect()).or_insert(0);
        *e = addm(*e, 1 % m, m);
    }
    w.into_iter().filter(|(_, x)| *x != 0).map(|(t, _)| t).collect()
}
