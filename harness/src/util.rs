//! Shared helpers: seeded RNG, limb encoding, ndjson output, panic capture.
use std::fs::File;
use std::io::{BufWriter, Write};
use std::panic::{catch_unwind, AssertUnwindSafe};
use std::sync::atomic::{AtomicBool, Ordering};

use plonky2::field::goldilocks_field::GoldilocksField;
use plonky2::field::types::{Field, PrimeField64};
use rand::SeedableRng;
use rand_chacha::ChaCha8Rng;
use serde_json::{json, Value};

pub type F = GoldilocksField;
pub const P: u64 = 0xFFFF_FFFF_0000_0001;

pub fn seed() -> u64 {
    std::env::var("VERIF_SEED").ok().and_then(|s| s.parse::<u64>().ok()).unwrap_or(1)
}

pub fn rng(stream: u64) -> ChaCha8Rng {
    let mut r = ChaCha8Rng::seed_from_u64(seed());
    r.set_stream(stream);
    r
}

/// 64-bit word as 8 little-endian byte limbs (the representation of spec/Limbs.tla).
pub fn limbs(x: u64) -> Value {
    Value::Array(x.to_le_bytes().iter().map(|b| json!(*b)).collect())
}
pub fn limbs128(x: u128) -> Value {
    Value::Array(x.to_le_bytes().iter().map(|b| json!(*b)).collect())
}
/// raw (possibly non-canonical) representation of a field element
pub fn fl(x: F) -> Value {
    limbs(x.to_noncanonical_u64())
}
pub fn fls(xs: &[F]) -> Value {
    Value::Array(xs.iter().map(|x| fl(*x)).collect())
}
pub fn canon(x: F) -> u64 {
    x.to_canonical_u64()
}
pub fn f(x: u64) -> F {
    F::from_noncanonical_u64(x)
}
pub fn fc(x: u64) -> F {
    F::from_canonical_u64(x % P)
}

pub struct NdJson {
    w: BufWriter<File>,
    pub n: usize,
}
impl NdJson {
    pub fn create(path: &str) -> anyhow::Result<Self> {
        if let Some(p) = std::path::Path::new(path).parent() {
            std::fs::create_dir_all(p)?;
        }
        Ok(Self { w: BufWriter::new(File::create(path)?), n: 0 })
    }
    pub fn put(&mut self, v: &Value) {
        serde_json::to_writer(&mut self.w, v).unwrap();
        self.w.write_all(b"\n").unwrap();
        self.n += 1;
    }
    pub fn finish(mut self) -> usize {
        self.w.flush().unwrap();
        self.n
    }
}

/// print one JSON result line on stdout (the driver reads lines starting with '{')
pub fn emit(v: &Value) {
    println!("{}", serde_json::to_string(v).unwrap());
}

static QUIET: AtomicBool = AtomicBool::new(false);
pub fn install_quiet_panic_hook() {
    let default = std::panic::take_hook();
    std::panic::set_hook(Box::new(move |info| {
        if !QUIET.load(Ordering::Relaxed) {
            default(info);
        }
    }));
}

/// Run code under test; a panic is data.
pub fn guarded<T>(fun: impl FnOnce() -> T) -> Result<T, String> {
    QUIET.store(true, Ordering::Relaxed);
    let r = catch_unwind(AssertUnwindSafe(fun));
    QUIET.store(false, Ordering::Relaxed);
    r.map_err(|e| {
        if let Some(s) = e.downcast_ref::<String>() {
            s.clone()
        } else if let Some(s) = e.downcast_ref::<&str>() {
            s.to_string()
        } else {
            "panic".to_string()
        }
    })
}

/// parse `--key value` style options
pub fn opt<'a>(args: &'a [String], key: &str) -> Option<&'a str> {
    args.iter().position(|a| a == key).and_then(|i| args.get(i + 1)).map(|s| s.as_str())
}
pub fn opt_usize(args: &[String], key: &str, default: usize) -> usize {
    opt(args, key).and_then(|s| s.parse().ok()).unwrap_or(default)
}

/// The boundary lattice of 64-bit words used throughout (C14 design): around 0, EPS, 2^32,
/// 2^63, P and 2^64.
pub fn boundary_words() -> Vec<u64> {
    let eps: u64 = 0xFFFF_FFFF;
    let mut v = vec![];
    for base in [0u64, eps, 1 << 32, 1 << 63, P, 0u64.wrapping_sub(1), 1 << 31, 1 << 48, P / 2] {
        for d in 0..3u64 {
            v.push(base.wrapping_add(d));
            v.push(base.wrapping_sub(d));
        }
    }
    v.push(0xFFFF_FFFE_FFFF_FFFF);
    v.push(0xFFFF_FFFF_FFFF_0000);
    v.push(0x0000_0001_0000_0001);
    v.sort_unstable();
    v.dedup();
    v
}

/// lift a K=4 model word (two nibbles) to a 64-bit word: nibble n<8 -> n, n>=8 -> 2^32-16+n
pub fn lift_k4(w: u64) -> u64 {
    let lift = |n: u64| if n < 8 { n } else { (1u64 << 32) - 16 + n };
    (lift((w >> 4) & 15) << 32) | lift(w & 15)
}

/// common `main`: dispatch `argv[1]` with the remaining arguments; Err => exit 2 (tool error).
pub fn run_main(f: impl FnOnce(&str, &[String]) -> anyhow::Result<()>) -> std::process::ExitCode {
    let args: Vec<String> = std::env::args().skip(1).collect();
    if args.is_empty() {
        eprintln!("usage: <bin> <command> [args]");
        return std::process::ExitCode::from(2);
    }
    install_quiet_panic_hook();
    match f(args[0].as_str(), &args[1..]) {
        Ok(()) => std::process::ExitCode::SUCCESS,
        Err(e) => {
            eprintln!("harness error: {e:#}");
            std::process::ExitCode::from(2)
        }
    }
}
