//! vh — the Rust side of /verif: records traces / operation logs from the real plonky2 code
//! and replays specification-generated scenarios into it.  One module per area.
#![allow(clippy::needless_range_loop, clippy::too_many_arguments, clippy::type_complexity)]

pub mod util;
pub mod c14_field;

use std::process::ExitCode;

fn main() -> ExitCode {
    let args: Vec<String> = std::env::args().skip(1).collect();
    if args.is_empty() {
        eprintln!("usage: vh <command> [args]");
        return ExitCode::from(2);
    }
    // A panic inside code under test is data; the default hook would spam stderr.
    util::install_quiet_panic_hook();
    let rest = &args[1..];
    let r = match args[0].as_str() {
        "c14-record" => c14_field::record(rest),
        "c14-bulk" => c14_field::bulk(rest),
        other => Err(anyhow::anyhow!("unknown command {other}")),
    };
    match r {
        Ok(()) => ExitCode::SUCCESS,
        Err(e) => {
            eprintln!("vh error: {e:#}");
            ExitCode::from(2)
        }
    }
}
