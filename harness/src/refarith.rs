//! Independent reference arithmetic modulo an arbitrary prime `p < 2^64` (plain u128 and `%`),
//! and in the quadratic extension F_p[X]/(X^2 - 7).  Used as the oracle side of replays; its own
//! operations are validated by TLC (C14 reflog) for p = Goldilocks and by spec/Programs.tla for
//! p = 17.
pub const GOLDILOCKS: u64 = 0xFFFF_FFFF_0000_0001;

#[derive(Clone, Copy, Debug, PartialEq, Eq)]
pub struct Fp {
    pub p: u64,
}

impl Fp {
    pub const fn new(p: u64) -> Self {
        Self { p }
    }
    pub fn red(&self, a: u64) -> u64 {
        a % self.p
    }
    pub fn add(&self, a: u64, b: u64) -> u64 {
        (((a % self.p) as u128 + (b % self.p) as u128) % self.p as u128) as u64
    }
    pub fn sub(&self, a: u64, b: u64) -> u64 {
        (((a % self.p) as u128 + self.p as u128 - (b % self.p) as u128) % self.p as u128) as u64
    }
    pub fn neg(&self, a: u64) -> u64 {
        self.sub(0, a)
    }
    pub fn mul(&self, a: u64, b: u64) -> u64 {
        (((a % self.p) as u128 * (b % self.p) as u128) % self.p as u128) as u64
    }
    pub fn pow(&self, a: u64, mut e: u64) -> u64 {
        let mut base = a % self.p;
        let mut acc = 1u64 % self.p;
        while e > 0 {
            if e & 1 == 1 {
                acc = self.mul(acc, base);
            }
            base = self.mul(base, base);
            e >>= 1;
        }
        acc
    }
    /// inverse of a non-zero element (Fermat)
    pub fn inv(&self, a: u64) -> Option<u64> {
        if a % self.p == 0 {
            None
        } else {
            Some(self.pow(a, self.p - 2))
        }
    }
    // ---- quadratic extension, X^2 = 7
    pub fn e_add(&self, a: [u64; 2], b: [u64; 2]) -> [u64; 2] {
        [self.add(a[0], b[0]), self.add(a[1], b[1])]
    }
    pub fn e_sub(&self, a: [u64; 2], b: [u64; 2]) -> [u64; 2] {
        [self.sub(a[0], b[0]), self.sub(a[1], b[1])]
    }
    pub fn e_mul(&self, a: [u64; 2], b: [u64; 2]) -> [u64; 2] {
        let w = 7 % self.p;
        [
            self.add(self.mul(a[0], b[0]), self.mul(w, self.mul(a[1], b[1]))),
            self.add(self.mul(a[0], b[1]), self.mul(a[1], b[0])),
        ]
    }
    pub fn e_inv(&self, a: [u64; 2]) -> Option<[u64; 2]> {
        // (a0 + a1 X)^-1 = (a0 - a1 X) / (a0^2 - 7 a1^2)
        let w = 7 % self.p;
        let n = self.sub(self.mul(a[0], a[0]), self.mul(w, self.mul(a[1], a[1])));
        let ni = self.inv(n)?;
        Some([self.mul(a[0], ni), self.mul(self.neg(a[1]), ni)])
    }
    pub fn e_pow(&self, a: [u64; 2], mut e: u64) -> [u64; 2] {
        let mut base = a;
        let mut acc = [1 % self.p, 0];
        while e > 0 {
            if e & 1 == 1 {
                acc = self.e_mul(acc, base);
            }
            base = self.e_mul(base, base);
            e >>= 1;
        }
        acc
    }
}
