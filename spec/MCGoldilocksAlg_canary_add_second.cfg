CONSTANT K = 3
CONSTANT Disabled = "add_second"
INIT Init
NEXT Next
INVARIANT Correct
INVARIANT AssumesHold
INVARIANT NegCanonical
CHECK_DEADLOCK FALSE
