CONSTANT TB = 2
CONSTANT WB = 16
CONSTANT SMALL = 64
CONSTANT BIGT = 16
CONSTANT LBBLOCK = 1
CONSTANT MaxLb = 10
CONSTANT ESizes = {1, 2, 8, 16}
CONSTANT Mutant = "none"
INIT Init
NEXT Next
INVARIANT Correct
INVARIANT InBounds
CHECK_DEADLOCK FALSE
