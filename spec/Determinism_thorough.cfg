CONSTANT Mutant = "none"
CONSTANT Threads = {1, 2, 3, 8, 16}
CONSTANT Flavours = {"release", "seed2", "avx2", "avx512", "debug"}
CONSTANT FlavourThreads = {1, 8}
INIT Init
NEXT Next
INVARIANT TypeOK
INVARIANT KeyIndependent
INVARIANT IntermediatesIndependent
INVARIANT OnlyGrindingDiffers
INVARIANT VerdictIndependent
CHECK_DEADLOCK FALSE
