\* real thresholds, element sizes of 512 B .. 32 KiB: the strategy cut-over depends on size_of::<T>() << lb_n
CONSTANT TB = 6
CONSTANT WB = 16
CONSTANT SMALL = 65536
CONSTANT BIGT = 16384
CONSTANT LBBLOCK = 3
CONSTANT MaxLb = 9
CONSTANT ESizes = {1, 32, 512, 2048, 4096, 8192, 8200, 16376, 16384, 32768}
CONSTANT Mutant = "none"
INIT Init
NEXT Next
INVARIANT Correct
INVARIANT InBounds
INVARIANT ChunkedSize
CHECK_DEADLOCK FALSE
