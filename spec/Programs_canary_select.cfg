CONSTANT MaxLen = 2
CONSTANT Ops = {"is_equal", "select"}
CONSTANT Mutant = "select_swapped"
INIT Init
NEXT Next
INVARIANT TypeOK
INVARIANT Emit
CHECK_DEADLOCK FALSE
