------------------------------- MODULE Merkle -------------------------------
(***************************************************************************)
(* Property-level specification of Merkle commitments with a cap (C12),    *)
(* plus the pure index arithmetic of the implementation's digest layout.   *)
(*                                                                         *)
(* Hashes are SYMBOLIC: a digest is the term that describes how it was     *)
(* computed; equality of terms = an injective (collision-free) hash.       *)
(*   H2(l, r)        two_to_one                                            *)
(*   HN(v)           hash_no_pad of a vector longer than a digest          *)
(*   Pad(v)          hash_or_noop on a vector no longer than a digest:     *)
(*                   the elements verbatim (zero padded) - injective for a *)
(*                   FIXED width, which is all the property talks about    *)
(* No constants, no variables: the state machines live in MC*.tla /        *)
(* MerkleFill / BatchMerkle / PathCompression.                             *)
(***************************************************************************)
EXTENDS Naturals, Sequences, FiniteSets, TLC

DIGEST == 4                       \* NUM_HASH_OUT_ELTS
ELT_BYTES == 8                    \* a field element is written as 8 little-endian bytes
POSEIDON_BYTES == 32              \* Hasher::HASH_SIZE of PoseidonHash (4 elements)
KECCAK25_BYTES == 25              \* Hasher::HASH_SIZE of KeccakHash<25>
H2(l, r) == <<"h2", l, r>>
HN(v)    == <<"hn", v>>
Pad(v)   == <<"id", v>>
\* Hasher::hash_or_noop: a no-op (identity embedding) iff the leaf's BYTE length fits the digest,
\* i.e. width*8 <= HASH_SIZE - 4 elements for Poseidon but only 3 for the 25-byte Keccak digest
HashOrNoopB(hs, w, v) == IF ELT_BYTES * w <= hs THEN Pad(v) ELSE HN(v)
\* the symbolic state machines use the Poseidon digest size (w <= 4); the byte-level definition
\* below (LeafDigestB) is what distinguishes the hashers and is checked in MCLeafDigest
HashOrNoop(w, v) == HashOrNoopB(POSEIDON_BYTES, w, v)

(***************************************************************************)
(* Byte-level leaf digest.  A leaf is a sequence of elements, an element a *)
(* sequence of ELT_BYTES bytes.  In the no-op case the digest IS the       *)
(* leaf's bytes, zero padded to hs bytes - never truncated, because the    *)
(* condition guarantees that they fit.  The mutant "noop_by_element_count" *)
(* (no-op iff at most DIGEST elements, buffer resized to hs) truncates a   *)
(* 4-element leaf under a 25-byte digest: TLC refutes it through           *)
(* MCLeafDigest!CollisionFree / OpensOnlyCommitted.                        *)
(***************************************************************************)
RECURSIVE FlatBytes(_)
FlatBytes(leaf) == IF leaf = <<>> THEN <<>> ELSE Head(leaf) \o FlatBytes(Tail(leaf))
Resize(bs, n) == [k \in 1..n |-> IF k <= Len(bs) THEN bs[k] ELSE 0]
LeafFits(hs, leaf, mut) ==
  IF mut = "noop_by_element_count" THEN Len(leaf) <= DIGEST ELSE ELT_BYTES * Len(leaf) <= hs
LeafDigestB(hs, leaf, mut) ==
  IF LeafFits(hs, leaf, mut) THEN <<"id", Resize(FlatBytes(leaf), hs)>> ELSE <<"hn", leaf>>
UNINIT == <<"uninit">>

RECURSIVE Pow2(_)
Pow2(n) == IF n = 0 THEN 1 ELSE 2 * Pow2(n - 1)
Shr(x, k)  == x \div Pow2(k)
Shl(x, k)  == x * Pow2(k)
Xor1(x)    == IF x % 2 = 0 THEN x + 1 ELSE x - 1
LowBits(x, k) == x % Pow2(k)
RECURSIVE Log2(_)
Log2(n) == IF n <= 1 THEN 0 ELSE 1 + Log2(n \div 2)

(***************************************************************************)
(* The tree.  lv : 0..2^h-1 -> leaf value, w = common leaf width.          *)
(* Node(lv,w,k,j) = digest of the j-th node of level k (level 0 = leaves). *)
(***************************************************************************)
RECURSIVE Node(_, _, _, _)
Node(lv, w, k, j) ==
  IF k = 0 THEN HashOrNoop(w, lv[j])
  ELSE H2(Node(lv, w, k - 1, 2 * j), Node(lv, w, k - 1, 2 * j + 1))

\* the cap of height capH of a tree of height h: level h-capH, 2^capH entries (0-based function)
CapOf(lv, w, h, capH) == [c \in 0..(Pow2(capH) - 1) |-> Node(lv, w, h - capH, c)]

\* the membership proof for position i: siblings bottom-up (1-based sequence of length h-capH)
Path(lv, w, h, capH, i) ==
  [k \in 1..(h - capH) |-> Node(lv, w, k - 1, Xor1(Shr(i, k - 1)))]

(***************************************************************************)
(* Verification: the bitwise walk.  mut selects a specification mutant     *)
(* (canaries): "none" is the specification.                                *)
(***************************************************************************)
RECURSIVE Walk(_, _, _, _, _)
Walk(cur, idx, path, k, mut) ==
  IF k > Len(path) THEN <<cur, idx>>
  ELSE Walk(IF idx % 2 = 1 /\ mut # "noswap" THEN H2(path[k], cur) ELSE H2(cur, path[k]),
            idx \div 2, path, k + 1, mut)

VerifyM(w, leaf, i, path, cap, mut) ==
  LET r == Walk(HashOrNoop(w, leaf), i, path, 1, mut)
  IN  IF mut = "capany" THEN \E c \in DOMAIN cap : r[1] = cap[c]
      ELSE r[2] \in DOMAIN cap /\ r[1] = cap[r[2]]

Verify(w, leaf, i, path, cap) == VerifyM(w, leaf, i, path, cap, "none")

(***************************************************************************)
(* Implementation-shaped index arithmetic (pure): the interleaved digest   *)
(* layout of merkle_tree.rs and merkle_tree_prove's sibling index formula. *)
(***************************************************************************)
\* Which node does slot s of ONE subtree buffer of length len = 2*(n-1) hold after
\* fill_subtree?  <<level, index within the subtree>> (level 0 = the subtree's leaves).
RECURSIVE StoredAt(_, _)
StoredAt(len, s) ==
  LET half == len \div 2
      lg   == Log2(half + 1)        \* n = half+1 leaves; children roots are at level lg-1
  IN  IF s = half - 1 THEN <<lg - 1, 0>>
      ELSE IF s = half THEN <<lg - 1, 1>>
      ELSE IF s < half - 1 THEN StoredAt(half - 1, s)
      ELSE LET r == StoredAt(half - 1, s - half - 1)
           IN  <<r[1], r[2] + Pow2(lg - 1 - r[1])>>

\* slot s of the whole `digests` vector of a tree with 2^h leaves and cap height capH
\* (2^capH contiguous subtree buffers): <<level, global index in that level>>
StoredGlobal(h, capH, s) ==
  LET sublen == (2 * (Pow2(h) - Pow2(capH))) \div Pow2(capH)
      c      == s \div sublen
      r      == StoredAt(sublen, s % sublen)
  IN  <<r[1], c * Pow2(h - capH - r[1]) + r[2]>>

\* merkle_tree_prove: the slots read for leaf_index i (1-based sequence, bottom-up).
\* mut = "sib_off" is the off-by-one canary.
RECURSIVE ProveSlotsFrom(_, _, _, _, _)
ProveSlotsFrom(pairIndex, k, numLayers, base, mut) ==
  IF k = numLayers THEN <<>>
  ELSE LET parity == pairIndex % 2
           p      == pairIndex \div 2
           sibs   == Shl(p, k + 1) + Pow2(k) - (IF mut = "sib_off" THEN 0 ELSE 1)
           sib    == 2 * sibs + (1 - parity)
       IN  <<base + sib>> \o ProveSlotsFrom(p, k + 1, numLayers, base, mut)

ProveSlots(i, h, capH, mut) ==
  LET numLayers == h - capH
      digestLen == 2 * (Pow2(h) - Pow2(capH))
      treeIndex == Shr(i, numLayers)
      treeLen   == digestLen \div Pow2(capH)
  IN  ProveSlotsFrom(LowBits(i, numLayers), 0, numLayers, treeLen * treeIndex, mut)
=============================================================================
