----------------------------- MODULE WitnessGen -----------------------------
(***************************************************************************)
(* The witness-generation work list of iop/generator.rs                    *)
(* (generate_partial_witness), transcribed:                                *)
(*   all generators start pending; a round runs every pending, unexpired   *)
(*   generator once; a generator that finds all its dependencies present   *)
(*   finishes (expires) and writes its outputs; every generator watching a *)
(*   newly populated value is queued for the next round; generation stops  *)
(*   when a round queues nothing, and fails with "n generators weren't     *)
(*   run" if unexpired generators remain; writing a value that differs     *)
(*   from the one already present fails with a conflict.                   *)
(*                                                                         *)
(* Values: NIn inputs (ids 1..NIn), generator k (k = 1..Len(gens)) owns    *)
(* value NIn+k and depends on a set of earlier values (an acyclic graph,   *)
(* as circuits built through the builder API are).  A subset of the inputs *)
(* is provided; optionally one generator-owned value is pre-set by the     *)
(* caller, to the value the generator will compute or to a different one.  *)
(*                                                                         *)
(* Property level (C01 mechanism "generators fill every wire", C02         *)
(* mechanism "conflicting assignments are refused"), for EVERY order in    *)
(* which a round runs its generators:                                      *)
(*   - the outcome is Ok iff every generator's dependencies are derivable  *)
(*     from the provided inputs and no pre-set value conflicts;            *)
(*   - then every generator expired exactly once and every derivable value *)
(*     is present; the outcome does not depend on the order;               *)
(*   - a conflicting pre-set value is always refused;                      *)
(*   - "weren't run" is reported iff some dependency is not derivable.     *)
(* Every graph x provided-set x pre-set is printed with its expected       *)
(* outcome and replayed on the real generate_partial_witness.              *)
(***************************************************************************)
EXTENDS Integers, Sequences, FiniteSets, TLC, Json

CONSTANTS NIn, MaxGens, Mutant     \* Mutant: "none" | "no_requeue" | "ignore_conflict"

VARIABLES gens,        \* sequence of dependency sets
          provided,    \* subset of 1..NIn
          preset,      \* <<0, FALSE>> (none) or <<value id, agrees>>
          known, expired, pending, nextp, phase, outcome
vars == <<gens, provided, preset, known, expired, pending, nextp, phase, outcome>>

Vals(n) == 1..(NIn + n)
Owner(v) == v - NIn                                      \* generator owning value v (v > NIn)
Watchers(gs, v) == {k \in 1..Len(gs) : v \in gs[k]}

\* ---- scenario choice (phase "setup") ------------------------------------------------------
Init == /\ gens = <<>> /\ provided = {} /\ preset = <<0, FALSE>>
        /\ known = {} /\ expired = {} /\ pending = {} /\ nextp = {} /\ phase = "setup" /\ outcome = "none"

AddGen == /\ phase = "setup" /\ Len(gens) < MaxGens
          /\ \E deps \in SUBSET Vals(Len(gens)) : Cardinality(deps) <= 2 /\ gens' = Append(gens, deps)
          /\ UNCHANGED <<provided, preset, known, expired, pending, nextp, phase, outcome>>
Start == /\ phase = "setup" /\ Len(gens) >= 1
         /\ \E pr \in SUBSET (1..NIn) : \E ps \in {<<0, FALSE>>} \cup {<<NIn + k, a>> : k \in 1..Len(gens), a \in BOOLEAN} :
              /\ provided' = pr /\ preset' = ps
              /\ known' = pr \cup (IF ps[1] = 0 THEN {} ELSE {ps[1]})
              /\ pending' = 1..Len(gens) /\ nextp' = {} /\ expired' = {}
              /\ phase' = "run" /\ outcome' = "none"
         /\ UNCHANGED gens

\* ---- the work list (phase "run"): any pending generator of the current round may run next ----
RunGen(k) ==
  /\ phase = "run" /\ k \in pending
  /\ pending' = pending \ {k}
  /\ IF k \in expired THEN UNCHANGED <<known, expired, nextp, outcome, phase>>
     ELSE IF gens[k] \subseteq known
          THEN LET v == NIn + k
                   conflict == preset[1] = v /\ ~preset[2] /\ Mutant # "ignore_conflict"
                   fresh == v \notin known
               IN IF conflict THEN /\ outcome' = "conflict" /\ phase' = "done"
                                   /\ UNCHANGED <<known, expired, nextp>>
                  ELSE /\ expired' = expired \cup {k}
                       /\ known' = known \cup {v}
                       \* watchers of a NEWLY populated value are queued (unless expired)
                       /\ nextp' = IF fresh /\ Mutant # "no_requeue"
                                   THEN nextp \cup (Watchers(gens, v) \ (expired \cup {k})) ELSE nextp
                       /\ UNCHANGED <<outcome, phase>>
          ELSE UNCHANGED <<known, expired, nextp, outcome, phase>>          \* not finished: waits for a watch
  /\ UNCHANGED <<gens, provided, preset>>
EndRound ==
  /\ phase = "run" /\ pending = {}
  /\ IF nextp = {} THEN /\ phase' = "done"
                        /\ outcome' = IF Cardinality(expired) = Len(gens) THEN "ok" ELSE "not_run"
                        /\ UNCHANGED <<pending, nextp>>
     ELSE /\ pending' = nextp /\ nextp' = {} /\ UNCHANGED <<phase, outcome>>
  /\ UNCHANGED <<gens, provided, preset, known, expired>>

Next == AddGen \/ Start \/ (\E k \in 1..MaxGens : RunGen(k)) \/ EndRound
Spec == Init /\ [][Next]_vars

\* ---- property level: the outcome, declaratively --------------------------------------------
RECURSIVE Derivable(_, _)
Derivable(S, n) == IF n = 0 THEN S
                   ELSE LET T == S \cup {NIn + k : k \in {j \in 1..Len(gens) : gens[j] \subseteq S}} IN Derivable(T, n - 1)
Closure == Derivable(provided, MaxGens)                 \* values derivable from the provided inputs alone
AllDerivable == \A k \in 1..Len(gens) : gens[k] \subseteq Closure
\* a pre-set value counts as present for the dependants of its owner, but the owner must still run
ClosureWithPreset == Derivable(provided \cup (IF preset[1] = 0 THEN {} ELSE {preset[1]}), MaxGens)
Expected == IF preset[1] # 0 /\ ~preset[2] /\ gens[Owner(preset[1])] \subseteq ClosureWithPreset THEN "conflict"
            ELSE IF \A k \in 1..Len(gens) : gens[k] \subseteq ClosureWithPreset THEN "ok" ELSE "not_run"

OutcomeAsExpected == phase = "done" => outcome = Expected
OkMeansComplete == phase = "done" /\ outcome = "ok" => expired = 1..Len(gens) /\ ClosureWithPreset \subseteq known
ExpireOnce == Cardinality(expired) <= Len(gens)

Scenario == [gens |-> [k \in 1..Len(gens) |-> gens[k]], provided |-> provided,
             preset |-> [value |-> preset[1], agrees |-> preset[2]], expected |-> Expected, nin |-> NIn]
Emit == phase = "done" => PrintT("WGEN " \o ToJson(Scenario))
=============================================================================
