CONSTANT P = 17
CONSTANT N = 2
CONSTANT MUT = "looked_filter_ignored"
CONSTANT DIDS = {3}
CONSTANT BETAS = {2}
INIT Init
NEXT Next
INVARIANT Theorem
CHECK_DEADLOCK FALSE
