---------------------------- MODULE PoseidonTrace ----------------------------
(***************************************************************************)
(* Trace validation for C13 (permutation part).  The log holds             *)
(*  "ref"   a layer-by-layer chain computed by the harness's textbook      *)
(*          implementation: must satisfy PoseidonRef!ChainOk (this is what *)
(*          makes that implementation an admissible bulk oracle);          *)
(*  "real"  an output of the REAL code (Poseidon::poseidon, poseidon_naive,*)
(*          PoseidonPermutation::permute, full_rounds, partial_rounds,     *)
(*          partial_rounds_naive, and single layers fed with a recorded    *)
(*          state of chain `ref`): must equal the recorded state `at`;     *)
(*  "mds" / "sbox" / "const"  a real single layer on an arbitrary          *)
(*          (possibly non-canonical) state: checked against the definition;*)
(*  "fastmds" a real mds_partial_layer_fast(state, r) on a CARRY-BOUNDARY   *)
(*          state of its 160-bit accumulator, against SparseMdsOk;         *)
(*  "kat"   chain `ref` starts at published input k and must end in the    *)
(*          published output k.                                            *)
(* Same two-level fan-out as OpLogTrace; a violation names the event l.    *)
(***************************************************************************)
EXTENDS PoseidonRef, Json, IOUtils

Rec == ndJsonDeserialize(IOEnv.TRACE)
N == Len(Rec)
Chunk == 8
NChunks == (N + Chunk - 1) \div Chunk

VARIABLES ck, l
vars == <<ck, l>>

\* state `at` of chain e: 0 = input, k = after round k-1 (MDS layer); "c"/"b" layers by name
StateAt(e, layer, k) ==
  IF layer = "in" THEN e.in
  ELSE IF layer = "c" THEN e.c[k] ELSE IF layer = "b" THEN e.b[k] ELSE e.m[k]

OpOk(e) ==
  CASE e.op = "ref"   -> ChainOk(e.in, e.c, e.b, e.m)
    [] e.op = "real"  -> /\ e.ref \in 1..N /\ Rec[e.ref].op = "ref"
                         /\ IsState(e.out)
                         /\ EqState(e.out, StateAt(Rec[e.ref], e.layer, e.at))
    [] e.op = "mds"   -> IsState(e.in) /\ IsState(e.out) /\ MdsLayerOk(e.in, e.out)
    [] e.op = "sbox"  -> IsState(e.in) /\ IsState(e.out) /\ SboxLayerOk(TRUE, e.in, e.out)
    [] e.op = "const" -> IsState(e.in) /\ IsState(e.out) /\ e.r \in 0..(NRounds - 1)
                         /\ ConstLayerOk(e.r, e.in, e.out)
    [] e.op = "fastmds" -> IsState(e.in) /\ IsState(e.out) /\ SparseMdsOk(e.in, e.out, e.wt, e.v)
    [] e.op = "kat"   -> /\ e.ref \in 1..N /\ Rec[e.ref].op = "ref" /\ e.k \in 1..Len(KnownAnswers)
                         /\ Rec[e.ref].in = KnownAnswers[e.k][1]
                         /\ EqState(Rec[e.ref].m[NRounds], KnownAnswers[e.k][2])
    [] OTHER          -> FALSE

ASSUME ConstantsOk

Init == ck = 0 /\ l = 0
Next == \/ ck = 0 /\ l = 0 /\ ck' \in 1..NChunks /\ l' = 0
        \/ ck > 0 /\ l = 0 /\ ck' = ck
           /\ l' \in ((ck - 1) * Chunk + 1)..(IF ck * Chunk > N THEN N ELSE ck * Chunk)
EventOk == l > 0 => OpOk(Rec[l])
Accepted == TLCGet("distinct") = 1 + NChunks + N
=============================================================================
