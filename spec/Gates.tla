------------------------------- MODULE Gates -------------------------------
(***************************************************************************)
(* C07 - every value a gate computes is pinned by its constraints.         *)
(*                                                                         *)
(* Per built-in gate of plonky2/src/gates a SMALL-FIELD transcription of   *)
(*   - the wire layout as a function of the gate's parameters,             *)
(*   - the witness generator (which wires it writes from which inputs),    *)
(*   - the constraint list,                                                *)
(*   - the declared num_wires / num_constants / num_constraints / degree.  *)
(* Field: F_P (P prime), extension F_P[X]/(X^2 - W), W = 7 mod P (7 is a   *)
(* non-residue for P in {5, 11, 13, 17}), D = 2.  Wire index i of the code *)
(* is position i+1 of a row tuple.                                         *)
(*                                                                         *)
(* Twins (stated, not hidden): Poseidon is modelled with width g.w, g.hf   *)
(* full rounds per half, g.np partial rounds, swap block g.blk, S-box      *)
(* x^ALPHA, synthetic round constants and a circulant+diagonal matrix, the *)
(* partial rounds in the naive form (the code's fast form is equal to it,  *)
(* property C13); PoseidonMds with the same matrix and width g.w.  The     *)
(* layout formulas are the code's and are evaluated at the real parameters *)
(* (12, 4, 22, 4) in the catalogue.                                        *)
(*                                                                         *)
(* A gate case is a record g with g.kind and the parameters of that kind:  *)
(*  "arith" n | "arithext" n | "mulext" n | "basesum" b,l | "constant" n | *)
(*  "expo" n | "ra" bits,copies,extra | "reducing" n | "reducingext" n |   *)
(*  "mds" w | "pi" | "noop" | "lookup" slots | "lookuptable" slots |       *)
(*  "coset" bits,deg | "poseidon" w,hf,np,blk                              *)
(* plus g.dom / g.cdom in {"full","small"}: whether unconstrained inputs / *)
(* constants range over all of F_P or over {0, 1, P-1}.                    *)
(***************************************************************************)
EXTENDS Integers, Sequences, FiniteSets, SequencesExt, TLC

CONSTANTS P,         \* the prime
          ALPHA,     \* S-box exponent of the Poseidon twin (gcd(ALPHA, P-1) = 1)
          GEN,       \* a generator of F_P^*
          DropKind,  \* mutant: constraints of gates of this kind ...
          DropIdx    \* ... have constraint number DropIdx (1-based) removed; 0 = none

D == 2
W == 7 % P
F == 0..(P - 1)
Small == {0, 1, P - 1}
Tiny == {1, P - 1}

\* ---------------------------------------------------------------- field
Add(a, b) == (a + b) % P
Sub(a, b) == (a + P - b) % P
Mul(a, b) == (a * b) % P
RECURSIVE Pow(_, _)
Pow(a, e) == IF e = 0 THEN 1 ELSE (a * Pow(a, e - 1)) % P
Inv(a) == Pow(a, P - 2)
RECURSIVE IPow(_, _)          \* integer power
IPow(a, e) == IF e = 0 THEN 1 ELSE a * IPow(a, e - 1)

EAdd(x, y) == <<(x[1] + y[1]) % P, (x[2] + y[2]) % P>>
ESub(x, y) == <<(x[1] + P - y[1]) % P, (x[2] + P - y[2]) % P>>
EMul(x, y) == <<(x[1] * y[1] + W * ((x[2] * y[2]) % P)) % P, (x[1] * y[2] + x[2] * y[1]) % P>>
EScal(k, x) == <<(k * x[1]) % P, (k * x[2]) % P>>
EZero == <<0, 0>>
EOne == <<1, 0>>

\* ---------------------------------------------------------------- forcing helpers
\* TLC evaluates operator arguments and LET bodies lazily, once per use.  Values that go
\* through the Java-implemented FoldLeft are concrete; these helpers force evaluation.
Iota(n) == [i \in 1..n |-> i]
Let(e, Op(_)) == FoldLeft(LAMBDA a, x : Op(x), 0, <<e>>)
MapSeq(Op(_), s) == FoldLeft(LAMBDA acc, x : Append(acc, Op(x)), <<>>, s)
MapN(Op(_), n) == MapSeq(Op, Iota(n))                  \* <<Op(1), ..., Op(n)>>
Concat(ss) == FoldLeft(LAMBDA acc, s : acc \o s, <<>>, ss)
FlatMapN(Op(_), n) == FoldLeft(LAMBDA acc, i : acc \o Op(i), <<>>, Iota(n))
Range0(a, n) == MapN(LAMBDA i : a + i - 1, n)          \* <<a, a+1, ..., a+n-1>>
Zeros(n) == MapN(LAMBDA i : 0, n)
SeqSet(s) == {s[i] : i \in 1..Len(s)}

\* wire access: wire index i of the code = position i + 1
Wr(r, i) == r[i + 1]
XW(r, s) == <<r[s + 1], r[s + 2]>>                     \* extension element on wires s, s+1

\* ---------------------------------------------------------------- Poseidon twin parameters
RC(rd, i) == (rd * rd + 3 * i + 2) % P                 \* round constant of round rd, lane i
CIRC(i) == (i * i + i + 1) % P
DIAG(i) == (i + 2) % P
SboxTab == MapN(LAMBDA x : Pow(x - 1, ALPHA), P)       \* constant table (evaluated once)
Sbox(x) == SboxTab[x + 1]
\* row i (0-based) of the linear layer applied to the concrete state st (1-based tuple, width w)
MdsRow(st, w, i) ==
  LET S[k \in 0..w] == IF k = w THEN 0 ELSE (CIRC(k) * st[((k + i) % w) + 1] + S[k + 1]) % P
  IN (S[0] + DIAG(i) * st[i + 1]) % P
Mds(st, w) == MapN(LAMBDA i : MdsRow(st, w, i - 1), w)
AddRC(st, w, rd) == MapN(LAMBDA i : (st[i] + RC(rd, i - 1)) % P, w)
SboxAll(st, w) == MapN(LAMBDA i : Sbox(st[i]), w)

\* ---------------------------------------------------------------- coset interpolation parameters
RECURSIVE TwoAdicity(_)
TwoAdicity(n) == IF n % 2 = 1 THEN 0 ELSE 1 + TwoAdicity(n \div 2)
MaxBits == TwoAdicity(P - 1)
SubgroupGen(bits) == Pow(GEN, (P - 1) \div IPow(2, bits))
DomPtDef(bits, i) == Pow(SubgroupGen(bits), i)         \* i-th point (0-based) of two_adic_subgroup
BaryWDef(bits, i) ==
  LET n == IPow(2, bits)
      Pr[j \in 0..n] == IF j = n THEN 1
                        ELSE IF j = i THEN Pr[j + 1]
                        ELSE (Sub(DomPtDef(bits, i), DomPtDef(bits, j)) * Pr[j + 1]) % P
  IN Inv(Pr[0])
\* constant tables (concrete tuples, evaluated once): [bits][i + 1]
DomTab == MapN(LAMBDA b : MapN(LAMBDA i : DomPtDef(b, i - 1), IPow(2, b)), MaxBits)
BaryTab == MapN(LAMBDA b : MapN(LAMBDA i : BaryWDef(b, i - 1), IPow(2, b)), MaxBits)
InvTab == MapN(LAMBDA x : Inv(x), P - 1)
DomPt(bits, i) == DomTab[bits][i + 1]
BaryW(bits, i) == BaryTab[bits][i + 1]
\* with_max_degree: degree actually used for a requested bound
CosetNumInter(bits, deg) == (IPow(2, bits) - 2) \div (deg - 1)
CosetDegreeFor(bits, maxdeg) ==
  ((IPow(2, bits) - 2) \div (((IPow(2, bits) - 2) \div (maxdeg - 1)) + 1)) + 2

\* ================================================================ LAYOUT
PoSF0(g) == 2 * g.w + 1 + g.blk                        \* START_FULL_0
PoSP(g) == PoSF0(g) + g.w * (g.hf - 1)                 \* START_PARTIAL
PoSF1(g) == PoSP(g) + g.np                             \* START_FULL_1
RaVs(g) == IPow(2, g.bits)
RaStride(g) == 2 + RaVs(g)
RaRouted(g) == RaStride(g) * g.copies + g.extra
RaBit(g, i, c) == RaRouted(g) + c * g.bits + i
CoN(g) == IPow(2, g.bits)
CoNI(g) == CosetNumInter(g.bits, g.deg)
CoPoint(g) == 1 + CoN(g) * D
CoValue(g) == CoPoint(g) + D
CoSI(g) == CoValue(g) + D                              \* start_intermediates
CoIEval(g, i) == CoSI(g) + D * i
CoIProd(g, i) == CoSI(g) + D * (CoNI(g) + i)
CoShifted(g) == CoSI(g) + D * 2 * CoNI(g)
RedAcc(g, i) ==                                        \* wires_accs(i), i 0-based
  IF i = g.n - 1 THEN 0
  ELSE IF g.kind = "reducing" THEN 3 * D + g.n + D * i ELSE 3 * D + g.n * D + D * i

NumWires(g) ==
  CASE g.kind = "arith" -> 4 * g.n
    [] g.kind = "arithext" -> 4 * D * g.n
    [] g.kind = "mulext" -> 3 * D * g.n
    [] g.kind = "basesum" -> 1 + g.l
    [] g.kind = "constant" -> g.n
    [] g.kind = "expo" -> 2 + 2 * g.n
    [] g.kind = "ra" -> RaBit(g, g.bits - 1, g.copies - 1) + 1
    [] g.kind = "reducing" -> 2 * D + g.n * (D + 1)
    [] g.kind = "reducingext" -> 2 * D + 2 * D * g.n
    [] g.kind = "mds" -> 2 * D * g.w
    [] g.kind = "pi" -> 4
    [] g.kind = "noop" -> 0
    [] g.kind = "lookup" -> 2 * g.slots
    [] g.kind = "lookuptable" -> 3 * g.slots
    [] g.kind = "coset" -> CoSI(g) + D * (2 * CoNI(g) + 1)
    [] g.kind = "poseidon" -> PoSF1(g) + g.w * g.hf

NumConsts(g) ==
  CASE g.kind \in {"arith", "arithext"} -> 2
    [] g.kind = "mulext" -> 1
    [] g.kind = "constant" -> g.n
    [] g.kind = "ra" -> g.extra
    [] OTHER -> 0

NumConstraints(g) ==
  CASE g.kind = "arith" -> g.n
    [] g.kind \in {"arithext", "mulext", "reducing", "reducingext"} -> D * g.n
    [] g.kind = "basesum" -> 1 + g.l
    [] g.kind = "constant" -> g.n
    [] g.kind = "expo" -> g.n + 1
    [] g.kind = "ra" -> g.copies * (g.bits + 2) + g.extra
    [] g.kind = "mds" -> g.w * D
    [] g.kind = "pi" -> 4
    [] g.kind \in {"noop", "lookup", "lookuptable"} -> 0
    [] g.kind = "coset" -> D + D + 2 * D * CoNI(g)
    [] g.kind = "poseidon" -> g.w * (2 * g.hf - 1) + g.np + g.w + 1 + g.blk

\* g.alpha: the S-box exponent the degree refers to (7 in the code, ALPHA in the twin)
Degree(g) ==
  CASE g.kind \in {"arith", "arithext", "mulext"} -> 3
    [] g.kind = "basesum" -> g.b
    [] g.kind \in {"constant", "mds", "pi"} -> 1
    [] g.kind = "expo" -> 4
    [] g.kind = "ra" -> g.bits + 1
    [] g.kind \in {"reducing", "reducingext"} -> 2
    [] g.kind \in {"noop", "lookup", "lookuptable"} -> 0
    [] g.kind = "coset" -> g.deg
    [] g.kind = "poseidon" -> g.alpha

\* number of public-input-hash elements the constraints read
NumHash(g) == IF g.kind = "pi" THEN 4 ELSE 0

In(w, dom, n) == [w |-> w, dom |-> dom, n |-> n]
\* generator inputs: wire, admissible values ("any", "bool", "nz" = non-zero, "lt" = 0..n-1,
\* "ltpow" = 0..b^n-1 for the gate's base b,
\* "lut" = an input of the lookup table)
InputSpec(g) ==
  CASE g.kind = "arith" -> FlatMapN(LAMBDA i : <<In(4*(i-1), "any", 0), In(4*(i-1)+1, "any", 0), In(4*(i-1)+2, "any", 0)>>, g.n)
    [] g.kind = "arithext" -> FlatMapN(LAMBDA i : MapN(LAMBDA j : In(4*D*(i-1) + j - 1, "any", 0), 3 * D), g.n)
    [] g.kind = "mulext" -> FlatMapN(LAMBDA i : MapN(LAMBDA j : In(3*D*(i-1) + j - 1, "any", 0), 2 * D), g.n)
    [] g.kind = "basesum" -> <<In(0, "ltpow", g.l)>>          \* 0 .. b^l - 1
    [] g.kind = "expo" -> <<In(0, "any", 0)>> \o MapN(LAMBDA i : In(i, "bool", 0), g.n)
    [] g.kind = "ra" -> FlatMapN(LAMBDA c : <<In(RaStride(g)*(c-1), "lt", RaVs(g))>>
                                   \o MapN(LAMBDA i : In(RaStride(g)*(c-1) + 1 + i, "any", 0), RaVs(g)), g.copies)
    [] g.kind = "reducing" -> MapN(LAMBDA j : In(D + j - 1, "any", 0), 2 * D + g.n)
    [] g.kind = "reducingext" -> MapN(LAMBDA j : In(D + j - 1, "any", 0), 2 * D + D * g.n)
    [] g.kind = "mds" -> MapN(LAMBDA j : In(j - 1, "any", 0), D * g.w)
    [] g.kind = "lookup" -> MapN(LAMBDA i : In(2*(i-1), "lut", 0), g.slots)
    [] g.kind = "coset" -> <<In(0, "nz", 0)>> \o MapN(LAMBDA j : In(j, "any", 0), CoN(g) * D + D)
    [] g.kind = "poseidon" -> MapN(LAMBDA j : In(j - 1, "any", 0), g.w) \o <<In(2 * g.w, "bool", 0)>>
    [] OTHER -> <<>>
InputWires(g) == MapSeq(LAMBDA s : s.w, InputSpec(g))

\* the generator as a sequence of steps; step k writes the wires StepWires(g, k)
NSteps(g) ==
  CASE g.kind \in {"arith", "arithext", "mulext", "reducing", "reducingext"} -> g.n
    [] g.kind = "basesum" -> 1
    [] g.kind = "expo" -> g.n + 1
    [] g.kind = "ra" -> g.copies
    [] g.kind = "mds" -> g.w
    [] g.kind = "lookup" -> g.slots
    [] g.kind = "lookuptable" -> g.slots
    [] g.kind = "coset" -> CoNI(g) + 2
    [] g.kind = "poseidon" -> 1 + (g.hf - 1) + g.np + g.hf + 1
    [] OTHER -> 0

StepWires(g, k) ==
  CASE g.kind = "arith" -> <<4 * (k - 1) + 3>>
    [] g.kind = "arithext" -> Range0(4 * D * (k - 1) + 3 * D, D)
    [] g.kind = "mulext" -> Range0(3 * D * (k - 1) + 2 * D, D)
    [] g.kind = "basesum" -> Range0(1, g.l)
    [] g.kind = "expo" -> IF k <= g.n THEN <<2 + g.n + (k - 1)>> ELSE <<1 + g.n>>
    [] g.kind = "ra" -> <<RaStride(g) * (k - 1) + 1>> \o MapN(LAMBDA i : RaBit(g, i - 1, k - 1), g.bits)
    [] g.kind \in {"reducing", "reducingext"} -> Range0(RedAcc(g, k - 1), D)
    [] g.kind = "mds" -> Range0((g.w + k - 1) * D, D)
    [] g.kind = "lookup" -> <<2 * (k - 1) + 1>>
    [] g.kind = "lookuptable" -> <<3 * (k - 1), 3 * (k - 1) + 1>>
    [] g.kind = "coset" -> IF k = 1 THEN Range0(CoShifted(g), D)
                           ELSE IF k = CoNI(g) + 2 THEN Range0(CoValue(g), D)
                           ELSE Range0(CoIEval(g, k - 2), D) \o Range0(CoIProd(g, k - 2), D)
    [] g.kind = "poseidon" ->
         IF k = 1 THEN Range0(2 * g.w + 1, g.blk)
         ELSE IF k <= g.hf THEN Range0(PoSF0(g) + g.w * (k - 2), g.w)
         ELSE IF k <= g.hf + g.np THEN <<PoSP(g) + (k - g.hf - 1)>>
         ELSE IF k <= 2 * g.hf + g.np THEN Range0(PoSF1(g) + g.w * (k - g.hf - g.np - 1), g.w)
         ELSE Range0(g.w, g.w)
Written(g) == FlatMapN(LAMBDA k : StepWires(g, k), NSteps(g))

\* wires the circuit builder fills (not a gate generator) and the gate pins to a constant /
\* to the public-input hash: <<wire, "const" | "hash", index (1-based)>>
Filled(g) ==
  CASE g.kind = "constant" -> MapN(LAMBDA i : <<i - 1, "const", i>>, g.n)
    [] g.kind = "ra" -> MapN(LAMBDA i : <<RaStride(g) * g.copies + i - 1, "const", i>>, g.extra)
    [] g.kind = "pi" -> MapN(LAMBDA i : <<i - 1, "hash", i>>, 4)
    [] OTHER -> <<>>
FilledWires(g) == MapSeq(LAMBDA t : t[1], Filled(g))
\* generator-written wires that are bound by the lookup argument (C08), not by gate constraints
Delegated(g) == IF g.kind \in {"lookup", "lookuptable"} THEN Written(g) ELSE <<>>
\* wires set by the prover after witness generation (multiplicities), bound by the lookup argument
Other(g) == IF g.kind = "lookuptable" THEN MapN(LAMBDA i : 3 * (i - 1) + 2, g.slots) ELSE <<>>
\* the wires property C07 speaks about
Pinned(g) == IF g.kind \in {"lookup", "lookuptable"} THEN <<>> ELSE Written(g) \o FilledWires(g)

LayoutOK(g) ==
  LET all == InputWires(g) \o Written(g) \o FilledWires(g) \o Other(g) IN
  /\ \A i \in 1..Len(all) : all[i] \in 0..(NumWires(g) - 1)
  /\ \A i, j \in 1..Len(all) : i # j => all[i] # all[j]        \* pairwise disjoint
  /\ Len(all) = NumWires(g)                                     \* every wire has a role
  /\ \A i \in 1..Len(Filled(g)) : Filled(g)[i][2] = "const" => Filled(g)[i][3] <= NumConsts(g)

\* ================================================================ GENERATORS
\* values written by step k, computed from the concrete row acc (inputs + earlier steps)
ArithExtOut(c, a, b, d) == EAdd(EScal(c[1], EMul(a, b)), EScal(c[2], d))

ExpoPrev(g, acc, i) == IF i = 0 THEN 1 ELSE Mul(Wr(acc, 2 + g.n + i - 1), Wr(acc, 2 + g.n + i - 1))

\* one barycentric step on concrete (eval, prod): point index i (0-based), shifted point sp
CosetStep(g, r, sp, ep, i) ==
  LET term == ESub(sp, <<DomPt(g.bits, i), 0>>)
      val == EScal(BaryW(g.bits, i), XW(r, 1 + i * D))
  IN <<EAdd(EMul(ep[1], term), EMul(val, ep[2])), EMul(ep[2], term)>>
\* chunk c (0-based): points lo..hi-1 starting from (eval, prod) = start
CosetChunkLo(g, c) == IF c = 0 THEN 0 ELSE 1 + (g.deg - 1) * c
CosetChunkHi(g, c) == IF c = 0 THEN g.deg
                      ELSE IF CosetChunkLo(g, c) + g.deg - 1 < CoN(g) THEN CosetChunkLo(g, c) + g.deg - 1 ELSE CoN(g)
CosetChunk(g, r, sp, start, c) ==
  FoldLeft(LAMBDA ep, i : CosetStep(g, r, sp, ep, i), start,
           Range0(CosetChunkLo(g, c), CosetChunkHi(g, c) - CosetChunkLo(g, c)))
CosetStart(g, r, c) == IF c = 0 THEN <<EZero, EOne>> ELSE <<XW(r, CoIEval(g, c - 1)), XW(r, CoIProd(g, c - 1))>>

\* Poseidon twin: the state entering the S-boxes of a round, from the wires of the row.
PoSwapped(g, r) ==        \* possibly swapped input layer, through the delta wires
  MapN(LAMBDA i : IF i <= g.blk THEN Add(Wr(r, i - 1), Wr(r, 2 * g.w + 1 + i - 1))
                  ELSE IF i <= 2 * g.blk THEN Sub(Wr(r, i - 1), Wr(r, 2 * g.w + 1 + i - 1 - g.blk))
                  ELSE Wr(r, i - 1), g.w)
PoWires(r, s, w) == SubSeq(r, s + 1, s + w)
\* state before the S-boxes of first-half round rd (0-based), computed (not read from wires)
PoFull0In(g, r, rd) ==
  IF rd = 0 THEN AddRC(PoSwapped(g, r), g.w, 0)
  ELSE Let(IF rd = 1 THEN AddRC(PoSwapped(g, r), g.w, 0) ELSE PoWires(r, PoSF0(g) + g.w * (rd - 2), g.w),
           LAMBDA prev : Let(SboxAll(prev, g.w), LAMBDA sb : Let(Mds(sb, g.w), LAMBDA m : AddRC(m, g.w, rd))))
\* full states entering the partial rounds 0..np-1 (lane 1 = value compared with the wire)
PoPartialStates(g, r) ==
  LET last == IF g.hf = 1 THEN AddRC(PoSwapped(g, r), g.w, 0) ELSE PoWires(r, PoSF0(g) + g.w * (g.hf - 2), g.w)
      first == Let(SboxAll(last, g.w), LAMBDA sb : Let(Mds(sb, g.w), LAMBDA m : AddRC(m, g.w, g.hf)))
  IN FoldLeft(LAMBDA acc, j :
                Append(acc, Let(<<Sbox(Wr(r, PoSP(g) + j - 1))>> \o SubSeq(acc[Len(acc)], 2, g.w),
                                LAMBDA st : Let(Mds(st, g.w), LAMBDA m : AddRC(m, g.w, g.hf + j)))),
              <<first>>, Iota(g.np))
\* element j+1 (j = 0..np-1) is the state entering partial round j; element np+1 the state
\* entering the second half (round constants of round hf+np added)
PoFull1In(g, r, rd) ==     \* computed state before the S-boxes of second-half round rd (0-based)
  IF rd = 0 THEN PoPartialStates(g, r)[g.np + 1]
  ELSE Let(SboxAll(PoWires(r, PoSF1(g) + g.w * (rd - 1), g.w), g.w),
           LAMBDA sb : Let(Mds(sb, g.w), LAMBDA m : AddRC(m, g.w, g.hf + g.np + rd)))
PoOut(g, r) ==
  Let(SboxAll(PoWires(r, PoSF1(g) + g.w * (g.hf - 1), g.w), g.w), LAMBDA sb : Mds(sb, g.w))

MdsExtOut(g, r, i) ==      \* output i (0-based) of the MDS gate: both components
  MapN(LAMBDA comp : MdsRow(MapN(LAMBDA k : Wr(r, (k - 1) * D + comp - 1), g.w), g.w, i), D)

LutTwin(x) == (3 * x + 1) % P           \* the table of the lookup twin: x -> 3x + 1

StepVals(g, c, acc, k) ==
  CASE g.kind = "arith" ->
         <<Add(Mul(Mul(Wr(acc, 4*(k-1)), Wr(acc, 4*(k-1)+1)), c[1]), Mul(Wr(acc, 4*(k-1)+2), c[2]))>>
    [] g.kind = "arithext" ->
         ArithExtOut(c, XW(acc, 4*D*(k-1)), XW(acc, 4*D*(k-1) + D), XW(acc, 4*D*(k-1) + 2*D))
    [] g.kind = "mulext" -> EScal(c[1], EMul(XW(acc, 3*D*(k-1)), XW(acc, 3*D*(k-1) + D)))
    [] g.kind = "basesum" -> MapN(LAMBDA i : (Wr(acc, 0) \div IPow(g.b, i - 1)) % g.b, g.l)
    [] g.kind = "expo" ->
         IF k <= g.n
         THEN <<IF Wr(acc, 1 + (g.n - (k - 1) - 1)) = 1 THEN Mul(ExpoPrev(g, acc, k - 1), Wr(acc, 0))
                ELSE ExpoPrev(g, acc, k - 1)>>
         ELSE <<Wr(acc, 2 + g.n + g.n - 1)>>
    [] g.kind = "ra" ->
         <<Wr(acc, RaStride(g)*(k-1) + 2 + Wr(acc, RaStride(g)*(k-1)))>>
         \o MapN(LAMBDA i : (Wr(acc, RaStride(g)*(k-1)) \div IPow(2, i - 1)) % 2, g.bits)
    [] g.kind = "reducing" ->
         EAdd(EMul(IF k = 1 THEN XW(acc, 2 * D) ELSE XW(acc, RedAcc(g, k - 2)), XW(acc, D)),
              <<Wr(acc, 3 * D + k - 1), 0>>)
    [] g.kind = "reducingext" ->
         EAdd(EMul(IF k = 1 THEN XW(acc, 2 * D) ELSE XW(acc, RedAcc(g, k - 2)), XW(acc, D)),
              XW(acc, 3 * D + D * (k - 1)))
    [] g.kind = "mds" -> MdsExtOut(g, acc, k - 1)
    [] g.kind = "lookup" -> <<LutTwin(Wr(acc, 2 * (k - 1)))>>
    [] g.kind = "lookuptable" -> <<(k - 1) % P, LutTwin((k - 1) % P)>>
    [] g.kind = "coset" ->
         IF k = 1 THEN EScal(InvTab[Wr(acc, 0)], XW(acc, CoPoint(g)))
         ELSE Let(CosetChunk(g, acc, XW(acc, CoShifted(g)), CosetStart(g, acc, k - 2), k - 2),
                  LAMBDA ep : IF k = CoNI(g) + 2 THEN ep[1] ELSE ep[1] \o ep[2])
    [] g.kind = "poseidon" ->
         IF k = 1 THEN MapN(LAMBDA i : Mul(Wr(acc, 2 * g.w), Sub(Wr(acc, i - 1 + g.blk), Wr(acc, i - 1))), g.blk)
         ELSE IF k <= g.hf THEN PoFull0In(g, acc, k - 1)
         ELSE IF k <= g.hf + g.np THEN <<PoPartialStates(g, acc)[k - g.hf][1]>>
         ELSE IF k <= 2 * g.hf + g.np THEN PoFull1In(g, acc, k - g.hf - g.np - 1)
         ELSE PoOut(g, acc)

PlaceAll(acc, ws, vs) == FoldLeft(LAMBDA a, j : [a EXCEPT ![ws[j] + 1] = vs[j]], acc, Iota(Len(ws)))

\* the honest row: inputs placed, builder-filled wires placed, then the generator steps
BaseRow(g, c, h, inp) ==
  Let(PlaceAll(Zeros(NumWires(g)), InputWires(g), inp),
      LAMBDA r0 : PlaceAll(r0, FilledWires(g),
                           MapSeq(LAMBDA t : IF t[2] = "const" THEN c[t[3]] ELSE h[t[3]], Filled(g))))
GenRow(g, c, h, inp) ==
  FoldLeft(LAMBDA acc, k : Let(StepVals(g, c, acc, k), LAMBDA vs : PlaceAll(acc, StepWires(g, k), vs)),
           BaseRow(g, c, h, inp), Iota(NSteps(g)))

\* ================================================================ CONSTRAINTS
\* the constraint vector of gate g on constants c, public-input hash h and the concrete row r
ConsRaw(g, c, h, r) ==
  CASE g.kind = "arith" ->
         MapN(LAMBDA i : Sub(Wr(r, 4*(i-1)+3),
                             Add(Mul(Mul(Wr(r, 4*(i-1)), Wr(r, 4*(i-1)+1)), c[1]), Mul(Wr(r, 4*(i-1)+2), c[2]))), g.n)
    [] g.kind = "arithext" ->
         FlatMapN(LAMBDA i : ESub(XW(r, 4*D*(i-1) + 3*D),
                                  ArithExtOut(c, XW(r, 4*D*(i-1)), XW(r, 4*D*(i-1) + D), XW(r, 4*D*(i-1) + 2*D))), g.n)
    [] g.kind = "mulext" ->
         FlatMapN(LAMBDA i : ESub(XW(r, 3*D*(i-1) + 2*D),
                                  EScal(c[1], EMul(XW(r, 3*D*(i-1)), XW(r, 3*D*(i-1) + D)))), g.n)
    [] g.kind = "basesum" ->
         <<Sub(FoldLeft(LAMBDA s, i : (s * g.b + Wr(r, g.l - i + 1)) % P, 0, Iota(g.l)), Wr(r, 0))>>
         \o MapN(LAMBDA i : FoldLeft(LAMBDA pr, v : Mul(pr, Sub(Wr(r, i), v % P)), 1, Range0(0, g.b)), g.l)
    [] g.kind = "constant" -> MapN(LAMBDA i : Sub(c[i], Wr(r, i - 1)), g.n)
    [] g.kind = "expo" ->
         MapN(LAMBDA k : Sub(Mul(ExpoPrev(g, r, k - 1),
                                 Add(Mul(Wr(r, 1 + (g.n - (k - 1) - 1)), Wr(r, 0)),
                                     Sub(1, Wr(r, 1 + (g.n - (k - 1) - 1))))),
                             Wr(r, 2 + g.n + k - 1)), g.n)
         \o <<Sub(Wr(r, 1 + g.n), Wr(r, 2 + g.n + g.n - 1))>>
    [] g.kind = "ra" ->
         FlatMapN(LAMBDA cp :
             MapN(LAMBDA i : Mul(Wr(r, RaBit(g, i - 1, cp - 1)), Sub(Wr(r, RaBit(g, i - 1, cp - 1)), 1)), g.bits)
             \o <<Sub(FoldLeft(LAMBDA s, i : (2 * s + Wr(r, RaBit(g, g.bits - i, cp - 1))) % P, 0, Iota(g.bits)),
                      Wr(r, RaStride(g) * (cp - 1)))>>
             \o <<Sub(FoldLeft(LAMBDA items, i :
                                 MapN(LAMBDA j : Add(items[2*j - 1],
                                                     Mul(Wr(r, RaBit(g, i - 1, cp - 1)), Sub(items[2*j], items[2*j - 1]))),
                                      Len(items) \div 2),
                               SubSeq(r, RaStride(g)*(cp-1) + 3, RaStride(g)*(cp-1) + 2 + RaVs(g)), Iota(g.bits))[1],
                      Wr(r, RaStride(g) * (cp - 1) + 1))>>, g.copies)
         \o MapN(LAMBDA i : Sub(c[i], Wr(r, RaStride(g) * g.copies + i - 1)), g.extra)
    [] g.kind = "reducing" ->
         FlatMapN(LAMBDA i : ESub(EAdd(EMul(IF i = 1 THEN XW(r, 2 * D) ELSE XW(r, RedAcc(g, i - 2)), XW(r, D)),
                                       <<Wr(r, 3 * D + i - 1), 0>>), XW(r, RedAcc(g, i - 1))), g.n)
    [] g.kind = "reducingext" ->
         FlatMapN(LAMBDA i : ESub(EAdd(EMul(IF i = 1 THEN XW(r, 2 * D) ELSE XW(r, RedAcc(g, i - 2)), XW(r, D)),
                                       XW(r, 3 * D + D * (i - 1))), XW(r, RedAcc(g, i - 1))), g.n)
    [] g.kind = "mds" -> FlatMapN(LAMBDA i : ESub(XW(r, (g.w + i - 1) * D), MdsExtOut(g, r, i - 1)), g.w)
    [] g.kind = "pi" -> MapN(LAMBDA i : Sub(Wr(r, i - 1), h[i]), 4)
    [] g.kind \in {"noop", "lookup", "lookuptable"} -> <<>>
    [] g.kind = "coset" ->
         ESub(XW(r, CoPoint(g)), EScal(Wr(r, 0), XW(r, CoShifted(g))))
         \o FlatMapN(LAMBDA i : Let(CosetChunk(g, r, XW(r, CoShifted(g)), CosetStart(g, r, i - 1), i - 1),
                                    LAMBDA ep : ESub(XW(r, CoIEval(g, i - 1)), ep[1]) \o ESub(XW(r, CoIProd(g, i - 1)), ep[2])),
                     CoNI(g))
         \o Let(CosetChunk(g, r, XW(r, CoShifted(g)), CosetStart(g, r, CoNI(g)), CoNI(g)),
                LAMBDA ep : ESub(XW(r, CoValue(g)), ep[1]))
    [] g.kind = "poseidon" ->
         <<Mul(Wr(r, 2 * g.w), Sub(Wr(r, 2 * g.w), 1))>>
         \o MapN(LAMBDA i : Sub(Mul(Wr(r, 2 * g.w), Sub(Wr(r, i - 1 + g.blk), Wr(r, i - 1))), Wr(r, 2 * g.w + 1 + i - 1)), g.blk)
         \o FlatMapN(LAMBDA rd : Let(PoFull0In(g, r, rd),
                                     LAMBDA st : MapN(LAMBDA i : Sub(st[i], Wr(r, PoSF0(g) + g.w * (rd - 1) + i - 1)), g.w)),
                     g.hf - 1)
         \o Let(PoPartialStates(g, r),
                LAMBDA ps : MapN(LAMBDA j : Sub(ps[j][1], Wr(r, PoSP(g) + j - 1)), g.np))
         \o FlatMapN(LAMBDA rd : Let(PoFull1In(g, r, rd - 1),
                                     LAMBDA st : MapN(LAMBDA i : Sub(st[i], Wr(r, PoSF1(g) + g.w * (rd - 1) + i - 1)), g.w)),
                     g.hf)
         \o Let(PoOut(g, r), LAMBDA st : MapN(LAMBDA i : Sub(st[i], Wr(r, g.w + i - 1)), g.w))

\* mutant: one constraint of one gate kind dropped
Cns(g, c, h, r) ==
  IF DropIdx = 0 \/ g.kind # DropKind THEN ConsRaw(g, c, h, r)
  ELSE Let(ConsRaw(g, c, h, r), LAMBDA cs : MapN(LAMBDA i : IF i = DropIdx THEN 0 ELSE cs[i], Len(cs)))

AllZero(cs) == \A i \in 1..Len(cs) : cs[i] = 0

\* ================================================================ OBLIGATIONS
\* (G1) the generated row satisfies all constraints
G1(g, c, h, row) == AllZero(Cns(g, c, h, row))
\* (G2) every pinned wire, replaced by any other value, makes some constraint non-zero
G2(g, c, h, row) ==
  \A w \in SeqSet(Pinned(g)) :
    \A rr \in {[row EXCEPT ![w + 1] = v] : v \in F \ {row[w + 1]}} :
      ~AllZero(Cns(g, c, h, rr))
\* (G2s) joint uniqueness (stronger than the property's single replacement; checked where
\* P^|pinned| is small): the constraints have no other solution in the pinned wires at all
G2s(g, c, h, row) ==
  LET pw == Pinned(g) IN
  \A f \in [1..Len(pw) -> F] :
    Let(PlaceAll(row, pw, f), LAMBDA rr : AllZero(Cns(g, c, h, rr)) => rr = row)
\* (G3) as many constraints as declared (the unmutated list)
G3(g, c, h, row) == Len(ConsRaw(g, c, h, row)) = NumConstraints(g)

\* (G4) degree: along the line t |-> (c0 + t c1, h0 + t h1, r0 + t r1) every constraint is a
\* polynomial in t of degree <= d, i.e. its (d+1)-th finite difference vanishes (needs d + 2 <= P)
LineAt(x0, x1, t) == MapN(LAMBDA i : (x0[i] + t * x1[i]) % P, Len(x0))
DiffOnce(vs) == MapN(LAMBDA i : Sub(vs[i + 1], vs[i]), Len(vs) - 1)
RECURSIVE DiffN(_, _)
DiffN(vs, n) == IF n = 0 THEN vs ELSE Let(DiffOnce(vs), LAMBDA d1 : DiffN(d1, n - 1))
\* values of all constraints at t = 0..m, as a tuple of tuples
LineVals(g, c0, c1, h0, h1, r0, r1, m) ==
  MapN(LAMBDA t : Let(LineAt(c0, c1, t - 1), LAMBDA ct : Let(LineAt(h0, h1, t - 1), LAMBDA ht :
                  Let(LineAt(r0, r1, t - 1), LAMBDA rt : ConsRaw(g, ct, ht, rt)))), m + 1)
\* highest non-vanishing finite-difference order of constraint j along the line (<= m)
ConsColumn(vals, j) == MapN(LAMBDA t : vals[t][j], Len(vals))
DegreeAtMost(vals, j, d) == AllZero(DiffN(ConsColumn(vals, j), d + 1))
=============================================================================
