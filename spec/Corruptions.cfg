
