CONSTANT P = 17
CONSTANT G = 3
CONSTANT LOGN = 2
CONSTANT MUT = "none"
CONSTANT MODE = "corrupt"
CONSTANT SIDS = {1, 3, 4, 5, 6, 8}
CONSTANT FREEVALS = {1, 5}
CONSTANT DELTAS = {1, 16}
CONSTANT VALS = {0, 1, 2}
CONSTANT ALPHAS = {1, 3}
CONSTANT IDENTITY = TRUE
INIT Init
NEXT Next
INVARIANT Theorems
INVARIANT Emit
CHECK_DEADLOCK FALSE
