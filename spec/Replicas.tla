------------------------------ MODULE Replicas ------------------------------
(***************************************************************************)
(* C17, property level: replicas of ONE circuit related by Save / Restore  *)
(* (to_bytes / from_bytes of CircuitData, ProverCircuitData,               *)
(* VerifierCircuitData) and by the API projections verifier_data() /       *)
(* prover_data().  Replica 0 is the circuit as built.  Every operation of  *)
(* the API that the property mentions is an action; every action has an    *)
(* OBSERVATION and the property says that each observation equals the one  *)
(* the original circuit gives:                                             *)
(*    Restore      decoded value = the saved value (and re-encodes to the  *)
(*                 same bytes)                                             *)
(*    Prove/Verify a proof made by any replica is accepted by every        *)
(*                 replica (plain, compressed, or decoded from bytes)      *)
(*    Digest       equal circuit digests                                   *)
(*    GenWitness   equal generated witnesses for equal inputs              *)
(*    Recode       to_bytes -> from_bytes(.., common of the replica) gives *)
(*                 the same proof                                          *)
(*                                                                         *)
(* A replica is abstracted to its kind (F full, P prover, V verifier) and  *)
(* the set of its components that are INTACT.  An honest Restore keeps all *)
(* components intact, so ObsEqual holds by construction in the unmutated   *)
(* model: encode/decode fidelity is not something a specification can      *)
(* prove.  What the model contributes is (1) the complete set of histories *)
(* up to a length bound - each printed as a scenario that the harness      *)
(* replays on real circuits with the expectation "every observation is the *)
(* original's" - and (2) adequacy: for every component a lossy Restore     *)
(* (Mutant) is distinguished by some history within the same bound, i.e.   *)
(* the scenario set can notice that component being dropped or altered by  *)
(* the real encoder/decoder.                                               *)
(***************************************************************************)
EXTENDS Integers, Sequences, FiniteSets, TLC, Json

CONSTANTS MaxOps,      \* history length bound
          EmitLen,     \* histories of exactly this length are printed (0 = none)
          MaxReps,     \* replicas (including the original)
          MaxBlobs,    \* saved byte strings
          MaxProofs,   \* proof objects (plain or compressed)
          NInputs,     \* distinct circuit inputs
          NoRepeat,    \* TRUE: an operation is never repeated with identical arguments
          CheckRestore,\* FALSE: Restore's own "decoded = saved" comparison is not made (mutant runs:
                       \* the loss must then be noticed through behaviour alone)
          Mutant,      \* "none", the component a Restore loses, or "restore_swaps_index_pair"
          Nondegenerate \* does the circuit hold two DIFFERENT values in every index pair of its data?
                       \* (a lookup table spanning several LookupTableGate rows: first_lut_gate # last_lut_gate)

VARIABLES reps, blobs, proofs, hist, bad, nused
vars == <<reps, blobs, proofs, hist, bad, nused>>

Common       == {"shape", "gates", "selectors", "luts", "kis"}
ProverOnly   == {"generators", "watches", "sigmas", "pdigest", "targets", "lookuprows"}
VerifierOnly == {"cap", "vdigest"}
Held(kind) == CASE kind = "F" -> Common \cup ProverOnly \cup VerifierOnly
                [] kind = "P" -> Common \cup ProverOnly
                [] kind = "V" -> Common \cup VerifierOnly
Mutants == {"none", "restore_swaps_index_pair"} \cup Common \cup ProverOnly \cup VerifierOnly
ASSUME Mutant \in Mutants /\ Nondegenerate \in BOOLEAN
\* A Restore that exchanges the two members of an index pair (LookupWire.first_lut_gate / last_lut_gate in
\* read_prover_only_circuit_data) damages the component only if the members differ: on a degenerate
\* circuit the exchange is the identity and NO history can expose it.  The replay therefore has to
\* contain circuits of the non-degenerate class (bin/lib/c17.py: field-witness guard).
Lost == CASE Mutant = "none" -> {}
          [] Mutant = "restore_swaps_index_pair" -> IF Nondegenerate THEN {"lookuprows"} ELSE {}
          [] OTHER -> {Mutant}

\* ---- what each observation depends on ------------------------------------------------------
CanProve(r)   == r.kind \in {"F", "P"}
CanVerify(r)  == r.kind \in {"F", "V"}
ProvesWell(r) == (Common \cup ProverOnly) \subseteq r.ok          \* the proof is one the original accepts
VerifiesWell(r) == (Common \cup VerifierOnly) \subseteq r.ok
DecodesWell(r) == {"shape", "luts"} \subseteq r.ok                \* every implied length comes from these
DigestWell(r) == (Held(r.kind) \cap {"pdigest", "vdigest"}) \subseteq r.ok
WitnessWell(r) == ({"shape", "gates", "luts", "generators", "watches", "targets", "lookuprows"}) \subseteq r.ok
\* compress / decompress recompute the challenges from the digest and the common data
ChallengesWell(r) == /\ Common \subseteq r.ok
                     /\ (IF r.kind = "P" THEN "pdigest" ELSE "vdigest") \in r.ok

Range(s) == {s[i] : i \in 1..Len(s)}
Fresh(op) == ~NoRepeat \/ op \notin Range(hist)
Step(op, good) == /\ Len(hist) < MaxOps
                  /\ Fresh(op)
                  /\ hist' = Append(hist, op)
                  /\ bad' = (bad \/ ~good)

Init == /\ reps = << [kind |-> "F", ok |-> Held("F")] >>
        /\ blobs = <<>>
        /\ proofs = <<>>
        /\ hist = <<>>
        /\ bad = FALSE
        /\ nused = 0

\* indices are 0-based in the scenario (the harness numbers replicas, blobs and proofs in creation order)
Save(r) == /\ Len(blobs) < MaxBlobs
           /\ Step([op |-> "Save", r |-> r - 1, k |-> reps[r].kind], TRUE)
           /\ blobs' = Append(blobs, reps[r])
           /\ UNCHANGED <<reps, proofs, nused>>

Restore(b) == /\ Len(reps) < MaxReps
              /\ LET new == [kind |-> blobs[b].kind, ok |-> blobs[b].ok \ Lost]
                 \* observation: decoded = saved value
                 IN /\ Step([op |-> "Restore", b |-> b - 1, k |-> blobs[b].kind], CheckRestore => new.ok = blobs[b].ok)
                    /\ reps' = Append(reps, new)
              /\ UNCHANGED <<blobs, proofs, nused>>

NarrowV(r) == /\ Len(reps) < MaxReps
              /\ reps[r].kind = "F"
              /\ Step([op |-> "NarrowV", r |-> r - 1, k |-> "F"], TRUE)
              /\ reps' = Append(reps, [kind |-> "V", ok |-> reps[r].ok \cap Held("V")])
              /\ UNCHANGED <<blobs, proofs, nused>>

\* prover_data() consumes its circuit: the replica changes kind in place; the original is kept
NarrowP(r) == /\ r > 1
              /\ reps[r].kind = "F"
              /\ Step([op |-> "NarrowP", r |-> r - 1, k |-> "F"], TRUE)
              /\ reps' = [reps EXCEPT ![r] = [kind |-> "P", ok |-> reps[r].ok \cap Held("P")]]
              /\ UNCHANGED <<blobs, proofs, nused>>

\* inputs are interchangeable: input i+1 is used only after input i
Inputs == 0..(IF nused < NInputs - 1 THEN nused ELSE NInputs - 1)
UseInput(i) == nused' = IF i = nused THEN nused + 1 ELSE nused

Prove(r, i) == /\ Len(proofs) < MaxProofs
               /\ CanProve(reps[r])
               /\ Step([op |-> "Prove", r |-> r - 1, i |-> i, k |-> reps[r].kind], TRUE)
               /\ proofs' = Append(proofs, [form |-> "plain", good |-> ProvesWell(reps[r])])
               /\ UseInput(i)
               /\ UNCHANGED <<reps, blobs>>

Verify(r, p) == /\ CanVerify(reps[r])
                /\ Step([op |-> "Verify", r |-> r - 1, p |-> p - 1, k |-> reps[r].kind],
                        proofs[p].good /\ VerifiesWell(reps[r]))
                /\ UNCHANGED <<reps, blobs, proofs, nused>>

Compress(r, p) == /\ Len(proofs) < MaxProofs
                  /\ proofs[p].form = "plain"
                  /\ Step([op |-> "Compress", r |-> r - 1, p |-> p - 1, k |-> reps[r].kind], TRUE)
                  /\ proofs' = Append(proofs, [form |-> "comp", good |-> proofs[p].good /\ ChallengesWell(reps[r])])
                  /\ UNCHANGED <<reps, blobs, nused>>

Decompress(r, p) == /\ Len(proofs) < MaxProofs
                    /\ proofs[p].form = "comp"
                    /\ Step([op |-> "Decompress", r |-> r - 1, p |-> p - 1, k |-> reps[r].kind], TRUE)
                    /\ proofs' = Append(proofs, [form |-> "plain", good |-> proofs[p].good /\ ChallengesWell(reps[r])])
                    /\ UNCHANGED <<reps, blobs, nused>>

\* to_bytes, then from_bytes with the replica's common data; the decoded proof is a new object
Recode(r, p) == /\ Len(proofs) < MaxProofs
                /\ Step([op |-> "Recode", r |-> r - 1, p |-> p - 1, k |-> reps[r].kind], DecodesWell(reps[r]))
                /\ proofs' = Append(proofs, [form |-> proofs[p].form, good |-> proofs[p].good /\ DecodesWell(reps[r])])
                /\ UNCHANGED <<reps, blobs, nused>>

Digest(r) == /\ Step([op |-> "Digest", r |-> r - 1, k |-> reps[r].kind], DigestWell(reps[r]))
             /\ UNCHANGED <<reps, blobs, proofs, nused>>

GenWitness(r, i) == /\ CanProve(reps[r])
                    /\ Step([op |-> "GenWitness", r |-> r - 1, i |-> i, k |-> reps[r].kind], WitnessWell(reps[r]))
                    /\ UseInput(i)
                    /\ UNCHANGED <<reps, blobs, proofs>>

Next == \/ \E r \in 1..Len(reps) : Save(r) \/ NarrowV(r) \/ NarrowP(r) \/ Digest(r)
        \/ \E b \in 1..Len(blobs) : Restore(b)
        \/ \E r \in 1..Len(reps), i \in Inputs : Prove(r, i) \/ GenWitness(r, i)
        \/ \E r \in 1..Len(reps), p \in 1..Len(proofs) :
              Verify(r, p) \/ Compress(r, p) \/ Decompress(r, p) \/ Recode(r, p)
Spec == Init /\ [][Next]_vars

\* ---- obligations ----------------------------------------------------------------------------
TypeOK == /\ \A i \in 1..Len(reps) : reps[i].kind \in {"F", "P", "V"} /\ reps[i].ok \subseteq Held(reps[i].kind)
          /\ Len(hist) <= MaxOps /\ Len(reps) <= MaxReps /\ Len(blobs) <= MaxBlobs /\ Len(proofs) <= MaxProofs
          /\ reps[1] = [kind |-> "F", ok |-> Held("F")]
\* the property: no observation ever differs from the original's
ObsEqual == ~bad
\* all replicas hold exactly what their kind holds, intact (what makes ObsEqual true)
AllIntact == \A i \in 1..Len(reps) : reps[i].ok = Held(reps[i].kind)
\* proofs are good whoever made / transported them
AllGood == \A p \in 1..Len(proofs) : proofs[p].good

\* scenario output: one line per history of length EmitLen
Emit == (EmitLen > 0 /\ Len(hist) = EmitLen) => PrintT("REPLAY " \o ToJson([ops |-> hist]))
\* abstraction for the deep run: the history itself is not part of the state
AbsView == <<reps, blobs, proofs, bad, nused, Len(hist)>>
=============================================================================
