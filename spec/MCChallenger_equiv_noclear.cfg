CONSTANTS
  RATE = 2
  WIDTH = 3
  OUT = 1
  Atoms = {1, 2, 3}
  Bursts <- BurstsSmall
  MaxOps = 5
  EmitReplay = FALSE
  GetWeight = 1
  Mutant = "noclear"
INIT Init
NEXT Next
CHECK_DEADLOCK FALSE
INVARIANT DepInv
INVARIANT PLAgree
INVARIANT CompInv
INVARIANT ISAgree
INVARIANT HashInv
