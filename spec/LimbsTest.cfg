INIT Init
NEXT Next
