CONSTANT HashSizes = {25, 32}
CONSTANT MaxW = 9
CONSTANT Mutant = "noop_by_element_count"
INIT Init
NEXT Next
INVARIANT CollisionFree
CHECK_DEADLOCK FALSE
