------------------------------ MODULE MCCodec ------------------------------
(***************************************************************************)
(* TLC wrapper of Codec: (1) grammar walk = closed formula on a lattice of *)
(* shapes; (2) the only lengths the plain-proof decoder reads from the     *)
(* input are the Merkle path lengths and the public input count; (3) on a  *)
(* small domain, for EVERY vector of query indices: compressed size <=     *)
(* plain size + 4q - 8, duplicates never cost, and a single query keeps    *)
(* every sibling; (4) prints shape -> size lines (SIZE ...).  The state    *)
(* machine steps through the lattice so that each shape is evaluated once. *)
(***************************************************************************)
EXTENDS Codec, Json

Arities == { <<>>, <<1>>, <<2, 1>>, <<3>>, <<4>>, <<4, 4>>, <<1, 1, 1>> }
Lattice == { [H |-> h, cap |-> c, nconst |-> nc, routed |-> rw.r, wires |-> rw.w, nch |-> n, nlp |-> l, npp |-> 9,
              qdf |-> 8, arities |-> a, dbits |-> d, rate |-> r, q |-> q, hiding |-> z, npi |-> p] :
             h \in {32, 25}, c \in {0, 1, 4}, nc \in {2, 5}, rw \in {[r |-> 80, w |-> 135], [r |-> 30, w |-> 68]},
             n \in {1, 2, 3}, l \in {0, 7}, a \in Arities, d \in {3, 5, 12}, r \in {3, 4}, q \in {1, 28},
             z \in BOOLEAN, p \in {0, 7} }
Shapes == {s \in Lattice : WellFormed(s)}

\* (3): a tiny tree, every index vector
Tiny == [H |-> 32, cap |-> 1, nconst |-> 2, routed |-> 3, wires |-> 4, nch |-> 1, nlp |-> 0, npp |-> 1, qdf |-> 2,
         arities |-> <<1, 1>>, dbits |-> 2, rate |-> 1, q |-> 3, hiding |-> FALSE, npi |-> 2]
TinyIdx == [1..3 -> 0..(Pow2(LdeBits(Tiny)) - 1)]
CompressedNeverLarger == \A idx \in TinyIdx : CSize(Tiny, idx) <= Size(Tiny) + 4 * Tiny.q - 8
DuplicatesFree == \A idx \in TinyIdx : idx[1] = idx[2] =>
                     CSize(Tiny, idx) = CSize([Tiny EXCEPT !.q = 2], <<idx[2], idx[3]>>) + 4
\* one query: nothing to share, only the evaluation the verifier recomputes is dropped per layer
One == [Tiny EXCEPT !.q = 1]
SingleQuery == \A i \in 0..(Pow2(LdeBits(Tiny)) - 1) :
                  CSize(One, <<i>>) = Size(One) + 4 - 8 - Len(One.arities) * E
ASSUME CompressedNeverLarger
ASSUME DuplicatesFree
ASSUME SingleQuery

VARIABLE todo
Init == todo = Shapes
Next == \E s \in todo : todo' = todo \ {s}
WalkIsSize == \A s \in todo : TRUE
\* evaluated once per step on one shape (CHOOSE is deterministic): linear in the lattice
Cur == IF todo = {} THEN Tiny ELSE CHOOSE s \in todo : TRUE
GrammarAgrees == Walk(Cur) = Size(Cur)
OnlyPathsAndPiCountRead == ReadFromInput(Cur) \subseteq {"path0", "path1", "path2", "path3", "step_path", "public_inputs"}
Sample == (Cardinality(todo) % 97 = 0 /\ todo # {}) => PrintT("SIZE " \o ToJson([shape |-> Cur, size |-> Size(Cur)]))
=============================================================================
