------------------------------ MODULE MCCodec ------------------------------
(***************************************************************************)
(* TLC wrapper of Codec: (1) grammar walk = closed formula on a lattice of *)
(* shapes; (2) the only lengths the plain-proof decoder reads from the     *)
(* input are the Merkle path lengths and the public input count; (3) on a  *)
(* small domain, for EVERY vector of query indices: compressed size <=     *)
(* plain size + 4q - 8, duplicates never cost, and a single query keeps    *)
(* every sibling; (4) prints shape -> size lines (SIZE ...).  The state    *)
(* machine steps through the lattice so that each shape is evaluated once. *)
(***************************************************************************)
EXTENDS Codec, Json

Arities == << <<>>, <<1>>, <<2, 1>>, <<3>>, <<4>>, <<4, 4>>, <<1, 1, 1>> >>
\* the lattice as a mixed-radix enumeration (the state is just the index)
Radix == <<2, 2, 2, 2, 2, 7, 2, 2, 2>>
N == 2 * 2 * 2 * 2 * 2 * 7 * 2 * 2 * 2
RECURSIVE Digits(_, _)
Digits(i, k) == IF k > Len(Radix) THEN <<>> ELSE <<i % Radix[k]>> \o Digits(i \div Radix[k], k + 1)
ShapeOf(i) ==
  LET d == Digits(i, 1)
  IN [H |-> <<32, 25>>[d[1] + 1], cap |-> <<0, 4>>[d[2] + 1], nconst |-> 3,
      routed |-> <<80, 30>>[d[3] + 1], wires |-> <<135, 68>>[d[3] + 1], nch |-> <<1, 3>>[d[4] + 1],
      nlp |-> <<0, 7>>[d[5] + 1], npp |-> 9, qdf |-> 8, arities |-> Arities[d[6] + 1],
      dbits |-> <<3, 12>>[d[7] + 1], rate |-> 3, q |-> <<1, 28>>[d[8] + 1], hiding |-> d[9] = 1, npi |-> 7]

\* (3): a tiny tree, every index vector
Tiny == [H |-> 32, cap |-> 1, nconst |-> 2, routed |-> 3, wires |-> 4, nch |-> 1, nlp |-> 0, npp |-> 1, qdf |-> 2,
         arities |-> <<1, 1>>, dbits |-> 2, rate |-> 1, q |-> 3, hiding |-> FALSE, npi |-> 2]
TinyIdx == [1..3 -> 0..(Pow2(LdeBits(Tiny)) - 1)]
CompressedNeverLarger == \A idx \in TinyIdx : CSize(Tiny, idx) <= Size(Tiny) + 4 * Tiny.q - 8
DuplicatesFree == \A idx \in TinyIdx : idx[1] = idx[2] =>
                     CSize(Tiny, idx) = CSize([Tiny EXCEPT !.q = 2], <<idx[2], idx[3]>>) + 4
\* one query: nothing to share, only the evaluation the verifier recomputes is dropped per layer
One == [Tiny EXCEPT !.q = 1]
SingleQuery == \A i \in 0..(Pow2(LdeBits(Tiny)) - 1) :
                  CSize(One, <<i>>) = Size(One) + 4 - 8 - Len(One.arities) * E
ASSUME CompressedNeverLarger
ASSUME DuplicatesFree
ASSUME SingleQuery

VARIABLES i, cur
Init == i = 0 /\ cur = ShapeOf(0)
\* an 8-ary tree over the indices, so that TLC's workers share the lattice; the shape is kept in a
\* variable (a fully evaluated value)
Next == \E c \in 1..8 : 8 * i + c < N /\ i' = 8 * i + c /\ cur' = ShapeOf(8 * i + c)
GrammarAgrees == WellFormed(cur) => Walk(cur) = Size(cur)
OnlyPathsAndPiCountRead == WellFormed(cur) => ReadFromInput(cur) \subseteq {"path0", "path1", "path2", "path3", "step_path", "public_inputs"}
Sample == (i % 97 = 0 /\ WellFormed(cur)) => PrintT("SIZE " \o ToJson([shape |-> cur, size |-> Size(cur)]))
=============================================================================
