------------------------------ MODULE Selectors ------------------------------
(***************************************************************************)
(* Selector polynomials of gates/selectors.rs (selector_polynomials) and   *)
(* the gate filters of gates/gate.rs (compute_filter).                     *)
(*                                                                         *)
(* Gates are sorted by degree.  They are split greedily into groups; group *)
(* G gets one selector polynomial whose value on a row is the index k of   *)
(* the row's gate if k is in G, and UNUSED otherwise.  The filter of gate  *)
(* k in group G at selector value s is                                     *)
(*      prod_{i in G, i # k} (i - s)   [ * (UNUSED - s) if several groups ] *)
(* Property level (what C02's soundness argument uses): the groups         *)
(* partition the gates in order; |G| + max degree in G <= MaxDeg, so every *)
(* filtered constraint has degree <= MaxDeg; on a row carrying gate k the  *)
(* filter of k is non-zero and the filter of every other gate - in the     *)
(* same group or not - is zero.                                            *)
(* TLC checks this for every sorted degree sequence up to Len gates and    *)
(* validates the grouping recorded from real circuits (SelectorsTrace).    *)
(***************************************************************************)
EXTENDS Integers, Sequences, FiniteSets, TLC

UNUSED == 100                 \* stands for u32::MAX; the model field is F_101
P == 101

\* greedy grouping: sequence of <<start, size>> (0-based starts), or <<>> plus Fail when a gate is too big
RECURSIVE SizeFrom(_, _, _, _)
SizeFrom(degs, start, size, maxdeg) ==
  IF start + size < Len(degs) /\ size + degs[start + size + 1] < maxdeg
  THEN SizeFrom(degs, start, size + 1, maxdeg) ELSE size
RECURSIVE Greedy(_, _, _)
Greedy(degs, start, maxdeg) ==
  IF start >= Len(degs) THEN <<>>
  ELSE LET sz == SizeFrom(degs, start, 0, maxdeg) IN << <<start, sz>> >> \o Greedy(degs, start + sz, maxdeg)

MaxOf(degs) == degs[Len(degs)]                \* sorted ascending
SingleGroup(degs, maxdeg) == MaxOf(degs) + Len(degs) - 1 <= maxdeg
Admissible(degs, maxdeg) == SingleGroup(degs, maxdeg) \/ MaxOf(degs) < maxdeg     \* otherwise the code panics
Groups(degs, maxdeg) == IF SingleGroup(degs, maxdeg) THEN << <<0, Len(degs)>> >> ELSE Greedy(degs, 0, maxdeg)

GroupOf(gs, k) == CHOOSE j \in 1..Len(gs) : gs[j][1] <= k /\ k < gs[j][1] + gs[j][2]
Members(g) == g[1]..(g[1] + g[2] - 1)
\* filter of gate k evaluated at selector value s (mod P)
RECURSIVE Prod(_)
Prod(S) == IF S = {} THEN 1 ELSE LET x == CHOOSE y \in S : TRUE IN (x * Prod(S \ {x})) % P
Filter(gs, k, s) ==
  LET g == gs[GroupOf(gs, k)]
      fs == {(((i - s) % P) + P) % P : i \in Members(g) \ {k}}
      base == Prod(fs)
      \* distinct factors could coincide mod P only if P <= Len: not here
  IN IF Len(gs) > 1 THEN (base * ((((UNUSED - s) % P) + P) % P)) % P ELSE base
\* selector value seen by gate j's group on a row carrying gate k
SelValue(gs, j, k) == IF GroupOf(gs, j) = GroupOf(gs, k) THEN k ELSE UNUSED

GroupsOk(degs, maxdeg, gs) ==
  /\ Len(gs) >= 1
  /\ gs[1][1] = 0
  /\ \A j \in 1..Len(gs) : gs[j][2] >= 1
  /\ \A j \in 1..(Len(gs) - 1) : gs[j][1] + gs[j][2] = gs[j + 1][1]
  /\ gs[Len(gs)][1] + gs[Len(gs)][2] = Len(degs)
  \* degree of a filtered constraint: (|G| - 1 factors, one more when there are several groups) + gate degree
  /\ \A j \in 1..Len(gs) : gs[j][2] - 1 + (IF Len(gs) > 1 THEN 1 ELSE 0) + degs[gs[j][1] + gs[j][2]] <= maxdeg
FiltersOk(degs, gs) ==
  \A k \in 0..(Len(degs) - 1) :
     /\ Filter(gs, k, SelValue(gs, k, k)) # 0
     /\ \A j \in 0..(Len(degs) - 1) : j # k => Filter(gs, j, SelValue(gs, j, k)) = 0
=============================================================================
