CONSTANTS
  RATE = 8
  WIDTH = 12
  Mutants = {{}}
  EncodeMutant = "drops_final_bits"
  ConfigSet = "one"
INIT Init
NEXT Next
CHECK_DEADLOCK FALSE
INVARIANT FS1
