CONSTANT MaxConnects = 3
CONSTANT Ordered = TRUE
CONSTANT Mutant = "merge_unrooted"
INIT Init
NEXT Next
INVARIANT ForestIsClosure
INVARIANT RepIsFixedPoint
INVARIANT SigmaIsPermutation
INVARIANT OneCyclePerClass
INVARIANT Emit
CHECK_DEADLOCK FALSE
