---------------------------- MODULE BlindingTrace ----------------------------
(* Trace validation of zero-knowledge circuits built by the real CircuitBuilder (harness bin `blinding`):   *)
(* each event carries the gate count n0 before `build`, the final degree and the schedule of the built      *)
(* circuit.  `build` adds a few gates of its own before blinding (public-input gate, public-input hash,     *)
(* constants), so the event is explained iff SOME pre-blinding count n in n0..n0+Slack makes the            *)
(* transcribed fixed point (Blinding!BlindingCounts) end at the recorded degree, and the recorded schedule  *)
(* is the one FriParams gives for that degree.  UnderBlinded lists the events whose final degree is below   *)
(* the estimate the counts were computed for (DESIGN 11.4: observation, zero knowledge is not one of the    *)
(* listed properties).                                                                                      *)
EXTENDS Blinding, Json, IOUtils

Rec == ndJsonDeserialize(IOEnv.TRACE)
Slack == 8
MaxBits == 24
Strat(s) == IF s.kind = "Const" THEN [kind |-> "Const", a |-> s.a, f |-> s.f] ELSE [kind |-> "MinSize", max |-> s.max]
Explains(e, n) ==
  LET c == BlindingCounts(Strat(e.s), n, e.rb, e.cap, e.q, MaxBits)
  IN /\ c.st = "ok"
     /\ FinalDegreeBits(n, c) = e.deg_bits
EvOk(e) ==
  /\ e.hiding
  /\ e.bits = ReductionArityBits(Strat(e.s), e.deg_bits, e.rb, e.cap, e.q).bits
  /\ \E n \in e.n0..(e.n0 + Slack) : Explains(e, n)
  /\ e.accepted
UnderBlinded(e) ==
  \A n \in e.n0..(e.n0 + Slack) :
     Explains(e, n) => ~Hides(Strat(e.s), n, e.rb, e.cap, e.q, BlindingCounts(Strat(e.s), n, e.rb, e.cap, e.q, MaxBits))
Bad == {i \in 1..Len(Rec) : ~EvOk(Rec[i])}
Under == {i \in 1..Len(Rec) : EvOk(Rec[i]) /\ UnderBlinded(Rec[i])}
ASSUME PrintT(<<"BLINDING events", Len(Rec), "rejected", Bad, "underblinded", Under>>)
ASSUME Bad = {}
VARIABLE x
Init == x = 0
Next == UNCHANGED x
=============================================================================
