CONSTANT MaxConnects = 2
CONSTANT Ordered = TRUE
CONSTANT Mutant = "none"
INIT Init
NEXT Next
INVARIANT ForestIsClosure
INVARIANT RepIsFixedPoint
INVARIANT SigmaIsPermutation
INVARIANT OneCyclePerClass
INVARIANT Emit
CHECK_DEADLOCK FALSE
