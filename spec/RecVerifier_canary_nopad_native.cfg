CONSTANT Instance = "starkvar"
CONSTANT Disabled = {}
CONSTANT Mutant = "nopad_native"
INIT Init
NEXT Next
INVARIANT Agree
CHECK_DEADLOCK FALSE
