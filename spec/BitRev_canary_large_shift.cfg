CONSTANT TB = 2
CONSTANT WB = 16
CONSTANT SMALL = 64
CONSTANT BIGT = 16
CONSTANT LBBLOCK = 1
CONSTANT MaxLb = 8
CONSTANT ESizes = {1, 8}
CONSTANT Mutant = "large_shift"
INIT Init
NEXT Next
INVARIANT Correct
INVARIANT InBounds
CHECK_DEADLOCK FALSE
