CONSTANT P = 17
CONSTANT G = 3
CONSTANT MaxLg = 4
CONSTANT PackLg = 0
CONSTANT Mutant = "skip_round0"
CONSTANT Shifts = {1, 3}
INIT Init
NEXT Next
INVARIANT Correct
INVARIANT InRange
INVARIANT PanicByContract
CHECK_DEADLOCK FALSE
