--------------------------- MODULE SelectorsTrace ---------------------------
(* grouping recorded from real circuits: {degrees, max_degree, groups: [[start, end)...], selector_indices} *)
EXTENDS Selectors, Json, IOUtils
Rec == ndJsonDeserialize(IOEnv.TRACE)
AsPairs(gr) == [j \in 1..Len(gr) |-> <<gr[j][1], gr[j][2] - gr[j][1]>>]
RowOk(r) == LET gs == AsPairs(r.groups) IN
  /\ GroupsOk(r.degrees, r.max_degree, gs) /\ FiltersOk(r.degrees, gs)
  /\ \A k \in 0..(Len(r.degrees) - 1) : r.selector_indices[k + 1] = GroupOf(gs, k) - 1
Greedy0(r) == AsPairs(r.groups) = Groups(r.degrees, r.max_degree)
ASSUME PrintT(<<"SELTRACE", Len(Rec), {i \in 1..Len(Rec) : ~RowOk(Rec[i])}, {i \in 1..Len(Rec) : ~Greedy0(Rec[i])}>>)
=============================================================================
