CONSTANT MaxH = 4
CONSTANT W0s = {1, 5}
CONSTANT Mutant = "none"
INIT Init
NEXT Next
INVARIANT Correct
INVARIANT OpenRight
INVARIANT PlainAgree
INVARIANT Emit
CHECK_DEADLOCK FALSE
